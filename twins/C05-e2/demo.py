# ---------------------------------------------------------------------------------------------
# shared harness: small ptychography problem + checkpoint/resume comparison
# ---------------------------------------------------------------------------------------------
import contextlib
import io
import os
import tempfile
import warnings

import matplotlib

matplotlib.use("Agg")
import numpy as np
import torch

from quantem.core.datastructures.dataset4dstem import Dataset4dstem
from quantem.diffractive_imaging.dataset_models import PtychographyDatasetRaster
from quantem.diffractive_imaging.detector_models import DetectorPixelated
from quantem.diffractive_imaging.object_models import ObjectPixelated
from quantem.diffractive_imaging.probe_models import ProbePixelated
from quantem.diffractive_imaging.ptychography import Ptychography

warnings.filterwarnings("ignore")
ENERGY = 300e3


def make_dataset(sx=7, sy=6, n=(16, 16), seed=3):
    rng = np.random.default_rng(seed)
    arr = rng.random((sx, sy, n[0], n[1])).astype(np.float32) + 0.1
    yy, xx = np.meshgrid(np.arange(n[0]) - n[0] / 2, np.arange(n[1]) - n[1] / 2, indexing="ij")
    arr += 20 * ((yy**2 + xx**2) < (min(n) / 4) ** 2)
    d = Dataset4dstem.from_array(
        array=arr, sampling=(1.0, 1.0, 0.03, 0.03), units=("A", "A", "A^-1", "A^-1")
    )
    pd = PtychographyDatasetRaster.from_dataset4dstem(d, verbose=0)
    pd.preprocess(
        com_fit_function="constant",
        plot_rotation=False,
        plot_com=False,
        probe_energy=ENERGY,
        force_com_rotation=0,
        force_com_transpose=False,
    )
    return pd


def make_ptycho(sx=7, sy=6, n=(16, 16), num_probes=1, obj_type="complex", pad=(4, 4), seed=3):
    pd = make_dataset(sx, sy, n, seed)
    obj_model = ObjectPixelated.from_uniform(num_slices=1, obj_type=obj_type, slice_thicknesses=1)
    probe_model = ProbePixelated.from_params(
        num_probes=num_probes,
        probe_params={"energy": ENERGY, "defocus": 50, "semiangle_cutoff": 15},
    )
    pt = Ptychography.from_models(
        dset=pd,
        obj_model=obj_model,
        probe_model=probe_model,
        detector_model=DetectorPixelated(),
        rng=11,
        verbose=0,
    )
    pt.preprocess(obj_padding_px=pad, plot_rotation=False, plot_com=False)
    return pt


def quiet(fn, *a, **k):
    with contextlib.redirect_stdout(io.StringIO()):
        return fn(*a, **k)


def lrs_as_dict(pt):
    return {k: np.asarray(v, dtype=float) for k, v in pt.iter_lrs.items()}


def assert_same_report(a, b, what, rtol=0.0, atol=0.0):
    """a and b report the same iteration count, losses, LR history, constraints, obj, probe."""
    assert a.num_iters == b.num_iters, (what, a.num_iters, b.num_iters)
    np.testing.assert_allclose(a.iter_losses, b.iter_losses, rtol=rtol, atol=atol, err_msg=what)
    la, lb = lrs_as_dict(a), lrs_as_dict(b)
    assert set(la) == set(lb), (what, set(la), set(lb))
    for k in la:
        np.testing.assert_allclose(la[k], lb[k], rtol=rtol, atol=atol, err_msg=f"{what} lr[{k}]")
    np.testing.assert_allclose(a.obj, b.obj, rtol=rtol, atol=atol, err_msg=what + " obj")
    np.testing.assert_allclose(a.probe, b.probe, rtol=rtol, atol=atol, err_msg=what + " probe")
    ca, cb = a.constraints, b.constraints
    assert set(ca) == set(cb), what
    for cat in ("object", "probe", "dataset"):
        assert set(ca[cat]) == set(cb[cat]), (what, cat)
        for key in ca[cat]:
            va, vb = ca[cat][key], cb[cat][key]
            if isinstance(va, (np.ndarray, torch.Tensor)) or isinstance(vb, (np.ndarray, torch.Tensor)):
                np.testing.assert_allclose(np.asarray(va), np.asarray(vb), err_msg=f"{what} {cat}.{key}")
            elif isinstance(va, (list, tuple)):
                assert list(va) == list(vb), (what, cat, key, va, vb)
            else:
                assert va == vb or (va is None and vb is None), (what, cat, key, va, vb)


def optimizer_state_tensors(pt):
    out = {}
    for name, opt in pt.optimizers.items():
        for gi, g in enumerate(opt.param_groups):
            for pi, p in enumerate(g["params"]):
                for k, v in opt.state.get(p, {}).items():
                    out[(name, gi, pi, k)] = v.detach().cpu().numpy() if isinstance(v, torch.Tensor) else v
    return out


def assert_bound(pt, what):
    """every optimizer steps exactly the tensors the model optimises; state is keyed by them."""
    models = {"object": pt.obj_model, "probe": pt.probe_model, "dataset": pt.dset}
    for name, opt in pt.optimizers.items():
        cur = models[name].get_optimization_parameters()
        cur = [cur] if isinstance(cur, torch.Tensor) else list(cur)
        bound = [p for g in opt.param_groups for p in g["params"]]
        assert len(bound) == len(cur), (what, name)
        for a, b in zip(bound, cur):
            assert a is b, (what, name, "optimizer not bound to live parameter")
        for p in opt.state:
            assert any(p is b for b in bound), (what, name, "stale optimizer state key")
        sch = models[name].scheduler
        if sch is not None:
            assert sch.optimizer is opt, (what, name, "scheduler bound to another optimizer")


def checkpoint_resume_case(td, tag, n_total, k, opt_params, sched_params, store, *,
                           num_probes=1, obj_type="complex", shape=(7, 6, (16, 16)),
                           constraints=None, save_raw=True, tol=1e-4):
    """run n_total iterations straight vs k + (save|clone) + (n_total-k); compare everything."""
    constraints = constraints or {}
    import copy as _copy

    def fresh():
        pt = make_ptycho(shape[0], shape[1], shape[2], num_probes=num_probes, obj_type=obj_type)
        return pt

    def first(pt, n):
        pt.reconstruct(
            num_iters=n,
            reset=True,
            optimizer_params=_copy.deepcopy(opt_params),
            scheduler_params=_copy.deepcopy(sched_params),
            constraints=_copy.deepcopy(constraints),
            batch_size=pt.dset.num_gpts,
        )

    def more(pt, n):
        pt.reconstruct(num_iters=n, batch_size=pt.dset.num_gpts)

    ref = fresh()
    first(ref, k)
    path = os.path.join(td, f"{tag}.zip" if store == "zip" else f"{tag}_dir")
    quiet(ref.save, path, store=store, save_raw_data=save_raw)
    if save_raw:
        loaded = quiet(Ptychography.from_file, path)
    else:
        loaded = quiet(
            Ptychography.from_file,
            path,
            dset=make_dataset(shape[0], shape[1], shape[2]),
        )
    cloned = quiet(ref.clone)
    # the saved object itself is untouched by save()/clone()
    assert not hasattr(ref, "_dataset_metadata")
    for other, nm in ((loaded, "loaded"), (cloned, "cloned")):
        assert other is not ref
        assert_same_report(ref, other, f"{tag}:{nm}@{k}")
        assert_bound(other, f"{tag}:{nm}@{k}")
        sa, sb = optimizer_state_tensors(ref), optimizer_state_tensors(other)
        assert set(sa) == set(sb), (tag, nm, set(sa) ^ set(sb))
        for key in sa:
            np.testing.assert_allclose(np.asarray(sa[key]), np.asarray(sb[key]), err_msg=f"{tag}:{nm} state {key}")
    assert_bound(ref, f"{tag}:ref@{k}")
    rest = n_total - k
    if rest:
        for pt in (ref, loaded, cloned):
            more(pt, rest)
    for other, nm in ((loaded, "loaded"), (cloned, "cloned")):
        assert_same_report(ref, other, f"{tag}:{nm}@{n_total}", rtol=tol, atol=tol)
        assert_bound(other, f"{tag}:{nm}@{n_total}")
    assert ref.num_iters == n_total
    for key, v in ref.iter_lrs.items():
        assert len(v) == n_total, (tag, key, len(v))
    return ref


# ---------------------------------------------------------------------------------------------
# part A: verbatim copy of the ORIGINAL Ptychography._record_iter against the installed one,
# driven on a light stand-in for the reconstruction object
# ---------------------------------------------------------------------------------------------
def orig_record_iter(self, iter_loss: float) -> None:
    self._iter_losses.append(iter_loss)
    optimizers = self.optimizers
    all_keys = set(self._iter_lrs.keys()) | set(optimizers.keys())
    for key in all_keys:
        if key in self._iter_lrs.keys():
            if key in optimizers.keys():
                self._iter_lrs[key].append(optimizers[key].param_groups[0]["lr"])
            else:
                self._iter_lrs[key].append(0.0)
        else:  # new optimizer
            # For new optimizers, backfill with 0.0 LR for previous iterations
            current_iter = self.num_iters - 1  # -1 because loss was just appended
            prev_lrs = [0.0] * current_iter
            prev_lrs.append(optimizers[key].param_groups[0]["lr"])
            self._iter_lrs[key] = prev_lrs


class FakeOpt:
    def __init__(self, *groups):
        self.param_groups = [dict(g) for g in groups]


class Stub:
    """just the state _record_iter touches"""

    def __init__(self, losses=(), lrs=None):
        self._iter_losses = list(losses)
        self._iter_lrs = {k: list(v) for k, v in (lrs or {}).items()}
        self.optimizers = {}

    @property
    def iter_losses(self):
        return np.array(self._iter_losses)

    @property
    def num_iters(self):
        return len(self.iter_losses)


def run_script(record, script, losses=(), lrs=None):
    st = Stub(losses, lrs)
    trace = []
    for i, opts in enumerate(script):
        st.optimizers = {k: FakeOpt(*g) for k, g in opts.items()}
        try:
            ret = record(st, 10.0 - i)
            trace.append(("ok", ret))
        except Exception as e:  # noqa: BLE001
            trace.append((type(e).__name__, str(e)))
        # history after every step, order-insensitive (key order follows set iteration order)
        trace.append((list(st._iter_losses), {k: list(v) for k, v in st._iter_lrs.items()}))
        for k, v in st._iter_lrs.items():
            trace.append((k, [type(x).__name__ for x in v]))
    return trace


def record_iter_equivalence():
    new = Ptychography._record_iter
    g = lambda lr, **kw: ({"lr": lr, **kw},)  # noqa: E731
    scripts = [
        # nothing to optimise at all
        ([{}, {}, {}], (), None),
        # one optimizer throughout, LR decays
        ([{"object": g(0.1)}, {"object": g(0.05)}, {"object": g(0.025)}], (), None),
        # probe optimizer appears late -> backfilled with zeros, then object disappears -> 0.0
        ([{"object": g(0.1)}, {"object": g(0.1)}, {"object": g(0.1), "probe": g(1e-3)},
          {"probe": g(5e-4)}, {"probe": g(5e-4), "dataset": g(2.0)}, {}, {"object": g(0.3)}], (), None),
        # several new keys in the same iteration; more than one param group (first one is recorded)
        ([{}, {}, {"object": ({"lr": 1.0}, {"lr": 9.0}), "probe": g(2.0), "dataset": g(3.0)}], (), None),
        # first ever iteration already has every optimizer
        ([{"object": g(1), "probe": g(2), "dataset": g(3)}], (), None),
        # resumed history: losses and LR lists already populated (as after from_file / clone)
        ([{"object": g(0.2), "probe": g(0.02)}, {"probe": g(0.01)}], (5.0, 4.0, 3.0),
         {"object": [0.4, 0.4, 0.4]}),
        # history key for something that is no longer optimised, integer LR values
        ([{"probe": g(1)}, {"probe": g(1)}], (5.0,), {"dataset": [0.25]}),
        # inconsistent (shorter) histories are extended the same way
        ([{"object": g(0.5)}], (1.0, 2.0, 3.0, 4.0), {"object": [0.5], "probe": []}),
        # failure half-way: a param group without "lr"
        ([{"object": g(0.1)}, {"object": ({"momentum": 0.9},)}, {"object": g(0.1)}], (), None),
        ([{"object": g(0.1)}, {"probe": ({"momentum": 0.9},)}, {"object": g(0.1)}], (), None),
        ([{"object": ()}], (), None),  # no param groups -> IndexError
    ]
    for script, losses, lrs in scripts:
        a = run_script(new, script, losses, lrs)
        b = run_script(orig_record_iter, script, losses, lrs)
        # (with several keys the set iteration order decides which lists were already extended
        # when an exception fires; both versions build the same set in this process, so the
        # partial histories must agree as well)
        assert a == b, (script, a, b)
    # randomised sequences
    rng = np.random.default_rng(0)
    keys = ["object", "probe", "dataset"]
    for _ in range(200):
        n = int(rng.integers(1, 9))
        script = []
        for _i in range(n):
            script.append({k: g(float(rng.random())) for k in keys if rng.random() < 0.6})
        pre = int(rng.integers(0, 4))
        losses = tuple(float(x) for x in rng.random(pre))
        lrs = {k: [float(x) for x in rng.random(pre)] for k in keys if rng.random() < 0.4}
        a = run_script(new, script, losses, lrs)
        b = run_script(orig_record_iter, script, losses, lrs)
        assert a == b
        # every history has one entry per iteration
        final_losses, final_lrs = [t for t in a if isinstance(t[0], list)][-1]
        for v in final_lrs.values():
            assert len(v) == len(final_losses)
    return len(scripts) + 200


# ---------------------------------------------------------------------------------------------
# part B: LR history through a multi-stage run with optimizers added and removed, checkpointed
# (zip / dir / clone) between the stages
# ---------------------------------------------------------------------------------------------
def staged_history(td):
    import copy as _copy

    stages = [
        dict(num_iters=2, reset=True,
             optimizer_params={"object": {"type": "adam", "lr": 1e-2}},
             scheduler_params={"object": {"type": "exp", "gamma": 0.5}}),
        dict(num_iters=2,
             optimizer_params={"object": {"type": "adam", "lr": 1e-2},
                               "probe": {"type": "sgd", "lr": 1e-3, "momentum": 0.5}}),
        dict(num_iters=1),
        dict(num_iters=2, optimizer_params={"probe": {"type": "none"}}),
    ]
    expected = [
        {"object": [1e-2, 5e-3]},
        {"object": [1e-2, 5e-3, 1e-2, 5e-3], "probe": [0.0, 0.0, 1e-3, 1e-3]},
        {"object": [1e-2, 5e-3, 1e-2, 5e-3, 2.5e-3], "probe": [0.0, 0.0, 1e-3, 1e-3, 1e-3]},
        {"object": [1e-2, 5e-3, 1e-2, 5e-3, 2.5e-3, 1e-2, 5e-3],
         "probe": [0.0, 0.0, 1e-3, 1e-3, 1e-3, 0.0, 0.0]},
    ]
    for shape in ((5, 9, (12, 14)),):
        runs = {"ref": make_ptycho(*shape)}
        for si, (stage, exp) in enumerate(zip(stages, expected)):
            for name, pt in runs.items():
                pt.reconstruct(batch_size=pt.dset.num_gpts, **_copy.deepcopy(stage))
            n_it = sum(s["num_iters"] for s in stages[: si + 1])
            for name, pt in runs.items():
                got = lrs_as_dict(pt)
                assert set(got) == set(exp), (name, si, set(got))
                for k in exp:
                    np.testing.assert_allclose(got[k], exp[k], rtol=1e-12, err_msg=f"{name} stage {si} {k}")
                assert pt.num_iters == n_it == len(pt.iter_losses)
                if name != "ref":
                    assert_same_report(runs["ref"], pt, f"{name}@stage{si}", rtol=1e-4, atol=1e-4)
                    assert_bound(pt, f"{name}@stage{si}")
            # checkpoint after this stage: every later stage is also run on the copies
            if si == len(stages) - 1:
                break
            ref = runs["ref"]
            store = ("zip", "dir")[si % 2]
            path = os.path.join(td, f"st{si}_{shape[0]}.zip" if store == "zip" else f"st{si}_{shape[0]}_dir")
            quiet(ref.save, path, store=store, save_raw_data=True)
            loaded = quiet(Ptychography.from_file, path)
            cloned = quiet(ref.clone)
            for nm, other in ((f"loaded{si}", loaded), (f"cloned{si}", cloned)):
                assert_same_report(ref, other, f"{nm} fresh")
                runs[nm] = other
            # keep the number of parallel runs bounded: drop the copies of the previous stage
            for nm in [n for n in runs if n.endswith(str(si - 1))]:
                del runs[nm]


def main():
    n = record_iter_equivalence()
    print(f"_record_iter old-vs-new: {n} scripted histories identical")
    with tempfile.TemporaryDirectory() as td:
        staged_history(td)
        print("staged LR history with checkpoints: ok")
        checkpoint_resume_case(
            td, "adam_sgd_adamw", 4, 2,
            {
                "object": {"type": "adam", "lr": 1e-2},
                "probe": {"type": "sgd", "lr": 1e-3, "momentum": 0.9},
                "dataset": {"type": "adamw", "lr": 1e-3},
            },
            {"object": {"type": "exp", "gamma": 0.9}, "probe": {"type": "linear", "total_iters": 3}},
            "zip",
        )
    print("PASS")


if __name__ == "__main__":
    main()
