"""C09 demo: mini-batch scheduling (exact partition, reported == yielded, seeded determinism).

Embeds verbatim copies of the ORIGINAL implementations of
  - quantem.diffractive_imaging.ptycho_utils.SimpleBatcher
  - quantem.core.utils.utils.subdivide_batches / generate_batches
  - quantem.core.utils.rng.RNGMixin._update_torch_rng
and asserts that the library versions behave bit-for-bit identically (values, dtypes,
exception types and messages, rng stream consumption) on a spread of schedules, and that the
property itself (partition / coverage / len == yielded / same seed -> same order) holds.

Invoke as:  PYTHONPATH=<root>/src /venv/bin/python demo.py
"""

import itertools
from math import ceil
from typing import Iterator, List, Literal, Optional, Tuple

import numpy as np
import torch

from quantem.core.utils.rng import RNGMixin
from quantem.core.utils.utils import generate_batches, subdivide_batches
from quantem.diffractive_imaging.ptycho_utils import SimpleBatcher


# --------------------------------------------------------------------------------------
# verbatim ORIGINAL copies
# --------------------------------------------------------------------------------------
class OrigSimpleBatcher:
    def __init__(
        self,
        num: int,
        batch_size: int | None,
        shuffle: bool = True,
        rng: np.random.Generator | int | None = None,
        val_ratio: float = 0.0,
        val_mode: Literal["grid", "random"] = "grid",
        train_indices: np.ndarray | None = None,
        val_indices: np.ndarray | None = None,
    ):
        self.indices = np.arange(num)
        self.batch_size = batch_size if batch_size is not None else num
        self.shuffle = shuffle
        self.rng = rng

        # Train/validation split (fixed for the lifetime of this batcher)
        if train_indices is not None or val_indices is not None:
            if train_indices is None or val_indices is None:
                raise ValueError("Both train_indices and val_indices must be provided together.")
            self.train_indices = np.asarray(train_indices, dtype=int)
            self.val_indices = np.asarray(val_indices, dtype=int)
        else:
            # Validate ratio and split deterministically given rng
            if val_ratio < 0 or val_ratio >= 1:
                val_ratio = 0.0
            n_val = int(round(len(self.indices) * val_ratio))
            if n_val > 0:
                if val_mode == "random":
                    # Random unique selection for validation
                    perm = self.rng.permutation(self.indices)
                    self.val_indices = perm[:n_val]
                    self.train_indices = np.setdiff1d(
                        self.indices, self.val_indices, assume_unique=False
                    )
                else:  # grid/regular selection: every k-th index
                    if val_ratio <= 0.5:
                        k = max(1, int(round(1.0 / val_ratio)))
                        invert = False
                    else:
                        k = max(1, int(round(1.0 / (1.0 - val_ratio))))
                        invert = True

                    grid_sel = self.indices[::k]
                    if len(grid_sel) > n_val:
                        grid_sel = grid_sel[:n_val]
                    if invert:
                        self.train_indices = grid_sel
                        self.val_indices = np.setdiff1d(
                            self.indices, grid_sel, assume_unique=False
                        )
                    else:
                        self.val_indices = grid_sel
                        self.train_indices = np.setdiff1d(
                            self.indices, self.val_indices, assume_unique=False
                        )
            else:
                self.val_indices = np.asarray([], dtype=int)
                self.train_indices = self.indices

    @property
    def rng(self) -> np.random.Generator:
        return self._rng

    @rng.setter
    def rng(self, rng: np.random.Generator | int | None):
        if rng is None:
            rng = np.random.default_rng()
        elif isinstance(rng, (int, float)):
            rng = np.random.default_rng(rng)
        elif not isinstance(rng, np.random.Generator):
            raise TypeError(f"rng should be a np.random.Generator or a seed, got {type(rng)}")
        self._rng = rng

    def __iter__(self):
        train_order = (
            self.rng.permutation(self.train_indices) if self.shuffle else self.train_indices
        )
        for i in range(0, len(train_order), self.batch_size):
            yield train_order[i : i + self.batch_size]

    def __len__(self):
        return int(ceil(len(self.train_indices) / self.batch_size))

    def iter_val(self):
        if len(self.val_indices) == 0:
            return iter(())

        # Do not shuffle validation by default
        def _gen():
            for i in range(0, len(self.val_indices), self.batch_size):
                yield self.val_indices[i : i + self.batch_size]

        return _gen()

    @property
    def has_validation(self) -> bool:
        return len(self.val_indices) > 0

    def val_len(self) -> int:
        return int(ceil(len(self.val_indices) / self.batch_size)) if self.has_validation else 0


def orig_subdivide_batches(
    num_items: int,
    num_batches: Optional[int] = None,
    max_batch: Optional[int] = None,
) -> List[int]:
    if num_batches is not None and max_batch is not None:
        raise RuntimeError("Specify only one of `num_batches` or `max_batch`.")

    if num_batches is None:
        if max_batch is None:
            raise RuntimeError("Must provide either `num_batches` or `max_batch`.")
        num_batches = (num_items + max_batch - 1) // max_batch

    if num_items < num_batches:
        raise ValueError("`num_batches` may not exceed `num_items`.")

    base_size = num_items // num_batches
    remainder = num_items % num_batches

    return [base_size + 1] * remainder + [base_size] * (num_batches - remainder)


def orig_generate_batches(
    num_items: int,
    num_batches: Optional[int] = None,
    max_batch: Optional[int] = None,
    start_index: int = 0,
) -> Iterator[Tuple[int, int]]:
    batch_sizes = orig_subdivide_batches(num_items, num_batches, max_batch)
    idx = start_index
    for size in batch_sizes:
        yield idx, idx + size
        idx += size


def orig_update_torch_rng(self):
    """Update the torch generator with current seed and device."""
    if self._rng_seed is None:
        self._rng_torch = torch.Generator(device=self._device)
    else:
        self._rng_torch = torch.Generator(device=self._device).manual_seed(
            self._rng_seed % 2**32
        )


# --------------------------------------------------------------------------------------
# helpers
# --------------------------------------------------------------------------------------
def freeze(v):
    """Turn a value into something comparable with ==, keeping dtype / type information."""
    if isinstance(v, np.ndarray):
        return ("nd", str(v.dtype), v.shape, v.tobytes())
    if isinstance(v, np.generic):
        return ("npscalar", str(v.dtype), v.item())
    if isinstance(v, (list, tuple)):
        return (type(v).__name__, tuple(freeze(x) for x in v))
    return (type(v).__name__, v)


def outcome(fn):
    try:
        return ("ok", freeze(fn()))
    except Exception as e:  # noqa: BLE001 - the exception itself is the compared outcome
        return ("exc", type(e).__name__, str(e))


def batcher_trace(cls, num, batch_size, shuffle, seed, val_ratio, val_mode, epochs=3, **kw):
    """Everything observable about a batcher over a few epochs, incl. the rng state after."""

    def run():
        b = cls(
            num,
            batch_size,
            shuffle=shuffle,
            rng=seed,
            val_ratio=val_ratio,
            val_mode=val_mode,
            **kw,
        )
        out = [b.indices, b.train_indices, b.val_indices, b.batch_size, b.has_validation]
        out.append(outcome(lambda: len(b)))
        out.append(outcome(b.val_len))
        for _ in range(epochs):
            out.append(outcome(lambda: [x for x in b]))
            out.append(outcome(lambda: [x for x in b.iter_val()]))
        # rng stream position after the schedule must agree as well
        out.append(b.rng.integers(0, 2**62, size=4))
        return out

    return outcome(run)


def check_property(num, batch_size, shuffle, seed, val_ratio, val_mode):
    """C09 itself, on the library SimpleBatcher (only for meaningful schedules)."""
    b = SimpleBatcher(
        num, batch_size, shuffle=shuffle, rng=seed, val_ratio=val_ratio, val_mode=val_mode
    )
    allidx = np.arange(num)
    tr, va = np.asarray(b.train_indices), np.asarray(b.val_indices)
    assert len(np.intersect1d(tr, va)) == 0, "train/val overlap"
    assert np.array_equal(np.sort(np.concatenate([tr, va])), allidx), "train+val != all"
    assert len(np.unique(tr)) == len(tr) and len(np.unique(va)) == len(va)
    if b.batch_size <= 0:
        return
    for _ in range(2):
        batches = list(b)
        assert len(batches) == len(b), "reported number of batches != yielded"
        seen = np.concatenate(batches) if batches else np.array([], dtype=int)
        assert np.array_equal(np.sort(seen), np.sort(tr)), "epoch is not an exact partition"
        assert all(len(x) == b.batch_size for x in batches[:-1])
        assert all(0 < len(x) <= b.batch_size for x in batches)
        vb = list(b.iter_val())
        assert len(vb) == b.val_len()
        vseen = np.concatenate(vb) if vb else np.array([], dtype=int)
        assert np.array_equal(vseen, va)


def main():
    n_cmp = 0

    # ---------------- SimpleBatcher: old == new, and the property ----------------
    nums = [0, 1, 2, 3, 4, 5, 7, 8, 9, 10, 12, 16, 17, 25, 36, 64, 100]
    ratios = [0.0, 0.05, 0.1, 0.2, 0.25, 0.3, 1 / 3, 0.5, 0.51, 0.6, 0.75, 0.9, 0.99,
              -0.1, 1.0, 1.5, float("nan")]
    for num in nums:
        bsizes = sorted({1, 2, 3, 5, 7, max(num, 1), num + 3, max(num // 2, 1)}) + [None]
        for bs, ratio, mode, shuffle in itertools.product(
            bsizes, ratios, ("grid", "random"), (True, False)
        ):
            for seed in (0, 12345):
                old = batcher_trace(OrigSimpleBatcher, num, bs, shuffle, seed, ratio, mode)
                new = batcher_trace(SimpleBatcher, num, bs, shuffle, seed, ratio, mode)
                assert old == new, (num, bs, ratio, mode, shuffle, seed)
                n_cmp += 1
            if num > 0 and ratio == ratio:
                check_property(num, bs, shuffle, 7, ratio, mode)

    # odd batch sizes / rng spellings / explicit splits: same outcome, same exceptions
    odd = [
        dict(num=6, batch_size=0),
        dict(num=6, batch_size=-2),
        dict(num=6, batch_size=2.0),
        dict(num=6, batch_size=4, rng_obj="gen"),
        dict(num=6, batch_size=4, rng_obj=3.0),
        dict(num=6, batch_size=4, rng_obj="bad"),
        dict(num=6, batch_size=4, rng_obj=None),
        dict(num=9, batch_size=4, kw=dict(train_indices=[5, 1, 3, 8], val_indices=[0, 2])),
        dict(num=9, batch_size=4, kw=dict(train_indices=np.array([4.0, 2.0]), val_indices=[])),
        dict(num=9, batch_size=4, kw=dict(train_indices=[1, 2])),
        dict(num=9, batch_size=4, kw=dict(val_indices=[1, 2])),
    ]
    for case in odd:
        for shuffle, mode, ratio in itertools.product((True, False), ("grid", "random"),
                                                      (0.0, 0.3, 0.7)):
            traces = []
            for cls in (OrigSimpleBatcher, SimpleBatcher):
                r = case.get("rng_obj", 11)
                if r == "gen":
                    r = np.random.default_rng(99)
                if r is None:
                    # unseeded: only compare the deterministic part (no shuffle)
                    if shuffle or mode == "random":
                        continue
                traces.append(
                    batcher_trace(cls, case["num"], case["batch_size"], shuffle, r, ratio, mode,
                                  **case.get("kw", {}))
                    if r is not None
                    else outcome(lambda: [x for x in cls(case["num"], case["batch_size"],
                                                         shuffle=False, rng=None,
                                                         val_ratio=ratio, val_mode=mode)])
                )
            if traces:
                assert traces[0] == traces[1], (case, shuffle, mode, ratio)
                n_cmp += 1

    # seeded determinism: same seed -> same schedule, also when the generator is shared
    for num, bs in [(10, 3), (37, 5), (64, 64), (64, 100)]:
        a = SimpleBatcher(num, bs, rng=2024, val_ratio=0.2, val_mode="random")
        b = SimpleBatcher(num, bs, rng=2024, val_ratio=0.2, val_mode="random")
        for _ in range(3):
            assert freeze(list(a)) == freeze(list(b))
        g1, g2 = np.random.default_rng(5), np.random.default_rng(5)
        a, b = SimpleBatcher(num, bs, rng=g1), OrigSimpleBatcher(num, bs, rng=g2)
        assert a.rng is g1
        for _ in range(3):
            assert freeze(list(a)) == freeze(list(b))
        assert g1.integers(0, 2**62) == g2.integers(0, 2**62)

    # a partially consumed epoch consumes the rng exactly once, lazily (generator semantics)
    for cls in (OrigSimpleBatcher, SimpleBatcher):
        g = np.random.default_rng(1)
        ref = np.random.default_rng(1)
        b = cls(12, 5, rng=g)
        it = iter(b)
        assert g.bit_generator.state == ref.bit_generator.state  # nothing drawn before next()
        first = next(it)
        expect = ref.permutation(np.arange(12))
        assert np.array_equal(first, expect[:5])
        assert g.bit_generator.state == ref.bit_generator.state

    # ---------------- subdivide_batches / generate_batches ----------------
    class Weird(int):
        """int subclass recording the order of // and % (evaluation order must not change)."""

        log: list = []

        def __floordiv__(self, o):
            Weird.log.append("//")
            return int(self) // int(o)

        def __mod__(self, o):
            Weird.log.append("%")
            return int(self) % int(o)

    vals = [None, -3, -1, 0, 1, 2, 3, 4, 5, 7, 8, 16, 31, 100]
    for n in [-2, 0, 1, 2, 3, 5, 7, 8, 9, 10, 16, 17, 31, 64, 100, 101]:
        for nb, mb in itertools.product(vals, vals):
            o = outcome(lambda: orig_subdivide_batches(n, nb, mb))
            w = outcome(lambda: subdivide_batches(n, nb, mb))
            assert o == w, (n, nb, mb, o, w)
            n_cmp += 1
            for start in (0, 3, -4):
                o = outcome(lambda: list(orig_generate_batches(n, nb, mb, start)))
                w = outcome(lambda: list(generate_batches(n, nb, mb, start)))
                assert o == w, (n, nb, mb, start, o, w)
            sane = (nb is None or nb > 0) and (mb is None or mb > 0)
            if o[0] == "ok" and n >= 0 and sane:
                got = list(generate_batches(n, nb, mb))
                # contiguous ranges that partition [0, n)
                assert [s for s, _ in got] == [0] + [e for _, e in got][:-1] or not got
                assert (got[-1][1] if got else 0) == n
                assert all(e > s for s, e in got) or n == 0
                if mb is not None:
                    assert all(e - s <= mb for s, e in got)
    # numpy integer / float inputs keep their result types
    for n, kw in [(np.int64(10), dict(max_batch=np.int64(3))), (np.int32(9), dict(num_batches=4)),
                  (10.0, dict(num_batches=4)), (10, dict(max_batch=3.0)),
                  (np.int64(12), dict(num_batches=np.int64(5)))]:
        assert outcome(lambda: orig_subdivide_batches(n, **kw)) == outcome(
            lambda: subdivide_batches(n, **kw)
        ), (n, kw)
        assert outcome(lambda: list(orig_generate_batches(n, **kw))) == outcome(
            lambda: list(generate_batches(n, **kw))
        ), (n, kw)
    Weird.log = []
    r1 = orig_subdivide_batches(Weird(11), num_batches=4)
    log1, Weird.log = Weird.log, []
    r2 = subdivide_batches(Weird(11), num_batches=4)
    assert r1 == r2 == [3, 3, 3, 2] and log1 == Weird.log == ["//", "%"], (log1, Weird.log)
    # laziness of generate_batches: argument errors surface on first next(), not at call time
    g = generate_batches(3, num_batches=5)
    try:
        next(g)
        raise AssertionError("expected ValueError")
    except ValueError:
        pass

    # ---------------- RNGMixin: torch generator seeding and reset ----------------
    class Holder(RNGMixin):
        pass

    class OrigHolder(RNGMixin):
        _update_torch_rng = orig_update_torch_rng

    seeds = [0, 1, 7, 42, 2**31 - 1, 2**31, 2**32 - 1, 2**32, 2**32 + 5, 2**40 + 123, 2**63 - 1,
             2**64 + 9, -1, -(2**32) - 3, True, 3.0, 2.0**33 + 4]
    for s in seeds:
        o = outcome(lambda: OrigHolder(rng=s)._rng_torch.initial_seed())
        w = outcome(lambda: Holder(rng=s)._rng_torch.initial_seed())
        assert o == w, (s, o, w)
        if o[0] != "ok":
            continue
        a, b = OrigHolder(rng=s), Holder(rng=s)
        assert type(a._rng_torch) is type(b._rng_torch) and a._rng_torch.device == b._rng_torch.device
        ra = [torch.rand(5, generator=a._rng_torch) for _ in range(2)]
        rb = [torch.rand(5, generator=b._rng_torch) for _ in range(2)]
        assert all(torch.equal(x, y) for x, y in zip(ra, rb))
        pa, pb = a.rng.permutation(20), b.rng.permutation(20)
        assert np.array_equal(pa, pb)
        # reset -> identical streams again (seeded determinism after reset_recon)
        a._reset_rng()
        b._reset_rng()
        assert torch.equal(torch.rand(5, generator=b._rng_torch), rb[0])
        assert torch.equal(torch.rand(5, generator=a._rng_torch), ra[0])
        assert np.array_equal(b.rng.permutation(20), pb)
        n_cmp += 1
    for src in (np.random.default_rng(77), torch.Generator().manual_seed(2**35 + 1)):
        mk = (lambda: np.random.default_rng(77)) if isinstance(src, np.random.Generator) else (
            lambda: torch.Generator().manual_seed(2**35 + 1))
        a, b = OrigHolder(rng=mk()), Holder(rng=mk())
        assert a._rng_seed == b._rng_seed
        assert a._rng_torch.initial_seed() == b._rng_torch.initial_seed()
        assert torch.equal(torch.randn(4, generator=a._rng_torch),
                           torch.randn(4, generator=b._rng_torch))
    u = Holder(rng=None)
    assert u._rng_seed is None and isinstance(u._rng_torch, torch.Generator)
    u._reset_rng()  # no-op for unseeded
    h = Holder(rng=2**33 + 1)
    h._rng_to_device("cpu")
    assert h._rng_torch.initial_seed() == (2**33 + 1) % 2**32

    print(f"C09 demo OK ({n_cmp} old/new comparisons)")


if __name__ == "__main__":
    main()
