"""Demo for property C08 (failed saves leave no loadable partial object; write-once never
overwrites; no save alters a path other than its target).

The script embeds VERBATIM copies of the ORIGINAL ``AutoSerialize.save`` and
``AutoSerialize._write_ndarray`` and runs every scenario twice: once with the embedded
originals ("orig") and once with whatever is in the source tree ("tree").  For each
scenario it compares, bit for bit,

  * the outcome (returned / exception type, message, identity with the injected exception,
    ``__context__``),
  * everything printed,
  * the ordered log of filesystem operations performed on the target (os.path.exists,
    os.path.isdir, os.remove, shutil.rmtree, os.makedirs) and of the zip assembly
    (ZipFile construction parameters, os.walk, every ZipFile.write with the compression
    type that was realised),
  * the complete state of the working directory afterwards (target and siblings), and
  * the object that ``load(target)`` returns (or the error it raises),

and it asserts property C08 itself on the "tree" run.  Failures are injected at every kind of
write operation (value, array, bytes, attribute, zip member, zip close, directory walk,
makedirs), with an ordinary exception and with KeyboardInterrupt, for both stores, both modes,
with and without a pre-existing target (valid earlier save, or an entry of the wrong kind).

Usage:  PYTHONPATH=<root>/src /venv/bin/python demo.py
"""

import contextlib
import gzip
import hashlib
import io
import os
import shutil
import sys
import tempfile
import zipfile
from pathlib import Path
from typing import Any, Literal, Sequence, Union
from zipfile import ZipFile

import numpy as np
import torch
import zarr
from zarr.core.attributes import Attributes
from zarr.storage import LocalStore

from quantem.core.io import serialize as ser
from quantem.core.io.serialize import AutoSerialize, load

# --------------------------------------------------------------------------------------
# Verbatim copies of the ORIGINAL functions (worktree HEAD)
# --------------------------------------------------------------------------------------


def _orig_write_ndarray(
    group: zarr.Group,
    name: str,
    array: np.ndarray,
    compressors=None,
) -> None:
    # Ensure array is a numpy array
    if not isinstance(array, np.ndarray):
        array = np.asarray(array)

    # Handle scalar arrays (0-dimensional) properly
    if array.ndim == 0:
        ds = group.create_array(
            name=name, shape=(), dtype=array.dtype, compressors=compressors
        )
        ds[()] = array.item()  # Use () for scalar indexing
    else:
        # Handle empty arrays (any dimension of size 0)
        if any(s == 0 for s in array.shape):
            # For empty arrays, create a 0-dimensional array instead of (0,)
            # This avoids indexing issues during loading
            ds = group.create_array(
                name=name, shape=(), dtype=array.dtype, compressors=compressors
            )
            # Store the original shape as an attribute for reconstruction
            ds.attrs["_original_shape"] = array.shape
            # No need to assign data since it's empty
            return
        # Ensure the shape is valid (no negative dimensions)
        if any(s < 0 for s in array.shape):
            raise ValueError(f"Invalid array shape {array.shape} for array '{name}'")
        ds = group.create_array(
            name=name, shape=array.shape, dtype=array.dtype, compressors=compressors
        )
        ds[:] = array


def _orig_save(
    self,
    path: str | Path,
    mode: Literal["w", "o"] = "w",
    store: Literal["auto", "zip", "dir"] = "auto",
    skip: Union[str, type, Sequence[Union[str, type]]] = (),
    compression_level: int | None = 4,
) -> None:
    # Validate compression level
    if compression_level is not None:
        if not (0 <= compression_level <= 9):
            raise ValueError(
                f"compression_level must be between 0 and 9, got {compression_level}"
            )
        compressors = [
            {
                "name": "blosc",
                "configuration": {
                    "cname": "zstd",
                    "clevel": int(compression_level),
                    "shuffle": "bitshuffle",
                },
            }
        ]
    else:
        compressors = None

    path = str(path)
    # Auto-infer storage format if needed
    if store == "auto":
        store = "zip" if path.endswith(".zip") else "dir"

    # Ensure .zip extension if requested
    if store == "zip" and not path.endswith(".zip"):
        print(f"Warning: appending .zip to path '{path}'")
        path += ".zip"

    # Handle overwrite vs. write protection
    if os.path.exists(path):
        if mode == "o":
            if os.path.isdir(path):
                shutil.rmtree(path)
            else:
                os.remove(path)
        else:
            raise FileExistsError(f"File '{path}' already exists. Use mode='o' to overwrite.")

    # Normalize skip argument (split to names and types)
    if isinstance(skip, (str, type)):
        skip = [skip]
    skip_names = {s for s in skip if isinstance(s, str)}
    skip_types = tuple(s for s in skip if isinstance(s, type))

    def write_skip_metadata(root):
        # Store skip info as attributes for correct deserialization
        root.attrs["_autoserialize_skip_names"] = list(skip_names)
        root.attrs["_autoserialize_skip_types"] = [
            f"{t.__module__}.{t.__qualname__}" for t in skip_types
        ]

    # Main branch: choose between zip and directory storage
    if store == "zip":
        # Always use tempdir for safe atomic write
        with tempfile.TemporaryDirectory() as tmpdir:
            store_obj = LocalStore(tmpdir)
            root = zarr.group(store=store_obj, overwrite=True)
            self._recursive_save(self, root, skip_names, skip_types, compressors)
            write_skip_metadata(root)
            # Zip up all files in tempdir
            try:
                with ZipFile(path, mode="w") as zf:
                    for dirpath, _, filenames in os.walk(tmpdir):
                        for filename in filenames:
                            full_path = os.path.join(dirpath, filename)
                            rel_path = os.path.relpath(full_path, tmpdir)
                            zf.write(full_path, arcname=rel_path)
            except BaseException:
                # Never leave a partial (but readable) archive behind
                if os.path.exists(path):
                    os.remove(path)
                raise
    elif store == "dir":
        # Directory mode requires no extension
        if os.path.splitext(path)[1]:
            raise ValueError(
                f"Expected a directory path for store='dir', but got file-like path '{path}'"
            )
        try:
            os.makedirs(path, exist_ok=True)
            store_obj = LocalStore(path)
            root = zarr.group(store=store_obj, overwrite=True)
            self._recursive_save(self, root, skip_names, skip_types, compressors)
            write_skip_metadata(root)
        except BaseException:
            # The target did not exist (or was removed above): never leave a partial,
            # but loadable, object behind when serialisation fails part-way
            shutil.rmtree(path, ignore_errors=True)
            raise
    else:
        raise ValueError(f"Unknown store type: {store}")


_TREE_SAVE = AutoSerialize.__dict__["save"]
_TREE_WRITE_NDARRAY = AutoSerialize.__dict__["_write_ndarray"]  # staticmethod object


@contextlib.contextmanager
def implementation(which: str):
    """Install the original or the tree implementation of the two functions under test."""
    if which == "orig":
        AutoSerialize.save = _orig_save
        AutoSerialize._write_ndarray = staticmethod(_orig_write_ndarray)
    try:
        yield
    finally:
        AutoSerialize.save = _TREE_SAVE
        AutoSerialize._write_ndarray = _TREE_WRITE_NDARRAY


# --------------------------------------------------------------------------------------
# Object graphs
# --------------------------------------------------------------------------------------


class Unpicklable:
    def __reduce__(self):
        raise RuntimeError("this attribute cannot be serialised")


class Child(AutoSerialize):
    def __init__(self, seed: int):
        rng = np.random.default_rng(seed)
        self.weights = rng.normal(size=(5, 4)).astype(np.float32)
        self.label = f"child-{seed}"


class Simple(AutoSerialize):
    def __init__(self):
        self.a = 3
        self.none = None
        self.image = np.arange(48, dtype=np.float64).reshape(6, 8) / 7.0
        self.empty = np.zeros((0, 3), dtype=np.int16)
        self.zero_d = np.array(4.25, dtype=np.float32)
        self.numbers = [1, 2, 3, 4]
        self.meta = {"k": 1, "arr": np.arange(5, dtype=np.uint8)}
        self.where = Path("some") / "where.txt"


class Nested(AutoSerialize):
    def __init__(self):
        self.first = 1
        self.child = Child(3)
        self.z = 1 + 2j  # dill fallback -> byte write
        self.children = [Child(1), {"n": 5, "ids": {"x", 2}}]
        self.t = torch.linspace(0, 1, 7)
        self.last = "end"


class Unser(AutoSerialize):
    def __init__(self):
        self.a = 1
        self.arr = np.arange(10.0)
        self.bad = Unpicklable()
        self.after = np.arange(4)
        self.tail = "never written"


class Empty(AutoSerialize):
    def __init__(self):
        pass


class Old(AutoSerialize):
    """The object of the *earlier successful* save that may pre-exist at the target."""

    def __init__(self):
        self.old_value = 42
        self.old_array = np.linspace(0, 1, 11)
        self.old_child = Child(9)


GRAPHS = {"simple": Simple, "nested": Nested, "unser": Unser, "empty": Empty}


def canon(v: Any) -> Any:
    if isinstance(v, np.ndarray):
        return ("nd", v.dtype.str, v.shape, v.tobytes())
    if isinstance(v, torch.Tensor):
        return ("t", str(v.dtype), tuple(v.shape), v.detach().numpy().tobytes())
    if AutoSerialize._is_autoserialize_instance(v):
        return ("obj", type(v).__qualname__, {k: canon(x) for k, x in sorted(v.__dict__.items())})
    if isinstance(v, dict):
        return ("dict", {str(k): canon(x) for k, x in v.items()})
    if isinstance(v, (list, tuple)):
        return (type(v).__name__, [canon(x) for x in v])
    if isinstance(v, (set, frozenset)):
        return ("set", sorted(repr(canon(x)) for x in v))
    if isinstance(v, Path):
        return ("path", str(v))
    return (type(v).__name__, repr(v))


# --------------------------------------------------------------------------------------
# Filesystem snapshots
# --------------------------------------------------------------------------------------


def zip_descriptor(p: str):
    try:
        with ZipFile(p, "r") as zf:
            return (
                "zip",
                tuple(
                    sorted(
                        (i.filename, i.compress_type, i.file_size, hashlib.sha256(zf.read(i)).hexdigest())
                        for i in zf.infolist()
                    )
                ),
            )
    except zipfile.BadZipFile:
        return None


def snapshot(root: str) -> dict:
    """relative path -> descriptor, for everything below root."""
    out = {}
    for dirpath, dirnames, filenames in os.walk(root):
        for d in dirnames:
            out[os.path.relpath(os.path.join(dirpath, d), root)] = ("dir",)
        for f in filenames:
            full = os.path.join(dirpath, f)
            desc = zip_descriptor(full) if f.endswith(".zip") else None
            if desc is None:
                with open(full, "rb") as fh:
                    desc = ("file", hashlib.sha256(fh.read()).hexdigest())
            out[os.path.relpath(full, root)] = desc
    return out


def split_snapshot(snap: dict, target_rel: str):
    inside = {k: v for k, v in snap.items() if k == target_rel or k.startswith(target_rel + os.sep)}
    outside = {k: v for k, v in snap.items() if k not in inside}
    return inside, outside


# --------------------------------------------------------------------------------------
# Tracing and fault injection
# --------------------------------------------------------------------------------------


class Boom(RuntimeError):
    pass


class CleanupError(PermissionError):
    pass


class Harness:
    """Patches the write operations; logs the target-related filesystem calls."""

    def __init__(self, root: str, inject=None, exc: BaseException | None = None):
        self.root = root
        self.inject = inject  # (kind, index) or None
        self.exc = exc
        self.log: list = []
        self.counts: dict = {}
        self.fired = 0
        self._undo: list = []

    # -- helpers
    def norm(self, p):
        if isinstance(p, (str, Path)):
            s = str(p)
            if s == self.root or s.startswith(self.root + os.sep):
                return "<R>" + s[len(self.root):]
            return "<TMP>"
        return repr(type(p))

    def inside(self, p) -> bool:
        return isinstance(p, str) and (p == self.root or p.startswith(self.root + os.sep))

    def hit(self, kind: str) -> bool:
        """Count one operation of this kind; raise if a failure is scheduled for it.

        ``inject`` is None, one (kind, index) pair, or a tuple of such pairs.  The first failure
        that fires raises ``self.exc``; a later one (a failing clean-up) raises CleanupError.
        """
        n = self.counts.get(kind, 0)
        self.counts[kind] = n + 1
        if self.inject is None:
            return False
        pairs = self.inject if isinstance(self.inject[0], tuple) else (self.inject,)
        if (kind, n) not in pairs:
            return False
        self.fired += 1
        if self.fired > 1:
            raise CleanupError(13, "injected clean-up failure")
        return True

    def patch(self, owner, name, new):
        old = owner.__dict__[name] if isinstance(owner, type) else getattr(owner, name)
        self._undo.append((owner, name, old))
        setattr(owner, name, new)

    def __enter__(self):
        h = self

        def logged(owner, name):
            real = getattr(owner, name)

            def wrapper(p, *a, **k):
                if h.inside(p):
                    h.log.append((name, h.norm(p), a, tuple(sorted(k.items()))))
                    if h.hit(name):
                        raise h.exc
                return real(p, *a, **k)

            h.patch(owner, name, wrapper)

        logged(os.path, "exists")
        logged(os.path, "isdir")
        logged(os, "remove")
        logged(shutil, "rmtree")
        logged(os, "makedirs")

        real_walk = os.walk

        def walk(top, *a, **k):
            h.log.append(("walk", h.norm(top)))
            if h.hit("walk"):
                raise h.exc
            return real_walk(top, *a, **k)

        h.patch(os, "walk", walk)

        real_sv = AutoSerialize.__dict__["_serialize_value"]

        def serialize_value(self_, value, group, name, *a, **k):
            if h.hit("value"):
                raise h.exc
            return real_sv(self_, value, group, name, *a, **k)

        h.patch(AutoSerialize, "_serialize_value", serialize_value)

        real_wa = AutoSerialize.__dict__["_write_ndarray"].__func__

        def write_ndarray(group, name, array, compressors=None):
            real_wa(group, name, array, compressors)
            if h.hit("array_after"):
                raise h.exc

        h.patch(AutoSerialize, "_write_ndarray", staticmethod(write_ndarray))

        real_wb = AutoSerialize.__dict__["_write_bytes"].__func__

        def write_bytes(group, name, data, compressors=None):
            real_wb(group, name, data, compressors)
            if h.hit("bytes_after"):
                raise h.exc

        h.patch(AutoSerialize, "_write_bytes", staticmethod(write_bytes))

        real_setitem = Attributes.__setitem__

        def setitem(self_, key, value):
            if key in ("_autoserialize", "_autoserialize_skip_names", "_autoserialize_skip_types"):
                if h.hit("attr:" + key):
                    raise h.exc
            return real_setitem(self_, key, value)

        h.patch(Attributes, "__setitem__", setitem)

        real_init = ZipFile.__init__

        def zinit(self_, file, *a, **k):
            if h.inside(file) and h.hit("zipopen"):
                raise h.exc
            real_init(self_, file, *a, **k)
            if h.inside(file):
                h.log.append(
                    (
                        "ZipFile",
                        h.norm(file),
                        self_.mode,
                        self_.compression,
                        self_.compresslevel,
                        self_._allowZip64,
                        self_._strict_timestamps,
                    )
                )

        h.patch(ZipFile, "__init__", zinit)

        real_zwrite = ZipFile.write

        def zwrite(self_, filename, arcname=None, *a, **k):
            real_zwrite(self_, filename, arcname, *a, **k)
            info = self_.infolist()[-1]
            h.log.append(("zf.write", h.norm(filename), arcname, info.filename, info.compress_type))
            if h.hit("zipwrite"):
                raise h.exc

        h.patch(ZipFile, "write", zwrite)

        real_zclose = ZipFile.close

        def zclose(self_):
            real_zclose(self_)
            if h.inside(getattr(self_, "filename", None)) and self_.mode != "r" and h.hit("zipclose"):
                raise h.exc

        h.patch(ZipFile, "close", zclose)

        # deterministic gzip header for the dill fallback, so that stores compare bit for bit
        real_compress = gzip.compress
        h.patch(gzip, "compress", lambda data, *a, **k: real_compress(data, mtime=0))
        return self

    def __exit__(self, *exc_info):
        for owner, name, old in reversed(self._undo):
            setattr(owner, name, old)
        return False


# --------------------------------------------------------------------------------------
# Scenario runner
# --------------------------------------------------------------------------------------

TEMPLATES: dict = {}
BASE: list = []  # the one TemporaryDirectory everything is written to


def build_templates(base: str) -> None:
    """An earlier, complete, successful save of Old (both stores), made with the original code."""
    with implementation("orig"), contextlib.redirect_stdout(io.StringIO()):
        old = Old()
        old.save(os.path.join(base, "old.zip"))
        old.save(os.path.join(base, "old_dir"))
        Child(5).save(os.path.join(base, "other.zip"))
        Child(6).save(os.path.join(base, "otherdir"))
    TEMPLATES["zip"] = os.path.join(base, "old.zip")
    TEMPLATES["dir"] = os.path.join(base, "old_dir")
    TEMPLATES["other.zip"] = os.path.join(base, "other.zip")
    TEMPLATES["otherdir"] = os.path.join(base, "otherdir")
    TEMPLATES["old_canon"] = try_load(TEMPLATES["zip"])[2]
    assert TEMPLATES["old_canon"] == try_load(TEMPLATES["dir"])[2] == canon(Old())


def prepare(work: str, target: str, store_kind: str, pre: str) -> None:
    os.makedirs(work)
    with open(os.path.join(work, "sibling.txt"), "w") as fh:
        fh.write("do not touch")
    shutil.copy(TEMPLATES["other.zip"], os.path.join(work, "other.zip"))
    shutil.copytree(TEMPLATES["otherdir"], os.path.join(work, "otherdir"))
    # a sibling whose name extends the target's name
    with open(target + ".bak", "w") as fh:
        fh.write("backup")
    if pre == "none":
        return
    if pre == "valid":
        if store_kind == "zip":
            shutil.copy(TEMPLATES["zip"], target)
        else:
            shutil.copytree(TEMPLATES["dir"], target)
    elif pre == "wrongkind":
        if store_kind == "zip":
            os.makedirs(target)
            with open(os.path.join(target, "junk.txt"), "w") as fh:
                fh.write("junk")
        else:
            with open(target, "wb") as fh:
                fh.write(b"plain file where a directory store is requested")
    else:
        raise AssertionError(pre)


def try_load(p: str):
    if not os.path.lexists(p):
        return ("absent",)
    scratch = tempfile.mkdtemp(prefix="load_", dir=BASE[0])
    try:
        # load from a copy: zarr.group() may write into a directory that is not a store
        copy = os.path.join(scratch, os.path.basename(p))
        if os.path.isdir(p):
            shutil.copytree(p, copy)
        else:
            shutil.copy(p, copy)
        try:
            with contextlib.redirect_stdout(io.StringIO()):
                obj = load(copy)
        except Exception as e:  # unreadable
            return ("unreadable", type(e).__name__)
        return ("loaded", sorted(obj.__dict__), canon(obj))
    finally:
        shutil.rmtree(scratch, ignore_errors=True)


def run_one(which, graph, store_kind, mode, pre, inject, exc_factory, call_kwargs=None, path_variant=None):
    """Run one save with one implementation inside a fresh root; return every observation."""
    root = tempfile.mkdtemp(prefix="c08_", dir=BASE[0])
    try:
        work = os.path.join(root, "work")
        target = os.path.join(work, "target.zip" if store_kind == "zip" else "target")
        prepare(work, target, store_kind, pre)
        before = snapshot(work)
        obj = GRAPHS[graph]()
        exc = exc_factory() if exc_factory is not None else None
        kwargs = dict(mode=mode, store=store_kind)
        given_path: Any = target
        if path_variant == "noext_zip":  # store='zip' and a path without extension
            given_path = target[: -len(".zip")]
        elif path_variant == "pathlib":
            given_path = Path(target)
        elif path_variant == "auto":
            kwargs["store"] = "auto"
        elif path_variant == "dir_with_ext":
            given_path = os.path.join(work, "sibling.txt")
            kwargs["store"] = "dir"
        elif path_variant == "bogus_store":
            kwargs["store"] = "bogus"
        if call_kwargs:
            kwargs.update(call_kwargs)
        out = io.StringIO()
        harness = Harness(root, inject, exc)
        with implementation(which), harness, contextlib.redirect_stdout(out):
            try:
                result = obj.save(given_path, **kwargs)
                outcome = ("returned", result)
            except BaseException as e:  # noqa: BLE001 - KeyboardInterrupt is injected on purpose
                outcome = (
                    "raised",
                    type(e).__name__,
                    str(e).replace(root, "<R>"),
                    e is exc,
                    type(e.__context__).__name__,
                    e.__suppress_context__,
                )
        after = snapshot(work)
        loaded = try_load(target)
        return {
            "outcome": outcome,
            "stdout": out.getvalue().replace(root, "<R>"),
            "log": harness.log,
            "counts": dict(harness.counts),
            "before": before,
            "after": after,
            "loaded": loaded,
            "expected_names": sorted(set(obj.__dict__) - _skipped_names(obj, kwargs.get("skip", ()))),
        }
    finally:
        shutil.rmtree(root, ignore_errors=True)


def _skipped_names(obj, skip):
    if isinstance(skip, (str, type)):
        skip = [skip]
    names = {s for s in skip if isinstance(s, str)}
    types = tuple(s for s in skip if isinstance(s, type))
    return names | {k for k, v in obj.__dict__.items() if isinstance(v, types)}


N_SCENARIOS = 0


def check(graph, store_kind, mode, pre, inject=None, exc_factory=None, call_kwargs=None,
          path_variant=None, assert_property=True):
    global N_SCENARIOS
    N_SCENARIOS += 1
    tag = (graph, store_kind, mode, pre, inject, exc_factory.__name__ if exc_factory else None,
           call_kwargs, path_variant)
    o = run_one("orig", graph, store_kind, mode, pre, inject, exc_factory, call_kwargs, path_variant)
    t = run_one("tree", graph, store_kind, mode, pre, inject, exc_factory, call_kwargs, path_variant)

    # ---- old == new, bit for bit
    for key in ("outcome", "stdout", "log", "counts", "before", "after", "loaded"):
        assert o[key] == t[key], f"{tag}: '{key}' differs\n orig={o[key]!r}\n tree={t[key]!r}"

    if not assert_property:
        return t

    # ---- property C08 on the tree implementation
    target_rel = "target.zip" if store_kind == "zip" else "target"
    b_in, b_out = split_snapshot(t["before"], target_rel)
    a_in, a_out = split_snapshot(t["after"], target_rel)
    assert a_out == b_out, f"{tag}: a path other than the target was altered"

    failed = t["outcome"][0] == "raised"
    if mode == "w" and pre != "none":
        assert t["outcome"][:2] == ("raised", "FileExistsError"), f"{tag}: {t['outcome']}"
        assert a_in == b_in, f"{tag}: write-once mode modified the existing target"
        assert not any(e[0] in ("remove", "rmtree", "makedirs", "ZipFile") for e in t["log"]), tag
    if failed:
        state = t["loaded"]
        if state[0] == "loaded":
            # only an untouched, complete, earlier object may still be loadable
            assert mode == "w" and pre == "valid", f"{tag}: partial object is loadable: {state[1]}"
            assert a_in == b_in, tag
            assert state[2] == TEMPLATES["old_canon"], f"{tag}: earlier object is no longer complete"
        else:
            assert state[0] in ("absent", "unreadable"), tag
            if not (mode == "w" and pre != "none"):
                assert state[0] == "absent" and not a_in, f"{tag}: debris left at the target: {a_in}"
    else:
        state = t["loaded"]
        assert state[0] == "loaded", f"{tag}: successful save is not loadable: {state}"
        assert state[1] == t["expected_names"], f"{tag}: {state[1]} != {t['expected_names']}"
    return t


def make_boom():
    return Boom("injected failure")


def make_interrupt():
    return KeyboardInterrupt()


def make_oserror():
    return PermissionError(13, "injected permission error")


def injection_points(graph, store_kind):
    """Injection points for one graph/store, measured on an uninjected original run."""
    base = run_one("orig", graph, store_kind, "w", "none", None, None)
    assert base["outcome"] == ("returned", None), base["outcome"]
    c = base["counts"]
    n, na, nb = c.get("value", 0), c.get("array_after", 0), c.get("bytes_after", 0)
    pts: list = [("value", k) for k in sorted({0, n // 2, n - 1}) if 0 <= k < n]
    pts += [("array_after", k) for k in sorted({na - 1}) if 0 <= k < na]
    pts += [("bytes_after", k) for k in sorted({0}) if 0 <= k < nb]
    pts += [("attr:_autoserialize", 0), ("attr:_autoserialize_skip_names", 0),
            ("attr:_autoserialize_skip_types", 0)]
    if store_kind == "zip":
        nz = c.get("zipwrite", 0)
        pts += [("zipopen", 0), ("walk", 0), ("zipclose", 0)]
        pts += [("zipwrite", k) for k in sorted({0, nz - 1}) if 0 <= k < nz]
    else:
        pts += [("makedirs", 0)]
    return pts


# --------------------------------------------------------------------------------------
# Direct old-vs-new comparison of _write_ndarray
# --------------------------------------------------------------------------------------


def compare_write_ndarray():
    blosc = [{"name": "blosc", "configuration": {"cname": "zstd", "clevel": 4, "shuffle": "bitshuffle"}}]
    rng = np.random.default_rng(0)
    big = rng.normal(size=(64, 33)).astype(np.float32)
    inputs = [
        np.float64(3.5), 5, True, 2.5, 1 + 2j, [1, 2, 3], [], [[]], (1.5, 2.5), [[1, 2], [3, 4]],
        np.array(7, dtype=np.int16), np.array(True), np.array(2.5 + 1j),
        np.zeros((0,)), np.zeros((3, 0)), np.zeros((0, 4, 2), dtype=np.int32), np.zeros((2, 0, 0), dtype=bool),
        np.zeros((1,)), np.zeros((1, 1, 1), dtype=np.uint8), np.arange(6).reshape(2, 3),
        np.arange(24, dtype=np.float32).reshape(2, 3, 4), big, big.T, np.asfortranarray(big), big[::3, 1::2],
        np.array([True, False]), np.arange(4) * (1 + 1j), np.arange(5, dtype=">i4"),
        np.ma.masked_array([1.0, 2.0, 3.0], mask=[0, 1, 0]), np.ma.masked_array(np.zeros((0, 2))),
        np.matrix([[1, 2], [3, 4]]), np.matrix(np.zeros((0, 3))),
        np.array(["a", "bc"]), np.array([1, "x", None], dtype=object), np.array(None, dtype=object),
        np.zeros((0,), dtype=object), torch.arange(4), torch.zeros((0, 2)), torch.tensor(3.0),
    ]
    n = 0
    for comp in (None, blosc):
        for value in inputs:
            obs = []
            for func in (_orig_write_ndarray, _TREE_WRITE_NDARRAY.__func__):
                d = tempfile.mkdtemp(prefix="c08_arr_", dir=BASE[0])
                try:
                    group = zarr.group(store=LocalStore(d), overwrite=True)
                    try:
                        import warnings

                        with warnings.catch_warnings():
                            warnings.simplefilter("ignore")
                            r = func(group, "x", value, comp)
                        res: Any = ("returned", r)
                    except Exception as e:
                        res = ("raised", type(e).__name__, str(e))
                    obs.append((res, snapshot(d)))
                finally:
                    shutil.rmtree(d, ignore_errors=True)
            assert obs[0] == obs[1], f"_write_ndarray differs for {value!r} / {comp}: {obs}"
            n += 1
    return n


# --------------------------------------------------------------------------------------


def main() -> int:
    with tempfile.TemporaryDirectory(prefix="c08_demo_") as base:
        BASE.append(base)
        os.makedirs(os.path.join(base, "templates"))
        build_templates(os.path.join(base, "templates"))

        n_arr = compare_write_ndarray()

        for store_kind in ("zip", "dir"):
            simple_pts = injection_points("simple", store_kind)
            nested_pts = injection_points("nested", store_kind)
            late = ("zipwrite", 1) if store_kind == "zip" else ("attr:_autoserialize_skip_types", 0)

            # ---- no pre-existing target: every graph, every injection point
            for graph in GRAPHS:
                check(graph, store_kind, "w", "none")
            check("unser", store_kind, "o", "none")
            for inject in simple_pts:
                check("simple", store_kind, "w", "none", inject, make_boom)
            for i, inject in enumerate(nested_pts):
                check("nested", store_kind, "o" if i % 2 else "w", "none", inject, make_boom)

            # ---- pre-existing target (valid earlier save / entry of the wrong kind)
            for pre in ("valid", "wrongkind"):
                # write-once: refused before any write, whatever would have failed later
                check("simple", store_kind, "w", pre)
                check("unser", store_kind, "w", pre)
                check("nested", store_kind, "w", pre, nested_pts[0], make_boom)
                # overwrite
                check("nested", store_kind, "o", pre)
                check("unser", store_kind, "o", pre)
                for inject in simple_pts[(0 if pre == "valid" else 1)::3]:
                    check("simple", store_kind, "o", pre, inject, make_boom)

            # ---- other exception classes (a BaseException that is not an Exception; an OSError)
            for mode, pre, inject in (("w", "none", simple_pts[1]), ("w", "none", late),
                                      ("o", "valid", simple_pts[-1]), ("o", "wrongkind", late),
                                      ("w", "valid", simple_pts[0])):
                check("simple", store_kind, mode, pre, inject, make_interrupt)
            check("simple", store_kind, "w", "none", late, make_oserror)
            check("nested", store_kind, "o", "valid", nested_pts[2], make_oserror)

            # ---- failures of the existence probe and of the overwrite step itself
            for pre in ("valid", "wrongkind"):
                for inject in (("exists", 0), ("isdir", 0), ("remove", 0), ("rmtree", 0)):
                    check("empty", store_kind, "o", pre, inject, make_oserror, assert_property=False)
            # ---- failure of the clean-up itself (second exists / remove / rmtree) after a first failure
            first = ("zipwrite", 1) if store_kind == "zip" else ("value", 3)
            for second in ((("exists", 1), ("remove", 0)) if store_kind == "zip" else (("rmtree", 0),)):
                for factory in (make_boom, make_interrupt):
                    check("simple", store_kind, "w", "none", (first, second), factory, assert_property=False)

            # ---- argument variants
            check("simple", store_kind, "w", "none", path_variant="pathlib")
            check("simple", store_kind, "o", "valid", path_variant="auto")
            check("simple", store_kind, "w", "wrongkind", path_variant="auto")
            check("simple", store_kind, "w", "none", late, make_boom, path_variant="auto")
            for mode, pre in (("w", "none"), ("o", "valid"), ("w", "valid")):
                check("empty", store_kind, mode, pre, path_variant="bogus_store", assert_property=False)
                check("empty", store_kind, mode, pre, call_kwargs={"compression_level": 11},
                      assert_property=False)
            if store_kind == "zip":
                check("simple", "zip", "w", "none", path_variant="noext_zip")
                check("simple", "zip", "w", "valid", path_variant="noext_zip")
                check("simple", "zip", "o", "valid", ("zipwrite", 2), make_boom, path_variant="noext_zip")
            else:
                for mode in ("w", "o"):
                    check("empty", "dir", mode, "none", path_variant="dir_with_ext", assert_property=False)
            for kw in ({"compression_level": None}, {"compression_level": 0},
                       {"skip": ["a", np.ndarray]}, {"skip": Path}):
                check("simple", store_kind, "w", "none", call_kwargs=kw)
            check("nested", store_kind, "o", "valid", ("attr:_autoserialize_skip_types", 0), make_boom,
                  call_kwargs={"skip": ("first", torch.Tensor)})
            check("nested", store_kind, "w", "none", call_kwargs={"skip": "z"})

    print(f"C08 demo OK: {N_SCENARIOS} save scenarios and {n_arr} _write_ndarray inputs, "
          f"original == tree, property holds")
    return 0


if __name__ == "__main__":
    sys.exit(main())
