"""Demo for C18 / patch 3: ptycho_utils.fit_origin (curve_fit based origin background fit).

Checks (on whatever tree is on PYTHONPATH):
 * fitting a plane / parabola / constant to origins lying exactly on such a surface returns
   that surface (row component from data[0], column component from data[1]),
 * the result is bit-identical to a verbatim copy of the ORIGINAL fit_origin for every fit
   function, with and without robust fitting, with noise and outliers,
 * PtychographyDatasetRaster._set_intensities_com (vectorised and looped) feeds it correctly:
   com_fit reproduces planted planar CoM positions, and agrees with the torch PCA plane fit of
   CenterOfMassOriginModel.fit_origin_background,
 * exception behaviour for unsupported inputs (no mask, partial mask, unknown function) is
   unchanged.
"""

import warnings

import numpy as np
import torch
from scipy.optimize import curve_fit

from quantem.core.datastructures import Dataset
from quantem.diffractive_imaging import ptycho_utils
from quantem.diffractive_imaging.dataset_models import PtychographyDatasetRaster
from quantem.diffractive_imaging.origin_models import CenterOfMassOriginModel
from quantem.diffractive_imaging.ptycho_utils import (
    _bezier_two,
    _parabola,
    _plane,
    fit_origin,
    perform_robust_fitting,
)


# --- verbatim copy of the original function (HEAD of the worktree) -----------------------
def original_fit_origin(
    data,
    mask=None,
    fit_function="plane",
    robust=False,
    robust_steps=3,
    robust_thresh=2,
):
    """Fits the origin of diffraction space using the specified method."""

    qr0_meas, qc0_meas = data

    if fit_function == "plane":
        f = _plane
    elif fit_function == "parabola":
        f = _parabola
    elif fit_function == "bezier_two":
        f = _bezier_two
    elif fit_function == "constant":
        qr0_fit = np.mean(qr0_meas) * np.ones_like(qr0_meas)
        qc0_fit = np.mean(qc0_meas) * np.ones_like(qc0_meas)
        qr0_residuals = qr0_meas - qr0_fit
        qc0_residuals = qc0_meas - qc0_fit
        return qr0_fit, qc0_fit, qr0_residuals, qc0_residuals
    else:
        raise ValueError(
            "fit_function must be one of 'plane', 'parabola', 'bezier_two', 'constant'"
        )
    shape = qr0_meas.shape
    r, c = np.indices(shape)
    r1D = r.reshape(1, np.prod(shape))
    c1D = c.reshape(1, np.prod(shape))
    rc = np.vstack((r1D, c1D))

    if mask is not None:
        qr0_meas_masked = qr0_meas[mask]
        qc0_meas_masked = qc0_meas[mask]
        mask1D = mask.reshape(1, np.prod(shape))
        rc_masked = np.vstack((r1D * mask1D, c1D * mask1D))

        popt_r, _ = curve_fit(f, rc_masked, qr0_meas_masked)
        popt_c, _ = curve_fit(f, rc_masked, qc0_meas_masked)

        if robust:
            popt_r = perform_robust_fitting(
                f, rc_masked, qr0_meas_masked, popt_r, robust_steps, robust_thresh
            )
            popt_c = perform_robust_fitting(
                f, rc_masked, qc0_meas_masked, popt_c, robust_steps, robust_thresh
            )
    else:
        popt_r, _ = curve_fit(f, rc, qr0_meas)
        popt_c, _ = curve_fit(f, rc, qc0_meas)

        if robust:
            popt_r = perform_robust_fitting(f, rc, qr0_meas, popt_r, robust_steps, robust_thresh)
            popt_c = perform_robust_fitting(f, rc, qc0_meas, popt_c, robust_steps, robust_thresh)

    qr0_fit = f(rc, *popt_r).reshape(shape)
    qc0_fit = f(rc, *popt_c).reshape(shape)
    qr0_residuals = qr0_meas - qr0_fit
    qc0_residuals = qc0_meas - qc0_fit

    return qr0_fit, qc0_fit, qr0_residuals, qc0_residuals


# -----------------------------------------------------------------------------------------


def identical(t_new, t_old):
    assert len(t_new) == len(t_old) == 4
    for x, y in zip(t_new, t_old):
        assert x.shape == y.shape and x.dtype == y.dtype
        assert np.array_equal(x, y, equal_nan=True)


def run_both(data, **kw):
    """Run new and original on private copies of the inputs; return (new, old) or exc types."""
    outs = []
    for fn in (fit_origin, original_fit_origin):
        d = tuple(np.array(x, copy=True) for x in data)
        k = dict(kw)
        if k.get("mask") is not None:
            k["mask"] = np.array(k["mask"], copy=True)
        try:
            with warnings.catch_warnings():
                warnings.simplefilter("ignore")
                outs.append(fn(data=d, **k))
        except Exception as e:  # noqa: BLE001
            outs.append(type(e))
        # inputs never modified
        for x, y in zip(d, data):
            assert np.array_equal(x, y, equal_nan=True)
    return outs


def check_exact_surfaces(rng, shape):
    r, c = np.indices(shape).astype(np.float64)
    full = np.ones(shape, dtype=bool)

    # plane
    for (mr, nr, br), (mc, nc, bc) in (
        ((0.25, -0.5, 7.0), (-0.125, 0.75, 3.5)),
        ((0.0, 0.0, 4.0), (1.0, 2.0, -3.0)),
        (tuple(rng.normal(size=3)), tuple(rng.normal(size=3))),
    ):
        qr = mr * r + nr * c + br
        qc = mc * r + nc * c + bc
        new, old = run_both((qr, qc), mask=full, fit_function="plane")
        identical(new, old)
        np.testing.assert_allclose(new[0], qr, rtol=0, atol=1e-6)
        np.testing.assert_allclose(new[1], qc, rtol=0, atol=1e-6)
        np.testing.assert_allclose(new[2], 0, atol=1e-6)
        np.testing.assert_allclose(new[3], 0, atol=1e-6)
        # a plane is also a parabola
        new, old = run_both((qr, qc), mask=full, fit_function="parabola")
        identical(new, old)
        np.testing.assert_allclose(new[0], qr, rtol=0, atol=1e-5)
        np.testing.assert_allclose(new[1], qc, rtol=0, atol=1e-5)

    # parabola
    qr = 2.0 + 0.3 * r - 0.2 * c + 0.05 * r**2 - 0.03 * c**2 + 0.02 * r * c
    qc = -1.0 - 0.1 * r + 0.4 * c - 0.04 * r**2 + 0.06 * c**2 - 0.01 * r * c
    new, old = run_both((qr, qc), mask=full, fit_function="parabola")
    identical(new, old)
    np.testing.assert_allclose(new[0], qr, rtol=0, atol=1e-5)
    np.testing.assert_allclose(new[1], qc, rtol=0, atol=1e-5)

    # constant (with and without mask: the mask is ignored by this branch)
    qr = np.full(shape, 3.25)
    qc = np.full(shape, -1.5)
    for m in (full, None):
        new, old = run_both((qr, qc), mask=m, fit_function="constant")
        identical(new, old)
        assert np.array_equal(new[0], qr) and np.array_equal(new[1], qc)
    noisy = (qr + rng.normal(size=shape), qc + rng.normal(size=shape))
    new, old = run_both(noisy, mask=full, fit_function="constant")
    identical(new, old)
    np.testing.assert_allclose(new[0], noisy[0].mean(), rtol=0, atol=1e-12)
    np.testing.assert_allclose(new[1], noisy[1].mean(), rtol=0, atol=1e-12)


def check_noisy_and_robust(rng, shape):
    r, c = np.indices(shape).astype(np.float64)
    full = np.ones(shape, dtype=bool)
    qr = 0.3 * r - 0.2 * c + 5 + 0.05 * rng.normal(size=shape)
    qc = -0.1 * r + 0.4 * c + 2 + 0.05 * rng.normal(size=shape)
    # a few outliers
    for _ in range(3):
        i, j = rng.integers(shape[0]), rng.integers(shape[1])
        qr[i, j] += 4.0
        qc[i, j] -= 3.0
    for fn in ("plane", "parabola", "bezier_two"):
        for robust in (False, True):
            for steps, thresh in ((3, 2), (1, 1.5)):
                out = run_both(
                    (qr, qc),
                    mask=full,
                    fit_function=fn,
                    robust=robust,
                    robust_steps=steps,
                    robust_thresh=thresh,
                )
                if isinstance(out[0], type) or isinstance(out[1], type):
                    assert out[0] is out[1], (fn, robust, out)
                else:
                    identical(*out)
    # float32 inputs (what _set_intensities_com can produce) behave identically as well
    out = run_both((qr.astype(np.float32), qc.astype(np.float32)), mask=full, fit_function="plane")
    identical(*out)


def check_unsupported_inputs(rng):
    shape = (4, 5)
    r, c = np.indices(shape).astype(np.float64)
    qr, qc = 0.5 * r + 1, 0.25 * c + 2
    partial = np.ones(shape, dtype=bool)
    partial[1, 2] = False
    cases = [
        dict(mask=None, fit_function="plane"),
        dict(mask=None, fit_function="plane", robust=True),
        dict(mask=partial, fit_function="plane"),
        dict(mask=partial, fit_function="parabola", robust=True),
        dict(mask=np.ones((5, 4), dtype=bool), fit_function="plane"),
        dict(mask=np.ones(shape, dtype=bool), fit_function="spline"),
        dict(mask=None, fit_function="spline"),
    ]
    for kw in cases:
        new, old = run_both((qr, qc), **kw)
        if isinstance(new, type) or isinstance(old, type):
            assert new is old, (kw, new, old)
        else:
            identical(new, old)
    # 1-D and 3-D data are rejected the same way
    for bad in (np.arange(5.0), np.zeros((2, 3, 4))):
        new, old = run_both((bad, bad), mask=np.ones(bad.shape, bool), fit_function="plane")
        assert isinstance(new, type) and new is old


def check_dataset_model(rng):
    """Planted planar CoMs through PtychographyDatasetRaster._set_intensities_com."""
    sr, sc, qr_n, qc_n = 3, 4, 9, 15
    a = np.zeros((sr, sc, qr_n, qc_n), dtype=np.float32)
    exp_r = np.empty((sr, sc))
    exp_c = np.empty((sr, sc))
    for i in range(sr):
        for j in range(sc):
            rr, cc = 1 + 2 * i + j, 2 + i + 3 * j  # exact integer plane, row != col
            a[i, j, rr, cc] = 3.0
            exp_r[i, j], exp_c[i, j] = rr, cc

    orig = ptycho_utils.fit_origin
    results = {}
    for vectorised in (True, False):
        for which in ("new", "old"):
            pd = PtychographyDatasetRaster.from_array(
                a.copy(), units=["A", "A", "A^-1", "A^-1"], verbose=0
            )
            import quantem.diffractive_imaging.dataset_models as dm

            saved = dm.fit_origin
            dm.fit_origin = fit_origin if which == "new" else original_fit_origin
            try:
                for fn in ("plane", "constant", "parabola"):
                    pd._set_intensities_com(
                        pd.intensities_4d, fit_function=fn, vectorized_calculation=vectorised
                    )
                    results[(vectorised, which, fn)] = (
                        np.array(pd.com_measured),
                        np.array(pd.com_fit),
                    )
            finally:
                dm.fit_origin = saved
    assert ptycho_utils.fit_origin is orig

    for vectorised in (True, False):
        for fn in ("plane", "constant", "parabola"):
            mn, fn_new = results[(vectorised, "new", fn)]
            mo, fn_old = results[(vectorised, "old", fn)]
            assert np.array_equal(mn, mo) and np.array_equal(fn_new, fn_old)
            np.testing.assert_allclose(mn[0], exp_r, rtol=0, atol=1e-5)
            np.testing.assert_allclose(mn[1], exp_c, rtol=0, atol=1e-5)
            if fn in ("plane", "parabola"):
                np.testing.assert_allclose(fn_new[0], exp_r, rtol=0, atol=1e-4)
                np.testing.assert_allclose(fn_new[1], exp_c, rtol=0, atol=1e-4)
            else:
                np.testing.assert_allclose(fn_new[0], exp_r.mean(), rtol=0, atol=1e-5)
                np.testing.assert_allclose(fn_new[1], exp_c.mean(), rtol=0, atol=1e-5)
    # vectorised and looped paths agree
    for fn in ("plane", "constant", "parabola"):
        np.testing.assert_allclose(
            results[(True, "new", fn)][1], results[(False, "new", fn)][1], rtol=0, atol=1e-5
        )

    # the torch origin model agrees (PCA plane fit / constant fit)
    for fit_method in ("plane", "constant"):
        m = CenterOfMassOriginModel.from_dataset(Dataset.from_array(a.copy()))
        m.calculate_origin(5).fit_origin_background(fit_method=fit_method)
        fitted = m.origin_fitted.numpy().reshape(sr, sc, 2)
        ref = results[(True, "new", fit_method)][1]
        np.testing.assert_allclose(fitted[..., 0], ref[0], rtol=0, atol=1e-3)
        np.testing.assert_allclose(fitted[..., 1], ref[1], rtol=0, atol=1e-3)


def main():
    warnings.simplefilter("ignore")  # scipy OptimizeWarning on exactly-determined fits
    torch.manual_seed(0)
    rng = np.random.default_rng(77)
    for shape in ((4, 7), (9, 3), (5, 5), (2, 11), (12, 2)):
        check_exact_surfaces(rng, shape)
    for shape in ((6, 9), (10, 4)):
        check_noisy_and_robust(rng, shape)
    check_unsupported_inputs(rng)
    check_dataset_model(rng)
    print("PASS")


if __name__ == "__main__":
    main()
