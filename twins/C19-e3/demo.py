"""C19 / change 3: device validation. ``check_key_val`` uses early returns instead of a
nested if/else and ``validate_device`` lower-cases the requested string once and handles
the plain 'mps' / 'cpu' spellings in one branch.

Checks
 1. the configuration store is a last-writer-wins nested map and rejected devices leave
    the stored device unchanged (random histories on the live global store compared with
    a flat dictionary reference model);
 2. ``check_key_val`` / ``validate_device`` of the installed tree give exactly the results
    of verbatim copies of the ORIGINAL functions (same return values and types, same
    exception types and messages, same calls of torch.cuda.set_device) for strings in any
    case, indices, torch.device objects, None and unsupported types, on this machine as
    it is AND with simulated accelerators (2 CUDA devices / MPS) so that the accepting
    branches are exercised on a CPU-only host;
 3. with the simulated accelerators: available devices are stored in normalised form,
    out-of-range or malformed requests are rejected and leave the stored device unchanged.
"""

import copy
import os
import random
import tempfile
import warnings

import torch

_tmp = tempfile.TemporaryDirectory()
os.environ["QUANTEM_CONFIG"] = _tmp.name  # no user configuration is picked up

from quantem.core import config as cfg  # noqa: E402

# --------------------------------------------------------------------------------------
# verbatim copies of the original functions (docstrings dropped), executed in a copy of
# the module namespace so that the old check_key_val calls the old validate_device
# --------------------------------------------------------------------------------------
ORIGINAL = '''
def check_key_val(key: str, val: Any, deprecations: dict = deprecations) -> tuple[str, Any]:
    if key in deprecations:
        new = deprecations[key]
        if new:
            warnings.warn(
                'Configuration key "{}" has been deprecated. Please use "{}" instead'.format(
                    key, new
                )
            )
        else:
            raise ValueError(f'Configuration value "{key}" has been removed')

    new_val = val
    if key in aliases:
        val_aliases = aliases[key]
        if val in val_aliases:
            new_val = val_aliases[val]

    if key == "device":
        if "cpu" in str(new_val):
            new_val = "cpu"
        else:
            new_val, gpu_id = validate_device(new_val)
            if "cuda" in new_val:
                torch.cuda.set_device(gpu_id)
                if config["has_cupy"]:
                    cp.cuda.runtime.setDevice(gpu_id)
    return key, new_val


def validate_device(dev: str | int | torch.device | None = None) -> tuple[str, int]:
    if dev is None:
        dev = torch.device(
            "cuda" if torch.cuda.is_available() else "mps" if torch.mps.is_available() else "cpu"
        )
    elif isinstance(dev, str):
        if "cuda" in dev.lower():
            dev = torch.device(dev)
        elif "gpu" in dev.lower():
            if torch.cuda.is_available():
                dev = torch.device("cuda")
            elif torch.mps.is_available():
                dev = torch.device("mps")
            else:
                raise RuntimeError("gpu requested but cuda and mps are not available.")
        elif dev.lower() == "mps":
            dev = torch.device("mps")
        elif dev.lower() == "cpu":
            dev = torch.device("cpu")
        else:
            raise ValueError(
                f"Requested unknown device type: {dev} (must be 'cuda', 'mps', or 'cpu')"
            )
    elif isinstance(dev, int):
        if dev < 0:
            raise ValueError(f"Requested negative GPU index: {dev} (must be >= 0)")
        if torch.cuda.is_available():
            dev = torch.device(f"cuda:{dev}")
        else:
            raise RuntimeError(f"Requested GPU index '{dev}' device, but cuda is not available.")
    elif not isinstance(dev, torch.device):
        raise TypeError(f"Unsupported device type: {type(dev)} ({dev})")

    if dev.type == "cuda":
        if not torch.cuda.is_available():
            raise RuntimeError("CUDA device requested but not available.")
        index = dev.index if dev.index is not None else torch.cuda.current_device()
        if index >= NUM_DEVICES:
            raise RuntimeError(
                f"CUDA device index {index} is out of range for {NUM_DEVICES} available devices."
            )
        return f"cuda:{index}", index

    elif dev.type == "mps":
        if not torch.mps.is_available():
            raise RuntimeError("MPS device requested but not available.")
        return "mps", 0

    elif dev.type == "cpu":
        return "cpu", -1

    else:
        raise ValueError(f"Unsupported torch device type: {dev.type}")
'''
_ns = dict(vars(cfg))
exec(ORIGINAL, _ns)
old_check_key_val, old_validate_device = _ns["check_key_val"], _ns["validate_device"]


# --------------------------------------------------------------------------------------
# helpers
# --------------------------------------------------------------------------------------
def canon(path):
    return tuple(p.replace("-", "_") for p in path)


def flatten(d, prefix=()):
    out = {}
    for k, v in d.items():
        if isinstance(v, dict):
            out.update(flatten(v, prefix + (k,)))
        else:
            p = canon(prefix + (k,))
            assert p not in out, f"two spellings of {p} stored side by side"
            out[p] = v
    return out


def outcome(fn):
    try:
        return ("ok", fn())
    except Exception as e:  # noqa: BLE001
        return ("exc", type(e).__name__, str(e))


# --------------------------------------------------------------------------------------
# parts 2 and 3: old functions == new functions, also with simulated accelerators
# --------------------------------------------------------------------------------------
class StrSub(str):
    pass


DEVICES = [
    "cpu", "CPU", "Cpu", "cpu:0", " cpu", StrSub("cpu"), StrSub("MPS"),
    "mps", "MPS", "Mps", "mps:0",
    "gpu", "GPU", "my-gpu", "gpu:1",
    "cuda", "CUDA", "cuda:0", "cuda:1", "cuda:2", "cuda:99", "CUDA:1", "Cuda:0", "cuda:x", "cuda:-1",
    "xcuda", "cuda gpu", "gpu cpu", "mps cpu",
    "tpu", "quantum", "", "meta", "xla",
    0, 1, 2, 99, -1, -7, True, False,
    None, 1.5, 2.0, [], ("cuda", 0), b"cpu", {"cuda": 0},
    torch.device("cpu"), torch.device("cuda"), torch.device("cuda:0"), torch.device("cuda:1"),
    torch.device("cuda:5"), torch.device("mps"), torch.device("meta"),
]
OTHER = [
    ("dtype_real", "float32"), ("Device", "tpu"), ("device ", "tpu"), ("viz.device", "tpu"),
    ("devices", -1), ("verbose", 1), ("x", None), ("y", [1, 2]), ("z", {"device": "tpu"}),
    ("old_key", 1), ("gone", 1), ("aliased", "short"), ("aliased", "other"), ("aliased", [1]),
    ("device", "fast"), ("device", "slow"),
]


class Simulated:
    """pretend the host has n_cuda CUDA devices and/or MPS; record set_device calls"""

    def __init__(self, n_cuda, mps, current=0):
        self.n_cuda, self.mps, self.current = n_cuda, mps, current
        self.calls = []

    def __enter__(self):
        self.saved = (
            torch.cuda.is_available, torch.cuda.set_device, torch.cuda.current_device,
            torch.mps.is_available, cfg.NUM_DEVICES, _ns["NUM_DEVICES"],
        )
        torch.cuda.is_available = lambda: self.n_cuda > 0
        torch.cuda.set_device = lambda i: self.calls.append(i)
        torch.cuda.current_device = lambda: self.current
        torch.mps.is_available = lambda: self.mps
        cfg.NUM_DEVICES = _ns["NUM_DEVICES"] = self.n_cuda
        return self

    def __exit__(self, *exc):
        (torch.cuda.is_available, torch.cuda.set_device, torch.cuda.current_device,
         torch.mps.is_available, cfg.NUM_DEVICES, _ns["NUM_DEVICES"]) = self.saved


def typed(x):
    if isinstance(x, tuple):
        return tuple(typed(i) for i in x)
    return (type(x).__name__, x)


def outcome_w(fn):
    """result (with types) or exception, plus the warnings that were emitted"""
    with warnings.catch_warnings(record=True) as w:
        warnings.simplefilter("always")
        try:
            r = ("ok", typed(fn()))
        except Exception as e:  # noqa: BLE001
            r = ("exc", type(e).__name__, str(e))
    return r, [(x.category.__name__, str(x.message)) for x in w]


def compare_functions(sim=None):
    n = 0
    calls = sim.calls if sim is not None else []
    for dev in DEVICES:
        a = outcome_w(lambda: old_validate_device(dev))
        b = outcome_w(lambda: cfg.validate_device(dev))
        assert a == b, (dev, a, b)
        del calls[:]
        a = outcome_w(lambda: old_check_key_val("device", dev))
        calls_old = list(calls)
        del calls[:]
        b = outcome_w(lambda: cfg.check_key_val("device", dev))
        assert a == b, (dev, a, b)
        assert calls_old == list(calls), (dev, calls_old, calls)
        if a[0][0] == "ok" and str(a[0][1][1][1]).startswith("cuda"):
            assert calls_old == [int(a[0][1][1][1].split(":")[1])]
        else:
            assert calls_old == []
        n += 2
    a = outcome_w(lambda: old_validate_device())
    b = outcome_w(lambda: cfg.validate_device())
    assert a == b, (a, b)

    dep = {"old_key": "new_key", "gone": None, "device": "Device"}
    cfg.aliases["aliased"] = {"short": "a much longer value"}
    cfg.aliases["device"] = {"fast": "gpu", "slow": "cpu"}
    try:
        for key, val in OTHER + [("device", d) for d in ("cpu", "tpu", "cuda:1", 0)]:
            for kw in ({}, {"deprecations": dep}):
                del calls[:]
                a = outcome_w(lambda: old_check_key_val(key, val, **kw))
                calls_old = list(calls)
                del calls[:]
                b = outcome_w(lambda: cfg.check_key_val(key, val, **kw))
                assert a == b, (key, val, a, b)
                assert calls_old == list(calls)
                if a[0][0] == "ok" and key != "device":
                    with warnings.catch_warnings():
                        warnings.simplefilter("ignore")
                        r = cfg.check_key_val(key, val, **kw)
                    if key != "aliased" or val != "short":
                        assert r[0] is key and r[1] is val  # passed through untouched
                n += 1
    finally:
        cfg.aliases.clear()
    return n


def stored_device_behaviour(sim):
    """property on the live store with simulated accelerators"""
    n = 0
    cfg.set_device("cpu")
    for dev in DEVICES * 2:
        before = copy.deepcopy(cfg.config)
        expect = outcome_w(lambda: old_validate_device(dev))[0] if "cpu" not in str(dev) else ("ok", None)
        del sim.calls[:]
        try:
            if n % 2:
                cfg.set_device(dev)
            else:
                cfg.set({"verbose": 1, "device": dev})
        except (RuntimeError, ValueError, TypeError):
            assert expect[0] == "exc", (dev, expect)
            assert cfg.config == before and cfg.get_device() == before["device"]
            assert sim.calls == []
        else:
            assert expect[0] == "ok", (dev, expect)
            got = cfg.get_device()
            assert type(got) is str
            if "cpu" in str(dev):
                assert got == "cpu" and sim.calls == []
            else:
                assert got == expect[1][0][1], (dev, got, expect)
            if got.startswith("cuda:"):
                idx = int(got.split(":")[1])
                assert 0 <= idx < sim.n_cuda and sim.calls == [idx]
            elif got == "mps":
                assert sim.mps and sim.calls == []
            else:
                assert got == "cpu"
            # everything else untouched
            after = copy.deepcopy(cfg.config)
            after["device"] = before["device"]
            assert after == before
        n += 1
    # context manager form restores the previous device, refresh restores the default
    cfg.set_device("cpu")
    if sim.n_cuda > 1:
        with cfg.set(device="cuda:1"):
            assert cfg.get_device() == "cuda:1"
            with cfg.set(device=0):
                assert cfg.get_device() == "cuda:0"
            assert cfg.get_device() == "cuda:1"
        assert cfg.get_device() == "cpu"
        cfg.set_device("GPU")
        assert cfg.get_device() == f"cuda:{sim.current}"
        cfg.refresh()
        assert cfg.get_device() == "cpu"
    return n


def part2():
    n = compare_functions()  # the machine as it is
    for n_cuda, mps, current in [(2, False, 0), (2, False, 1), (1, True, 0), (0, True, 0), (0, False, 0), (3, True, 2)]:
        with Simulated(n_cuda, mps, current) as sim:
            n += compare_functions(sim)
            n += stored_device_behaviour(sim)
    cfg.refresh()
    return n


# --------------------------------------------------------------------------------------
# part 1: last-writer-wins reference model on the live store
# --------------------------------------------------------------------------------------
LEAVES = [
    ("dtype_real",), ("dtype-complex",), ("verbose",), ("precision",),
    ("cupy", "fft-cache-size"), ("mkl", "threads"), ("viz", "cmap"),
    ("viz", "real_space_units"), ("viz", "colors", "set"), ("warnings", "suppress-all-"),
    ("extra-group", "first_leaf"), ("extra-group", "second-leaf"),
    ("extra-group", "deep", "er", "leaf"), ("solo_key",),
]
BAD_DEVICES = ["tpu", "cuda:99", -1, 1.5, "cuda:x", "quantum"]


def respell(path, rng):
    out = []
    for p in path:
        r = rng.random()
        out.append(p.replace("-", "_") if r < 0.4 else p.replace("_", "-") if r < 0.8 else p)
    return out


class Model:
    def __init__(self):
        self.cfg = flatten(cfg.config)
        self.dflt = [flatten(cfg.merge(*cfg.defaults))]

    def merged(self):
        out = {}
        for d in self.dflt:
            out.update(d)
        return out

    def set(self, path, value):
        self.cfg[canon(path)] = value

    def update_defaults(self, flat):
        cur = self.merged()
        for p, v in flat.items():
            if p not in self.cfg or (p in cur and cur[p] == self.cfg[p]):
                self.cfg[p] = v
        self.dflt.append(dict(flat))

    def refresh(self):
        self.cfg = self.merged()


def spell_like_store(path, rng):
    """spelling for a new set of defaults: levels that already exist in the store are
    spelled as they are stored, levels that do not exist yet are spelled at random"""
    out, d = [], cfg.config
    for p in path:
        found = [k for k in d if canon((k,)) == canon((p,))] if isinstance(d, dict) else []
        if found:
            out.append(found[0])
            d = d[found[0]]
        else:
            out.append(respell([p], rng)[0])
            d = None
    return tuple(out)


def nest(flat_items):
    out = {}
    for path, v in flat_items:
        d = out
        for p in path[:-1]:
            d = d.setdefault(p, {})
        d[path[-1]] = v
    return out


def check(model, rng):
    assert flatten(cfg.config) == model.cfg, (flatten(cfg.config), model.cfg)
    for path in rng.sample(LEAVES, 4):
        key = ".".join(respell(path, rng))
        want = model.cfg.get(canon(path), "<absent>")
        assert cfg.get(key, "<absent>") == want, (key, cfg.get(key, "<absent>"), want)
    assert cfg.get("device") == cfg.get_device() == model.cfg[("device",)]


def part1():
    rng = random.Random(19)
    uid = [0]

    def fresh(tag):
        uid[0] += 1
        return f"{tag}{uid[0]}"

    steps = 0
    for hist in range(40):
        cfg.refresh()
        model = Model()
        model.refresh()
        check(model, rng)
        for _ in range(rng.randint(5, 25)):
            op = rng.random()
            if op < 0.40:  # set, one of the three forms
                path = rng.choice(LEAVES)
                sp = respell(path, rng)
                val = fresh("u")
                form = rng.random()
                if form < 0.4:
                    cfg.set({".".join(sp): val})
                elif form < 0.7 and all(p.isidentifier() for p in (s.replace("-", "_") for s in sp)) \
                        and not any(s.endswith(("-", "_")) for s in sp):
                    cfg.set(**{"__".join(s.replace("-", "_") for s in sp): val})
                else:
                    other = rng.choice(LEAVES)
                    if canon(other) == canon(path):
                        cfg.set({".".join(sp): val})
                    else:
                        v2 = fresh("u")
                        cfg.set({".".join(respell(other, rng)): v2, ".".join(sp): val})
                        model.set(other, v2)
                model.set(path, val)
            elif op < 0.55:  # context manager form restores everything
                before = copy.deepcopy(cfg.config)
                paths = rng.sample(LEAVES, rng.randint(1, 3))
                with cfg.set({".".join(respell(p, rng)): fresh("t") for p in paths}):
                    for p in paths:
                        assert str(cfg.get(".".join(respell(p, rng)))).startswith("t")
                    if rng.random() < 0.5:
                        with cfg.set({"brand-new.group.leaf": 1, "device": "cpu"}):
                            assert cfg.get("brand_new.group.leaf") == 1
                        assert cfg.get("brand-new", None) is None
                assert cfg.config == before, (cfg.config, before)
            elif op < 0.70:  # new defaults, nested mapping, siblings must survive
                items = [(spell_like_store(p, rng), fresh("d")) for p in rng.sample(LEAVES, rng.randint(1, 4))]
                cfg.update_defaults(nest(items))
                model.update_defaults({canon(p): v for p, v in items})
            elif op < 0.80:
                cfg.refresh()
                model.refresh()
            elif op < 0.90:  # rejected devices leave the stored device alone
                dev = rng.choice(BAD_DEVICES)
                before = copy.deepcopy(cfg.config)
                try:
                    if rng.random() < 0.5:
                        cfg.set_device(dev)
                    else:
                        cfg.set(device=dev)
                except (RuntimeError, ValueError, TypeError):
                    pass
                else:
                    raise AssertionError(f"device {dev!r} accepted")
                assert cfg.config == before
            else:
                cfg.set_device(rng.choice(["cpu", "CPU", "cpu:0"]))
                model.set(("device",), "cpu")
            check(model, rng)
            steps += 1
        # refresh restores exactly the accumulated defaults
        cfg.refresh()
        model.refresh()
        check(model, rng)
        assert flatten(cfg.config) == flatten(cfg.merge(*cfg.defaults))
    return steps


if __name__ == "__main__":
    n2 = part2()
    with warnings.catch_warnings():
        warnings.simplefilter("error")
        n1 = part1()
    _tmp.cleanup()
    print(f"PASS: {n1} model-checked steps, {n2} old/new device comparisons and store checks")
