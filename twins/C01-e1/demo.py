"""Demo for C01 / patch 1: _write_ndarray and _array_to_np restructured (single create_array
call, guard-clause reader).

Checks
 (a) old-vs-new: verbatim copies of the ORIGINAL _write_ndarray / _array_to_np are run next to
     the functions of the tree under test on a spread of arrays (0-d, empty with odd shapes,
     1-d .. 4-d, many dtypes, non-contiguous views, non-ndarray inputs); stored shape, dtype,
     attrs and the array read back must be identical, for every reader/writer pairing;
 (b) the round-trip property itself: object graphs saved with both stores, several compression
     levels, str and Path targets come back structurally equal and save->load->save->load is a
     fixed point.
Exits 0 on success.
"""

import os
import sys
import tempfile
from pathlib import Path
from typing import Any, cast

import numpy as np
import torch
import zarr
from zarr.storage import LocalStore

from quantem.core.io.serialize import AutoSerialize, load


# --------------------------------------------------------------------------------------------
# verbatim copies of the ORIGINAL functions (tree before the patch)
# --------------------------------------------------------------------------------------------
def orig_array_to_np(arr: zarr.Array) -> np.ndarray:
    # Handle empty arrays (any dimension of size 0) and 0-dimensional arrays
    if arr.ndim == 0 or any(s == 0 for s in arr.shape):
        # Check if this was originally an empty array with a specific shape
        if "_original_shape" in arr.attrs:
            original_shape = arr.attrs["_original_shape"]
            # Convert to tuple of ints to ensure proper typing
            if isinstance(original_shape, (list, tuple)):
                original_shape = tuple(int(cast(Any, x)) for x in original_shape)
            return np.empty(cast(Any, original_shape), dtype=arr.dtype)
        elif arr.ndim == 0:
            # 0-dimensional arrays hold one value: read it back
            return np.asarray(arr[()], dtype=arr.dtype).reshape(())
        else:
            # For empty arrays, return an empty numpy array with the same shape
            return np.empty(arr.shape, dtype=arr.dtype)
    else:
        return cast(np.ndarray, arr[:])


def orig_write_ndarray(group, name, array, compressors=None) -> None:
    # Ensure array is a numpy array
    if not isinstance(array, np.ndarray):
        array = np.asarray(array)

    # Handle scalar arrays (0-dimensional) properly
    if array.ndim == 0:
        ds = group.create_array(name=name, shape=(), dtype=array.dtype, compressors=compressors)
        ds[()] = array.item()  # Use () for scalar indexing
    else:
        # Handle empty arrays (any dimension of size 0)
        if any(s == 0 for s in array.shape):
            # For empty arrays, create a 0-dimensional array instead of (0,)
            # This avoids indexing issues during loading
            ds = group.create_array(
                name=name, shape=(), dtype=array.dtype, compressors=compressors
            )
            # Store the original shape as an attribute for reconstruction
            ds.attrs["_original_shape"] = array.shape
            # No need to assign data since it's empty
            return
        # Ensure the shape is valid (no negative dimensions)
        if any(s < 0 for s in array.shape):
            raise ValueError(f"Invalid array shape {array.shape} for array '{name}'")
        ds = group.create_array(
            name=name, shape=array.shape, dtype=array.dtype, compressors=compressors
        )
        ds[:] = array


# --------------------------------------------------------------------------------------------
# comparison helpers
# --------------------------------------------------------------------------------------------
def arr_identical(a, b, check_values=True):
    assert type(a) is type(b), (type(a), type(b))
    assert a.dtype == b.dtype, (a.dtype, b.dtype)
    assert a.shape == b.shape, (a.shape, b.shape)
    if check_values and a.size:
        assert a.tobytes() == b.tobytes()


def is_num(v):
    return isinstance(v, (int, float, bool, np.integer, np.floating, np.bool_)) and not isinstance(
        v, (np.ndarray,)
    )


def same(a, b, path="root", strict=False):
    """Structural equality of an original value `a` and a loaded value `b`.

    strict=False applies the relaxations of the property (NumPy scalars and all-numeric sequences
    are compared by numeric value); strict=True (loaded vs re-loaded) requires identical types.
    """
    if isinstance(a, torch.nn.Module):
        assert type(a) is type(b), path
        sa, sb = a.state_dict(), b.state_dict()
        assert list(sa) == list(sb), path
        for k in sa:
            same(sa[k], sb[k], f"{path}.{k}", strict)
        return
    if isinstance(a, torch.Tensor):
        assert isinstance(b, torch.Tensor), (path, type(b))
        assert a.dtype == b.dtype and a.shape == b.shape, path
        assert a.requires_grad == b.requires_grad, path
        assert torch.equal(a.detach(), b.detach()), path
        return
    if isinstance(a, np.ndarray):
        assert isinstance(b, np.ndarray), (path, type(b))
        assert a.dtype == b.dtype, (path, a.dtype, b.dtype)
        assert a.shape == b.shape, (path, a.shape, b.shape)
        assert a.tobytes() == b.tobytes(), path
        return
    if isinstance(a, np.random.Generator):
        assert isinstance(b, np.random.Generator), path
        assert type(a.bit_generator) is type(b.bit_generator), path
        return
    if isinstance(a, AutoSerialize):
        assert type(a) is type(b), (path, type(a), type(b))
        assert set(vars(a)) == set(vars(b)), (path, set(vars(a)) ^ set(vars(b)))
        for k in vars(a):
            same(vars(a)[k], vars(b)[k], f"{path}.{k}", strict)
        return
    if isinstance(a, (list, tuple)):
        assert type(a) is type(b), (path, type(a), type(b))
        assert len(a) == len(b), path
        if not strict and len(a) > 0 and all(is_num(v) for v in a):
            for i, (x, y) in enumerate(zip(a, b)):
                assert x == y, (path, i, x, y)
            return
        for i, (x, y) in enumerate(zip(a, b)):
            same(x, y, f"{path}[{i}]", strict)
        return
    if isinstance(a, dict):
        assert type(b) is dict, (path, type(b))
        assert list(map(str, a)) == list(b) or set(map(str, a)) == set(b), path
        for k in a:
            same(a[k], b[str(k)], f"{path}[{k!r}]", strict)
        return
    if isinstance(a, (set, frozenset)):
        assert type(b) is set, (path, type(b))
        assert a == b, (path, a, b)
        if strict:
            assert sorted(map(repr, a)) == sorted(map(repr, b)), path
        return
    if isinstance(a, Path):
        assert isinstance(b, Path) and a == b, (path, a, b)
        return
    if not strict and isinstance(a, np.generic):
        assert not isinstance(b, np.ndarray), path
        assert a.item() == b or (a != a and b != b), (path, a, b)
        return
    # plain python scalars / None / str
    assert type(a) is type(b), (path, type(a), type(b))
    assert a == b or (a != a and b != b), (path, a, b)


# --------------------------------------------------------------------------------------------
# (a) old vs new on raw arrays
# --------------------------------------------------------------------------------------------
def array_cases():
    rng = np.random.default_rng(7)
    dtypes = [
        np.bool_, np.int8, np.uint8, np.int16, np.uint16, np.int32, np.uint32, np.int64,
        np.uint64, np.float16, np.float32, np.float64, np.complex64, np.complex128,
    ]  # fmt: skip
    shapes = [
        (), (1,), (5,), (3, 7), (7, 3), (1, 1), (2, 3, 5), (1, 4, 1, 2),
        (0,), (0, 3), (3, 0), (2, 0, 5), (0, 0), (1, 0, 1, 0),
    ]  # fmt: skip
    for dt in dtypes:
        for sh in shapes:
            n = int(np.prod(sh)) if sh else 1
            base = rng.integers(0, 100, size=max(n, 1))
            if np.issubdtype(dt, np.complexfloating):
                vals = (base + 1j * base[::-1]).astype(dt)
            elif dt is np.bool_:
                vals = (base % 2).astype(dt)
            else:
                vals = base.astype(dt)
            yield f"{np.dtype(dt).name}{sh}", vals[:n].reshape(sh) if sh else vals[0:1].reshape(())
    # edge values
    yield "nan_inf", np.array([np.nan, np.inf, -np.inf, -0.0, 0.0])
    yield "nan0d", np.array(np.nan)
    yield "int64_ext", np.array([np.iinfo(np.int64).min, np.iinfo(np.int64).max])
    yield "uint64_ext0d", np.array(np.iinfo(np.uint64).max, dtype=np.uint64)
    yield "complex0d", np.array(1.5 - 2.5j)
    yield "bool0d", np.array(True)
    # non-contiguous / transposed / strided / broadcast views
    a = np.arange(60, dtype=np.float32).reshape(3, 4, 5)
    yield "transposed", a.transpose(2, 0, 1)
    yield "strided", a[::2, 1::2, ::-1]
    yield "fortran", np.asfortranarray(a[0])
    yield "broadcast", np.broadcast_to(np.arange(4), (3, 4))
    yield "empty_slice", a[:, 2:2, :]
    # non-ndarray inputs (np.asarray path)
    yield "pylist", [[1, 2, 3], [4, 5, 6]]
    yield "pyscalar", 3.25
    yield "pyempty", []
    yield "pytuple_bool", (True, False)
    yield "npscalar", np.float32(2.5)


def check_arrays(tmp):
    comp = [
        {
            "name": "blosc",
            "configuration": {"cname": "zstd", "clevel": 3, "shuffle": "bitshuffle"},
        }
    ]
    n = 0
    for ci, compressors in enumerate((None, comp)):
        root_o = zarr.group(store=LocalStore(os.path.join(tmp, f"arr_old_{ci}")), overwrite=True)
        root_n = zarr.group(store=LocalStore(os.path.join(tmp, f"arr_new_{ci}")), overwrite=True)
        for i, (label, array) in enumerate(array_cases()):
            key = f"a{i}"
            try:
                orig_write_ndarray(root_o, key, array, compressors)
                err_o = None
            except Exception as e:  # noqa: BLE001
                err_o = e
            try:
                AutoSerialize._write_ndarray(root_n, key, array, compressors)
                err_n = None
            except Exception as e:  # noqa: BLE001
                err_n = e
            assert type(err_o) is type(err_n), (label, err_o, err_n)
            if err_o is not None:
                assert str(err_o) == str(err_n), (label, err_o, err_n)
                assert (key in root_o) == (key in root_n), label
                continue
            zo = cast(zarr.Array, root_o[key])
            zn = cast(zarr.Array, root_n[key])
            # same stored layout
            assert zo.shape == zn.shape, (label, zo.shape, zn.shape)
            assert zo.dtype == zn.dtype, (label, zo.dtype, zn.dtype)
            assert dict(zo.attrs) == dict(zn.attrs), (label, dict(zo.attrs), dict(zn.attrs))
            assert zo.metadata.to_dict() == zn.metadata.to_dict(), label
            # all four reader/writer pairings agree
            ref = np.asarray(array)
            is_empty = ref.size == 0
            for z in (zo, zn):
                r_old = orig_array_to_np(z)
                r_new = AutoSerialize._array_to_np(z)
                arr_identical(r_old, r_new, check_values=not is_empty)
                assert r_new.shape == ref.shape, (label, r_new.shape, ref.shape)
                assert r_new.dtype == ref.dtype, (label, r_new.dtype, ref.dtype)
                if not is_empty:
                    assert r_new.tobytes() == np.ascontiguousarray(ref).tobytes(), label
            n += 1
        # identical bytes on disk
        files_o = sorted(
            os.path.relpath(os.path.join(d, f), root_o.store.root)
            for d, _, fs in os.walk(root_o.store.root)
            for f in fs
        )
        files_n = sorted(
            os.path.relpath(os.path.join(d, f), root_n.store.root)
            for d, _, fs in os.walk(root_n.store.root)
            for f in fs
        )
        assert files_o == files_n, set(files_o) ^ set(files_n)
        for f in files_o:
            with open(os.path.join(root_o.store.root, f), "rb") as fo, open(
                os.path.join(root_n.store.root, f), "rb"
            ) as fn:
                assert fo.read() == fn.read(), f

    # reader on hand-made zarr arrays that were NOT written by _write_ndarray
    root = zarr.group(store=LocalStore(os.path.join(tmp, "handmade")), overwrite=True)
    z = root.create_array(name="e1", shape=(0,), dtype="float32")
    arr_identical(orig_array_to_np(z), AutoSerialize._array_to_np(z), check_values=False)
    z = root.create_array(name="e2", shape=(3, 0, 2), dtype="int16")
    arr_identical(orig_array_to_np(z), AutoSerialize._array_to_np(z), check_values=False)
    z = root.create_array(name="s0", shape=(), dtype="int32")
    z[()] = 41
    z.attrs["_original_shape"] = [0, 2]  # marker wins over the stored value
    arr_identical(orig_array_to_np(z), AutoSerialize._array_to_np(z), check_values=False)
    z = root.create_array(name="s1", shape=(4,), dtype="int32")
    z[:] = np.arange(4)
    z.attrs["_original_shape"] = [0]  # marker is ignored for non-empty, non-scalar arrays
    arr_identical(orig_array_to_np(z), AutoSerialize._array_to_np(z))
    assert AutoSerialize._array_to_np(z).tolist() == [0, 1, 2, 3]
    z = root.create_array(name="s2", shape=(0, 3), dtype="float64")
    z.attrs["_original_shape"] = [2, 0]
    r = AutoSerialize._array_to_np(z)
    arr_identical(orig_array_to_np(z), r, check_values=False)
    assert r.shape == (2, 0)
    return n


# --------------------------------------------------------------------------------------------
# (b) round-trip property on object graphs
# --------------------------------------------------------------------------------------------
class Leaf(AutoSerialize):
    def __init__(self, k):
        self.k = k
        self.a0 = np.array(k, dtype=np.int16)
        self.e = np.empty((k, 0, 2), dtype=np.complex64)
        self.t = torch.arange(k + 1, dtype=torch.float64)


class Graph(AutoSerialize):
    def __init__(self, seed):
        rng = np.random.default_rng(seed)
        self.i = int(rng.integers(-5, 5))
        self.f = float(rng.normal())
        self.b = bool(seed % 2)
        self.none = None
        self.s = f"text-{seed}"
        self.empty_str = ""
        self.p = Path("/tmp/some/where") / f"f{seed}.bin"
        self.np_f32 = np.float32(1.5)
        self.np_i64 = np.int64(-(2**40))
        self.np_bool = np.bool_(True)
        self.a_0d = np.array(rng.normal())
        self.a_0d_c = np.array(2.0 - 1.0j, dtype=np.complex64)
        self.a_0d_u8 = np.array(255, dtype=np.uint8)
        self.a_empty1 = np.zeros((0,), dtype=np.float32)
        self.a_empty2 = np.zeros((3, 0), dtype=np.int8)
        self.a_empty3 = np.zeros((0, 4, 0), dtype=np.bool_)
        self.a_rect = rng.normal(size=(3, 7)).astype(np.float32)
        self.a_3d = rng.integers(0, 255, size=(2, 5, 3)).astype(np.uint16)
        self.a_bool = rng.integers(0, 2, size=(5,)).astype(bool)
        self.a_c128 = rng.normal(size=(4, 1)) + 1j * rng.normal(size=(4, 1))
        self.a_view = np.arange(24, dtype=np.int32).reshape(4, 6)[::2, ::-1]
        self.t_plain = torch.tensor(rng.normal(size=(2, 3)), dtype=torch.float32)
        self.t_grad = torch.ones(3, 1, requires_grad=True)
        self.t_int = torch.arange(5, dtype=torch.int16)
        self.t_0d = torch.tensor(3.5)
        self.t_empty = torch.zeros(0, 2)
        self.mod = torch.nn.Linear(3, 2)
        self.lst_num = [1, 2, 3]
        self.lst_float = [0.5, -1.25]
        self.lst_mixed = [1, "a", None, 2.5, Path("rel/x"), [np.array(1.0), (2, 3)], {"k": 1}]
        self.lst_empty = []
        self.tup = (np.zeros((2, 0)), "z", (1.5, 2.5), ())
        self.tup_num = (True, False, True)
        self.dct = {
            "arr": np.arange(3),
            "zero_d": np.array(7, dtype=np.int8),
            "empty": np.zeros((0, 0)),
            "nested": {"deep": [np.ones((1, 2)), {"x": None}], "p": Path("q")},
            "t": torch.zeros(2, dtype=torch.bool),
            "leaf": Leaf(2),
            "none": None,
            "set": {1, 2, 3},
        }
        self.dct_empty = {}
        self.st_num = {3, 1, 2}
        self.st_str = {"a", "bb"}
        self.st_mixed = {"a", 1, (1, 2)}
        self.st_empty = set()
        self.leaf = Leaf(seed)
        self.leaves = [Leaf(0), Leaf(1)]
        self.rng = np.random.default_rng(seed)


class Small(AutoSerialize):
    def __init__(self):
        self.z = np.array(-3, dtype=np.int32)
        self.e = np.zeros((2, 0, 3), dtype=np.float16)
        self.m = np.arange(15, dtype=np.float32).reshape(5, 3)
        self.seq = [np.array(1.5), np.zeros((0,), dtype=np.uint8), (1, 2)]
        self.t = torch.arange(3.0, requires_grad=True)
        self.p = Path("a/b")
        self.n = None


def roundtrip(obj, target, store, level):
    obj.save(target, mode="w", store=store, compression_level=level)
    back = load(target)
    same(obj, back)
    # overwrite mode + fixed point
    back.save(target, mode="o", store=store, compression_level=level)
    again = load(target)
    same(back, again, strict=True)
    same(obj, again)
    return back


def check_graphs(tmp):
    n = 0
    configs = [
        ("dir", None, str),
        ("dir", 0, Path),
        ("zip", 9, str),
        ("zip", 4, Path),
    ]
    for seed in (3,):
        g = Graph(seed)
        loaded_all = []
        for ci, (store, level, kind) in enumerate(configs):
            name = f"g{seed}_{ci}" + (".zip" if store == "zip" else "")
            target = kind(os.path.join(tmp, name))
            loaded_all.append(roundtrip(g, target, store, level))
            n += 1
        # identical across stores / compression levels / target types
        for other in loaded_all[1:]:
            same(loaded_all[0], other, strict=True)
    # every compression level on both stores with a small graph
    small = Small()
    loaded_all = []
    for level in [None] + list(range(10)):
        for store in ("dir", "zip"):
            name = f"s_{level}_{store}" + (".zip" if store == "zip" else "")
            loaded_all.append(roundtrip(small, os.path.join(tmp, name), store, level))
            n += 1
    for other in loaded_all[1:]:
        same(loaded_all[0], other, strict=True)
    # invalid levels are still rejected before anything is written
    for bad in (-1, 10):
        try:
            small.save(os.path.join(tmp, "bad_level"), compression_level=bad)
        except ValueError:
            assert not os.path.exists(os.path.join(tmp, "bad_level"))
        else:
            raise AssertionError("compression_level out of range accepted")
    return n


def main():
    torch.manual_seed(0)
    with tempfile.TemporaryDirectory() as tmp:
        n_arr = check_arrays(tmp)
        n_graph = check_graphs(tmp)
    print(f"PASS: {n_arr} array cases old==new, {n_graph} graph round-trips")
    return 0


if __name__ == "__main__":
    sys.exit(main())
