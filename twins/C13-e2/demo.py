"""C13 / patch 2 demo: torch cross-correlation shift estimator
(cross_correlation_shift_torch -> align_images_fourier_torch -> upsampled_correlation_torch).

Checks the registration property (sign convention, integer shifts exact, sub-pixel shifts
to one upsampled pixel, identical images -> 0, swap negates) for float32 / float64 images of
odd / even / non-square shapes and compares with a verbatim copy of the ORIGINAL torch
chain (bit-identical results, same dtypes, same exception types expected).
"""

import math
import os
import sys

for _v in ("OMP_NUM_THREADS", "OPENBLAS_NUM_THREADS", "MKL_NUM_THREADS"):
    os.environ.setdefault(_v, "1")

import numpy as np  # noqa: E402
import torch  # noqa: E402

torch.set_num_threads(1)

from quantem.core.utils.imaging_utils import (  # noqa: E402
    align_images_fourier_torch,
    cross_correlation_shift_torch,
    upsampled_correlation_torch,
)


# --------------------------------------------------------------------------------------
# verbatim copy of the ORIGINAL torch chain
# --------------------------------------------------------------------------------------
def orig_cross_correlation_shift_torch(
    im_ref: torch.Tensor, im: torch.Tensor, upsample_factor: int = 2
) -> torch.Tensor:
    G1 = torch.fft.fft2(im_ref)
    G2 = torch.fft.fft2(im)

    xy_shift = orig_align_images_fourier_torch(G1, G2, upsample_factor)

    # convert to centered signed shifts as original code
    M, N = im_ref.shape
    dx = ((xy_shift[0] + M / 2) % M) - M / 2
    dy = ((xy_shift[1] + N / 2) % N) - N / 2

    return torch.tensor([dx, dy], device=G1.device)


def orig_align_images_fourier_torch(
    G1: torch.Tensor,
    G2: torch.Tensor,
    upsample_factor: int,
) -> torch.Tensor:
    device = G1.device
    cc = G1 * G2.conj()
    cc_real = torch.fft.ifft2(cc).real

    # local max (integer)
    flat_idx = torch.argmax(cc_real)
    x0 = (flat_idx // cc_real.shape[1]).to(torch.long).item()
    y0 = (flat_idx % cc_real.shape[1]).to(torch.long).item()

    # half pixel shifts: pick +-1 indices with wrap (mod)
    M, N = cc_real.shape
    x_inds = [((x0 + dx) % M) for dx in (-1, 0, 1)]
    y_inds = [((y0 + dy) % N) for dy in (-1, 0, 1)]

    vx = cc_real[x_inds, y0]
    vy = cc_real[x0, y_inds]

    # parabolic half-pixel refine
    # dx = (vx[2] - vx[0]) / (4*vx[1] - 2*vx[2] - 2*vx[0])
    denom_x = 4.0 * vx[1] - 2.0 * vx[2] - 2.0 * vx[0]
    denom_y = 4.0 * vy[1] - 2.0 * vy[2] - 2.0 * vy[0]
    dx = (vx[2] - vx[0]) / denom_x if denom_x != 0 else torch.tensor(0.0, device=device)
    dy = (vy[2] - vy[0]) / denom_y if denom_y != 0 else torch.tensor(0.0, device=device)

    # round to nearest half-pixel
    x0 = torch.round((x0 + dx) * 2.0) / 2.0
    y0 = torch.round((y0 + dy) * 2.0) / 2.0

    xy_shift = torch.tensor([x0, y0])

    if upsample_factor > 2:
        xy_shift = orig_upsampled_correlation_torch(cc, upsample_factor, xy_shift)

    return xy_shift


def orig_upsampled_correlation_torch(
    imageCorr: torch.Tensor,
    upsampleFactor: int,
    xyShift: torch.Tensor,
) -> torch.Tensor:
    assert upsampleFactor > 2

    xyShift = torch.round(xyShift * float(upsampleFactor)) / float(upsampleFactor)
    globalShift = torch.floor(torch.ceil(torch.tensor(upsampleFactor * 1.5)) / 2.0)
    upsampleCenter = globalShift - (upsampleFactor * xyShift)

    conj_input = imageCorr.conj()
    im_up = orig_dftUpsample_torch(conj_input, upsampleFactor, upsampleCenter)
    imageCorrUpsample = im_up.conj()

    # find maximum
    # flatten argmax -> unravel to 2D
    flat_idx = torch.argmax(imageCorrUpsample.real)
    # unravel_index
    xySubShift0 = (flat_idx // imageCorrUpsample.shape[1]).to(torch.long)
    xySubShift1 = (flat_idx % imageCorrUpsample.shape[1]).to(torch.long)
    xySubShift = torch.tensor([xySubShift0.item(), xySubShift1.item()])

    # parabolic subpixel refinement
    dx = 0.0
    dy = 0.0
    try:
        # extract 3x3 patch around found peak
        r = xySubShift[0].item()
        c = xySubShift[1].item()
        patch = imageCorrUpsample.real[r - 1 : r + 2, c - 1 : c + 2]
        # if patch is incomplete (near edge) this will raise / have wrong shape -> except
        if patch.shape == (3, 3):
            icc = patch
            # dx corresponds to row direction (vertical axis) as in original code:
            dx = (icc[2, 1] - icc[0, 1]) / (4.0 * icc[1, 1] - 2.0 * icc[2, 1] - 2.0 * icc[0, 1])
            dy = (icc[1, 2] - icc[1, 0]) / (4.0 * icc[1, 1] - 2.0 * icc[1, 2] - 2.0 * icc[1, 0])
            dx = dx.item()
            dy = dy.item()
        else:
            dx, dy = 0.0, 0.0
    except Exception:
        dx, dy = 0.0, 0.0

    # convert xySubShift to zero-centered by subtracting globalShift
    xySubShift = xySubShift.to(dtype=torch.get_default_dtype())
    xySubShift = xySubShift - globalShift.to(xySubShift.dtype)

    xyShift = xyShift + (xySubShift + torch.tensor([dx, dy])) / float(upsampleFactor)

    return xyShift


def orig_dftUpsample_torch(
    imageCorr: torch.Tensor,
    upsampleFactor: int,
    xyShift: torch.Tensor,
) -> torch.Tensor:
    device = imageCorr.device
    M, N = imageCorr.shape
    pixelRadius = 1.5
    numRow = int(math.ceil(pixelRadius * upsampleFactor))
    numCol = numRow

    # prepare the vectors exactly like the numpy version
    # col: frequency indices (centered) for N
    col_freq = torch.fft.ifftshift(torch.arange(N, device=device)) - math.floor(N / 2)
    # row: frequency indices (centered) for M
    row_freq = torch.fft.ifftshift(torch.arange(M, device=device)) - math.floor(M / 2)

    # small upsample grid coordinates (integer positions in the UPSAMPLED GRID)
    col_coords = torch.arange(numCol, device=device, dtype=torch.get_default_dtype()) - float(
        xyShift[1]
    )
    row_coords = torch.arange(numRow, device=device, dtype=torch.get_default_dtype()) - float(
        xyShift[0]
    )

    # build kernels: note factor signs and denominators match original numpy code
    # colKern: shape (N, numCol)
    factor_col = -2j * math.pi / (N * float(upsampleFactor))
    # outer(col_freq, col_coords) -> shape (N, numCol)
    colKern = torch.exp(factor_col * (col_freq.unsqueeze(1) * col_coords.unsqueeze(0))).to(
        imageCorr.dtype
    )

    # rowKern: shape (numRow, M)
    factor_row = -2j * math.pi / (M * float(upsampleFactor))
    # outer(row_coords, row_freq) -> shape (numRow, M)
    rowKern = torch.exp(factor_row * (row_coords.unsqueeze(1) * row_freq.unsqueeze(0))).to(
        imageCorr.dtype
    )

    # perform the small-matrix DFT: (numRow, M) @ (M, N) @ (N, numCol) -> (numRow, numCol)
    imageUpsample = rowKern @ imageCorr @ colKern

    # original code took xp.real(...) before returning
    return imageUpsample.real


# --------------------------------------------------------------------------------------
# helpers
# --------------------------------------------------------------------------------------
def band_limited_image(shape, seed):
    rng = np.random.default_rng(seed)
    im = rng.normal(size=shape)
    rr, cc = np.meshgrid(np.arange(shape[0]), np.arange(shape[1]), indexing="ij")
    for _ in range(4):
        r0, c0 = rng.uniform(0, shape[0]), rng.uniform(0, shape[1])
        im += 6.0 * np.exp(-((rr - r0) ** 2 + (cc - c0) ** 2) / (2 * 1.7**2))
    F = np.fft.fft2(im)
    kx = np.fft.fftfreq(shape[0])[:, None]
    ky = np.fft.fftfreq(shape[1])[None, :]
    F = F * ((np.abs(kx) < 0.24) & (np.abs(ky) < 0.24))
    return np.real(np.fft.ifft2(F))


def fourier_shift(im, s):
    kx = np.fft.fftfreq(im.shape[0])[:, None]
    ky = np.fft.fftfreq(im.shape[1])[None, :]
    ramp = np.exp(-2j * np.pi * (kx * s[0] + ky * s[1]))
    return np.real(np.fft.ifft2(np.fft.fft2(im) * ramp))


def periodic_err(got, expected, shape):
    shape = np.asarray(shape, dtype=float)
    d = np.asarray(got, dtype=float) - np.asarray(expected, dtype=float)
    return np.abs((d + shape / 2) % shape - shape / 2)


def same(a, b, what):
    assert isinstance(a, torch.Tensor) and isinstance(b, torch.Tensor), what
    assert a.dtype == b.dtype, (what, a.dtype, b.dtype)
    assert a.shape == b.shape, (what, a.shape, b.shape)
    assert a.device == b.device, what
    assert torch.equal(a, b) or (
        torch.equal(torch.isnan(a), torch.isnan(b))
        and torch.equal(torch.nan_to_num(a), torch.nan_to_num(b))
    ), (what, a, b)


SHAPES = [(32, 32), (31, 37), (24, 40), (17, 16), (45, 20)]
UPS = [1, 2, 3, 4, 5, 8, 16, 37, 64]
n_checks = 0

for dtype in (torch.float64, torch.float32):
    exact_tol = 1e-5 if dtype == torch.float64 else 2e-3
    slack = 0.0 if dtype == torch.float64 else 2e-3

    # ----------------------------------------------------------------------------------
    # 1. integer shifts anywhere in the periodic cell
    # ----------------------------------------------------------------------------------
    for si, shape in enumerate(SHAPES):
        M, N = shape
        im_np = band_limited_image(shape, seed=si)
        im = torch.tensor(im_np, dtype=dtype)
        int_shifts = [
            (0, 0),
            (1, 0),
            (0, -1),
            (3, -5),
            (-4, 7),
            (M // 2 + 2, -(N // 2 + 3)),  # beyond half the size
            (M - 1, N - 1),
            (M // 2 - 1, N // 2 - 1),
        ]
        for s in int_shifts:
            ref = torch.roll(im, s, dims=(0, 1))  # translating `im` by s reproduces `ref`
            for up in UPS:
                got = cross_correlation_shift_torch(ref, im, upsample_factor=up)
                old = orig_cross_correlation_shift_torch(ref, im, upsample_factor=up)
                same(old, got, f"int shift {shape} {s} up={up} {dtype}")
                assert np.all(periodic_err(got.numpy(), s, shape) < exact_tol), (shape, s, up, got)
                swapped = cross_correlation_shift_torch(im, ref, upsample_factor=up)
                same(orig_cross_correlation_shift_torch(im, ref, upsample_factor=up), swapped, "swap")
                assert np.all(periodic_err(swapped.numpy(), -np.asarray(s), shape) < exact_tol)
                n_checks += 2

    # ----------------------------------------------------------------------------------
    # 2. identical images -> zero shift, every upsampling factor 1..64
    # ----------------------------------------------------------------------------------
    for si, shape in enumerate(SHAPES[:3]):
        im = torch.tensor(band_limited_image(shape, seed=100 + si), dtype=dtype)
        for up in range(1, 65):
            got = cross_correlation_shift_torch(im, im, upsample_factor=up)
            same(orig_cross_correlation_shift_torch(im, im, upsample_factor=up), got, "identical")
            assert np.all(np.abs(got.numpy()) < exact_tol), (shape, up, got)
            n_checks += 1

    # ----------------------------------------------------------------------------------
    # 3. band-limited sub-pixel shifts: within one upsampled pixel
    #    (upsample_factor <= 2 only rounds to the nearest half pixel)
    # ----------------------------------------------------------------------------------
    rng = np.random.default_rng(7)
    for si, shape in enumerate(SHAPES):
        M, N = shape
        im_np = band_limited_image(shape, seed=200 + si)
        im = torch.tensor(im_np, dtype=dtype)
        sub_shifts = [
            (0.5, -0.5),
            (0.25, 0.75),
            (-3.3, 6.6),
            (M / 2 + 1.4, -(N / 2) - 2.7),  # beyond half the size
            tuple(rng.uniform(-0.5, 0.5, size=2) * np.array(shape)),
            tuple(rng.uniform(-0.5, 0.5, size=2) * np.array(shape)),
        ]
        for s in sub_shifts:
            ref = torch.tensor(fourier_shift(im_np, s), dtype=dtype)
            for up in UPS:
                got = cross_correlation_shift_torch(ref, im, upsample_factor=up)
                old = orig_cross_correlation_shift_torch(ref, im, upsample_factor=up)
                same(old, got, f"sub-pixel shift {shape} {s} up={up} {dtype}")
                tol = (1.0 / up if up > 2 else 0.5) + slack
                err = periodic_err(got.numpy(), s, shape)
                assert np.all(err <= tol), (shape, s, up, got, err)
                # translating `im` by the returned shift reproduces `ref`
                if up >= 16:
                    aligned = fourier_shift(im_np, got.numpy().astype(float))
                    rel = np.abs(aligned - ref.numpy()).max() / np.abs(ref.numpy()).max()
                    assert rel < 0.2, (shape, s, up, rel)
                swapped = cross_correlation_shift_torch(im, ref, upsample_factor=up)
                same(orig_cross_correlation_shift_torch(im, ref, upsample_factor=up), swapped, "swap")
                assert np.all(periodic_err(swapped.numpy(), -got.numpy(), shape) <= 2 * tol)
                n_checks += 1

    # ----------------------------------------------------------------------------------
    # 4. the two inner functions directly, on arbitrary Fourier-space inputs (noise, so the
    #    upsampled peak regularly sits on the border of the patch -> no 3x3 refinement)
    # ----------------------------------------------------------------------------------
    cdtype = torch.complex128 if dtype == torch.float64 else torch.complex64
    n_border = 0
    for trial in range(300):
        g = torch.Generator().manual_seed(5000 + trial)
        shape = (
            int(torch.randint(3, 14, (1,), generator=g)),
            int(torch.randint(3, 14, (1,), generator=g)),
        )
        up = int(torch.randint(1, 20, (1,), generator=g))
        G1 = torch.complex(
            torch.randn(shape, generator=g, dtype=dtype), torch.randn(shape, generator=g, dtype=dtype)
        )
        G2 = torch.complex(
            torch.randn(shape, generator=g, dtype=dtype), torch.randn(shape, generator=g, dtype=dtype)
        )
        assert G1.dtype == cdtype
        same(
            orig_align_images_fourier_torch(G1, G2, up),
            align_images_fourier_torch(G1, G2, up),
            f"align fuzz {trial}",
        )
        if up > 2:
            cc = G1 * G2.conj()
            start = torch.round(torch.rand(2, generator=g) * torch.tensor(shape) * 2.0) / 2.0
            o = orig_upsampled_correlation_torch(cc, up, start)
            n = upsampled_correlation_torch(cc, up, start)
            same(o, n, f"upsampled fuzz {trial}")
            # diagnostic: was the peak on the border of the upsampled patch?
            xs = torch.round(start * float(up)) / float(up)
            gs = torch.floor(torch.ceil(torch.tensor(up * 1.5)) / 2.0)
            patch = orig_dftUpsample_torch(cc.conj(), up, gs - up * xs)
            r, c = divmod(int(torch.argmax(patch)), patch.shape[1])
            if r in (0, patch.shape[0] - 1) or c in (0, patch.shape[1] - 1):
                n_border += 1
        n_checks += 1
    assert n_border > 0, "fuzz never reached the border branch"

# --------------------------------------------------------------------------------------
# 5. degenerate / bad inputs: same values or same exception types
# --------------------------------------------------------------------------------------
flat = torch.zeros((6, 7), dtype=torch.float64)  # flat correlation: zero denominators
for up in (1, 2, 4):
    same(
        orig_cross_correlation_shift_torch(flat, flat, up),
        cross_correlation_shift_torch(flat, flat, up),
        "flat",
    )
bad_inputs = [
    (torch.zeros(5), torch.zeros(5)),  # 1D
    (torch.zeros((2, 3, 4)), torch.zeros((2, 3, 4))),  # 3D
    (torch.zeros((0, 4)), torch.zeros((0, 4))),  # empty
    (torch.zeros((4, 0)), torch.zeros((4, 0))),  # empty
]
for bad in bad_inputs:
    for up in (1, 4):
        excs = []
        for fn in (orig_cross_correlation_shift_torch, cross_correlation_shift_torch):
            try:
                fn(*bad, upsample_factor=up)
                excs.append(None)
            except Exception as e:  # noqa: BLE001
                excs.append(type(e))
        assert excs[0] is excs[1], (bad[0].shape, excs)
        excs = []
        for fn in (orig_align_images_fourier_torch, align_images_fourier_torch):
            try:
                fn(bad[0].to(torch.complex64), bad[1].to(torch.complex64), up)
                excs.append(None)
            except Exception as e:  # noqa: BLE001
                excs.append(type(e))
        assert excs[0] is excs[1], (bad[0].shape, excs)

print(f"PASS ({n_checks} comparisons)")
sys.exit(0)
