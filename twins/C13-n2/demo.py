"""C13 demo: old-vs-new bit-for-bit comparison of the cross-correlation shift
estimators (NumPy and torch) plus a direct check of the registration property.

The section between the BEGIN/END markers is a verbatim copy of the ORIGINAL
functions from src/quantem/core/utils/imaging_utils.py (worktree HEAD); they call
each other through this module's globals, so the whole original chain is used as
the reference.  The functions under test are imported from the installed tree
(PYTHONPATH=<root>/src).
"""

import itertools
import math
from typing import Tuple

import numpy as np
import torch
from numpy.typing import NDArray

import quantem.core.utils.imaging_utils as new

torch.set_num_threads(1)

# ---------------------------------------------------------------- BEGIN ORIGINAL
def dft_upsample(
    F: NDArray,
    up: int,
    shift: Tuple[float, float],
    device: str = "cpu",
):
    """
    Matrix multiplication DFT, from:

    Manuel Guizar-Sicairos, Samuel T. Thurman, and James R. Fienup, "Efficient subpixel
    image registration algorithms," Opt. Lett. 33, 156-158 (2008).
    http://www.sciencedirect.com/science/article/pii/S0045790612000778
    """
    if device == "gpu":
        import cupy as cp  # type: ignore

        xp = cp
    else:
        xp = np

    M, N = F.shape
    du = np.ceil(1.5 * up).astype(int)
    # sample positions (in upsampled pixels) of the local patch, centred on `shift`
    row = np.arange(-du, du + 1) + shift[0] * up
    col = np.arange(-du, du + 1) + shift[1] * up

    # inverse-DFT kernels: F is a Fourier-domain array, the patch is in real space
    kern_row = np.exp(
        2j * np.pi / (M * up) * np.outer(row, xp.fft.ifftshift(xp.arange(M)) - M // 2)
    )
    kern_col = np.exp(
        2j * np.pi / (N * up) * np.outer(xp.fft.ifftshift(xp.arange(N)) - N // 2, col)
    )
    return xp.real(kern_row @ F @ kern_col)


def cross_correlation_shift(
    im_ref,
    im,
    upsample_factor: int = 1,
    max_shift=None,
    return_shifted_image: bool = False,
    fft_input: bool = False,
    fft_output: bool = False,
    device: str = "cpu",
):
    """
    Estimate subpixel shift between two 2D images using Fourier cross-correlation.

    Parameters
    ----------
    im_ref : ndarray
        Reference image or its FFT if fft_input=True
    im : ndarray
        Image to align or its FFT if fft_input=True
    upsample_factor : int
        Subpixel upsampling factor (must be > 1 for subpixel accuracy)
    fft_input : bool
        If True, assumes im_ref and im are already in Fourier space
    return_shifted_image : bool
        If True, return the shifted version of `im` aligned to `im_ref`
    device : str
        'cpu' or 'gpu' (requires CuPy)

    Returns
    -------
    shifts : tuple of float
        (row_shift, col_shift) to align `im` to `im_ref`
    image_shifted : ndarray (optional)
        Shifted image in real space, only returned if return_shifted_image=True
    """
    if device == "gpu":
        import cupy as cp  # type: ignore

        xp = cp
    else:
        xp = np

    # Fourier transforms
    F_ref = im_ref if fft_input else xp.fft.fft2(im_ref)
    F_im = im if fft_input else xp.fft.fft2(im)

    # Correlation
    cc = F_ref * xp.conj(F_im)
    cc_real = xp.real(xp.fft.ifft2(cc))

    if max_shift is not None:
        x = np.fft.fftfreq(cc.shape[0], 1 / cc.shape[0])
        y = np.fft.fftfreq(cc.shape[1], 1 / cc.shape[1])
        mask = x[:, None] ** 2 + y[None, :] ** 2 >= max_shift**2
        cc_real[mask] = 0.0

    # Coarse peak
    peak = xp.unravel_index(xp.argmax(cc_real), cc_real.shape)
    x0, y0 = peak

    # Parabolic refinement
    x_inds = xp.mod(x0 + xp.arange(-1, 2), cc.shape[0]).astype(int)
    y_inds = xp.mod(y0 + xp.arange(-1, 2), cc.shape[1]).astype(int)

    vx = cc_real[x_inds, y0]
    vy = cc_real[x0, y_inds]

    def parabolic_peak(v):
        return (v[2] - v[0]) / (4 * v[1] - 2 * v[2] - 2 * v[0])

    dx = parabolic_peak(vx)
    dy = parabolic_peak(vy)

    x0 = (x0 + dx) % cc.shape[0]
    y0 = (y0 + dy) % cc.shape[1]

    if upsample_factor <= 1:
        shifts = (x0, y0)
    else:
        # Local DFT upsampling

        local = dft_upsample(cc, upsample_factor, (x0, y0), device=device)
        peak = np.unravel_index(xp.argmax(local), local.shape)

        try:
            lx, ly = peak
            icc = local[lx - 1 : lx + 2, ly - 1 : ly + 2]
            if icc.shape == (3, 3):
                dxf = parabolic_peak(icc[:, 1])
                dyf = parabolic_peak(icc[1, :])
            else:
                raise ValueError("Subarray too close to edge")
        except (IndexError, ValueError):
            dxf = dyf = 0.0

        # the local patch is centred on (x0, y0): its centre sample has index (len - 1) // 2
        center = (np.array(local.shape) - 1) // 2
        shifts = np.array([x0, y0]) + (np.array(peak) - center) / upsample_factor
        shifts += np.array([dxf, dyf]) / upsample_factor

    shifts = (shifts + 0.5 * np.array(cc.shape)) % cc.shape - 0.5 * np.array(cc.shape)

    if not return_shifted_image:
        return shifts

    # Fourier shift image (F_im assumed to be FFT)
    kx = xp.fft.fftfreq(F_im.shape[0])[:, None]
    ky = xp.fft.fftfreq(F_im.shape[1])[None, :]
    phase_ramp = xp.exp(-2j * np.pi * (kx * shifts[0] + ky * shifts[1]))
    F_im_shifted = F_im * phase_ramp
    if fft_output:
        image_shifted = F_im_shifted
    else:
        image_shifted = xp.real(xp.fft.ifft2(F_im_shifted))

    return shifts, image_shifted


def cross_correlation_shift_torch(
    im_ref: torch.Tensor, im: torch.Tensor, upsample_factor: int = 2
) -> torch.Tensor:
    """
    Align two real images using Fourier cross-correlation and DFT upsampling.
    Returns dx, dy in pixel units (signed shifts).
    """
    G1 = torch.fft.fft2(im_ref)
    G2 = torch.fft.fft2(im)

    xy_shift = align_images_fourier_torch(G1, G2, upsample_factor)

    # convert to centered signed shifts as original code
    M, N = im_ref.shape
    dx = ((xy_shift[0] + M / 2) % M) - M / 2
    dy = ((xy_shift[1] + N / 2) % N) - N / 2

    return torch.tensor([dx, dy], device=G1.device)


def align_images_fourier_torch(
    G1: torch.Tensor,
    G2: torch.Tensor,
    upsample_factor: int,
) -> torch.Tensor:
    """
    Alignment using DFT upsampling of cross correlation.
    G1, G2: torch tensors representing FTs of images (complex)
    Returns: xy_shift (tensor length 2)
    """
    device = G1.device
    cc = G1 * G2.conj()
    cc_real = torch.fft.ifft2(cc).real

    # local max (integer)
    flat_idx = torch.argmax(cc_real)
    x0 = (flat_idx // cc_real.shape[1]).to(torch.long).item()
    y0 = (flat_idx % cc_real.shape[1]).to(torch.long).item()

    # half pixel shifts: pick ±1 indices with wrap (mod)
    M, N = cc_real.shape
    x_inds = [((x0 + dx) % M) for dx in (-1, 0, 1)]
    y_inds = [((y0 + dy) % N) for dy in (-1, 0, 1)]

    vx = cc_real[x_inds, y0]
    vy = cc_real[x0, y_inds]

    # parabolic half-pixel refine
    # dx = (vx[2] - vx[0]) / (4*vx[1] - 2*vx[2] - 2*vx[0])
    denom_x = 4.0 * vx[1] - 2.0 * vx[2] - 2.0 * vx[0]
    denom_y = 4.0 * vy[1] - 2.0 * vy[2] - 2.0 * vy[0]
    dx = (vx[2] - vx[0]) / denom_x if denom_x != 0 else torch.tensor(0.0, device=device)
    dy = (vy[2] - vy[0]) / denom_y if denom_y != 0 else torch.tensor(0.0, device=device)

    # round to nearest half-pixel
    x0 = torch.round((x0 + dx) * 2.0) / 2.0
    y0 = torch.round((y0 + dy) * 2.0) / 2.0

    xy_shift = torch.tensor([x0, y0])

    if upsample_factor > 2:
        xy_shift = upsampled_correlation_torch(cc, upsample_factor, xy_shift)

    return xy_shift


def upsampled_correlation_torch(
    imageCorr: torch.Tensor,
    upsampleFactor: int,
    xyShift: torch.Tensor,
) -> torch.Tensor:
    """
    Refine the correlation peak of imageCorr around xyShift by DFT upsampling.

    imageCorr: complex-valued FT-domain cross-correlation (G1 * conj(G2))
    upsampleFactor: integer > 2
    xyShift: 2-element tensor (x,y) in image coords; must be half-pixel precision as described.
    Returns refined xyShift (tensor length 2).
    """

    assert upsampleFactor > 2

    xyShift = torch.round(xyShift * float(upsampleFactor)) / float(upsampleFactor)
    globalShift = torch.floor(torch.ceil(torch.tensor(upsampleFactor * 1.5)) / 2.0)
    upsampleCenter = globalShift - (upsampleFactor * xyShift)

    conj_input = imageCorr.conj()
    im_up = dftUpsample_torch(conj_input, upsampleFactor, upsampleCenter)
    imageCorrUpsample = im_up.conj()

    # find maximum
    # flatten argmax -> unravel to 2D
    flat_idx = torch.argmax(imageCorrUpsample.real)
    # unravel_index
    xySubShift0 = (flat_idx // imageCorrUpsample.shape[1]).to(torch.long)
    xySubShift1 = (flat_idx % imageCorrUpsample.shape[1]).to(torch.long)
    xySubShift = torch.tensor([xySubShift0.item(), xySubShift1.item()])

    # parabolic subpixel refinement
    dx = 0.0
    dy = 0.0
    try:
        # extract 3x3 patch around found peak
        r = xySubShift[0].item()
        c = xySubShift[1].item()
        patch = imageCorrUpsample.real[r - 1 : r + 2, c - 1 : c + 2]
        # if patch is incomplete (near edge) this will raise / have wrong shape -> except
        if patch.shape == (3, 3):
            icc = patch
            # dx corresponds to row direction (vertical axis) as in original code:
            dx = (icc[2, 1] - icc[0, 1]) / (4.0 * icc[1, 1] - 2.0 * icc[2, 1] - 2.0 * icc[0, 1])
            dy = (icc[1, 2] - icc[1, 0]) / (4.0 * icc[1, 1] - 2.0 * icc[1, 2] - 2.0 * icc[1, 0])
            dx = dx.item()
            dy = dy.item()
        else:
            dx, dy = 0.0, 0.0
    except Exception:
        dx, dy = 0.0, 0.0

    # convert xySubShift to zero-centered by subtracting globalShift
    xySubShift = xySubShift.to(dtype=torch.get_default_dtype())
    xySubShift = xySubShift - globalShift.to(xySubShift.dtype)

    xyShift = xyShift + (xySubShift + torch.tensor([dx, dy])) / float(upsampleFactor)

    return xyShift


def dftUpsample_torch(
    imageCorr: torch.Tensor,
    upsampleFactor: int,
    xyShift: torch.Tensor,
) -> torch.Tensor:
    """
    Corrected matrix-multiply DFT upsampling (matches the original numpy dftups).
    Returns the real-valued upsampled correlation patch.

    imageCorr: (M, N) complex tensor (FT-domain cross-correlation)
    upsampleFactor: int > 2
    xyShift: 2-element tensor [x0, y0] giving the (half-pixel-rounded) peak location
             in the UPSAMPLED grid (same convention used elsewhere).
    """
    device = imageCorr.device
    M, N = imageCorr.shape
    pixelRadius = 1.5
    numRow = int(math.ceil(pixelRadius * upsampleFactor))
    numCol = numRow

    # prepare the vectors exactly like the numpy version
    # col: frequency indices (centered) for N
    col_freq = torch.fft.ifftshift(torch.arange(N, device=device)) - math.floor(N / 2)
    # row: frequency indices (centered) for M
    row_freq = torch.fft.ifftshift(torch.arange(M, device=device)) - math.floor(M / 2)

    # small upsample grid coordinates (integer positions in the UPSAMPLED GRID)
    col_coords = torch.arange(numCol, device=device, dtype=torch.get_default_dtype()) - float(
        xyShift[1]
    )
    row_coords = torch.arange(numRow, device=device, dtype=torch.get_default_dtype()) - float(
        xyShift[0]
    )

    # build kernels: note factor signs and denominators match original numpy code
    # colKern: shape (N, numCol)
    factor_col = -2j * math.pi / (N * float(upsampleFactor))
    # outer(col_freq, col_coords) -> shape (N, numCol)
    colKern = torch.exp(factor_col * (col_freq.unsqueeze(1) * col_coords.unsqueeze(0))).to(
        imageCorr.dtype
    )

    # rowKern: shape (numRow, M)
    factor_row = -2j * math.pi / (M * float(upsampleFactor))
    # outer(row_coords, row_freq) -> shape (numRow, M)
    rowKern = torch.exp(factor_row * (row_coords.unsqueeze(1) * row_freq.unsqueeze(0))).to(
        imageCorr.dtype
    )

    # perform the small-matrix DFT: (numRow, M) @ (M, N) @ (N, numCol) -> (numRow, numCol)
    imageUpsample = rowKern @ imageCorr @ colKern

    # original code took xp.real(...) before returning
    return imageUpsample.real
# ------------------------------------------------------------------ END ORIGINAL


def same(a, b, what):
    """Bit-for-bit equality (type, dtype, shape, bytes)."""
    if isinstance(a, tuple):
        assert isinstance(b, tuple) and len(a) == len(b), what
        for i, (x, y) in enumerate(zip(a, b)):
            same(x, y, f"{what}[{i}]")
        return
    if isinstance(a, torch.Tensor):
        assert isinstance(b, torch.Tensor), what
        assert a.dtype == b.dtype and a.shape == b.shape, (what, a.dtype, b.dtype)
        assert a.numpy().tobytes() == b.numpy().tobytes(), (what, a, b)
        return
    a_ = np.asarray(a)
    b_ = np.asarray(b)
    assert type(a) is type(b), (what, type(a), type(b))
    assert a_.dtype == b_.dtype and a_.shape == b_.shape, (what, a_.dtype, b_.dtype)
    assert a_.tobytes() == b_.tobytes(), (what, a, b)


def band_limited(shape, rng, kmax=3):
    """Real band-limited image with a unique autocorrelation peak."""
    M, N = shape
    F = np.zeros(shape, dtype=complex)
    for kx in range(-kmax, kmax + 1):
        for ky in range(-kmax, kmax + 1):
            F[kx % M, ky % N] = rng.normal() + 1j * rng.normal()
    im = np.real(np.fft.ifft2(F))
    return im / np.abs(im).max()


def fourier_shift(im, s):
    """Circular translation by s = (rows, cols): out[x] = im[x - s]."""
    kx = np.fft.fftfreq(im.shape[0])[:, None]
    ky = np.fft.fftfreq(im.shape[1])[None, :]
    return np.real(np.fft.ifft2(np.fft.fft2(im) * np.exp(-2j * np.pi * (kx * s[0] + ky * s[1]))))


def wrap(s, shape):
    s = np.asarray(s, dtype=float)
    h = 0.5 * np.array(shape)
    return (s + h) % shape - h


def wrapped_err(a, b, shape):
    d = np.asarray(a, dtype=float) - np.asarray(b, dtype=float)
    sh = np.array(shape, dtype=float)
    d = (d + 0.5 * sh) % sh - 0.5 * sh
    return np.abs(d).max()


SHAPES = [(16, 16), (17, 23), (32, 20), (15, 15), (24, 31)]
UPS_NP = [1, 2, 3, 4, 8, 16, 64]
UPS_T = [1, 2, 3, 4, 8, 16, 64]


def shifts_for(shape):
    M, N = shape
    return [
        (0, 0),
        (1, 0),
        (0, -1),
        (3, -2),
        (M // 2 - 1, -(N // 2) + 1),
        (M - 2, N - 3),  # beyond half the size
        (0.5, 0.25),
        (-1.3, 2.7),
        (2.125, -3.4),
        (M / 2 + 1.6, -0.8),
    ]


def main():
    rng = np.random.default_rng(13)
    n_cmp = 0

    # ---- direct helper comparisons -------------------------------------------------
    for shape in SHAPES:
        F = np.fft.fft2(band_limited(shape, rng)) * np.conj(np.fft.fft2(band_limited(shape, rng)))
        for up, sh in itertools.product([2, 3, 4, 7, 16, 64], [(0.0, 0.0), (1.5, -2.25), (7.0, 3.5)]):
            same(dft_upsample(F, up, sh), new.dft_upsample(F, up, sh), "dft_upsample")
            n_cmp += 1
        Ft = torch.from_numpy(F)
        for up, sh in itertools.product([3, 4, 7, 16, 64], [(0.0, 0.0), (1.5, -2.0), (7.0, 3.5)]):
            xy = torch.tensor(sh)
            same(
                dftUpsample_torch(Ft, up, xy * up),
                new.dftUpsample_torch(Ft, up, xy * up),
                "dftUpsample_torch",
            )
            same(
                upsampled_correlation_torch(Ft, up, xy),
                new.upsampled_correlation_torch(Ft, up, xy),
                "upsampled_correlation_torch",
            )
            n_cmp += 2
        for up in UPS_T:
            G1 = torch.fft.fft2(torch.from_numpy(band_limited(shape, rng)))
            G2 = torch.fft.fft2(torch.from_numpy(band_limited(shape, rng)))
            same(
                align_images_fourier_torch(G1, G2, up),
                new.align_images_fourier_torch(G1, G2, up),
                "align_images_fourier_torch",
            )
            n_cmp += 1

    # ---- estimators: old == new and the registration property ----------------------
    for shape in SHAPES:
        ref = band_limited(shape, rng)
        for s in shifts_for(shape):
            integer = all(float(v).is_integer() for v in s)
            # translating `im` by s reproduces `ref`
            im = fourier_shift(ref, (-s[0], -s[1]))
            if integer:
                assert np.allclose(im, np.roll(ref, (-int(s[0]), -int(s[1])), axis=(0, 1)), atol=1e-12)
            want = wrap(s, shape)

            for up in UPS_NP:
                for max_shift, fft_in, ret, fft_out in [
                    (None, False, False, False),
                    (None, False, True, False),
                    (None, True, True, True),
                    (None, True, True, False),
                    (max(shape), False, True, False),
                    (3.0, False, False, False),
                ]:
                    a = np.fft.fft2(ref) if fft_in else ref
                    b = np.fft.fft2(im) if fft_in else im
                    kw = dict(
                        upsample_factor=up,
                        max_shift=max_shift,
                        return_shifted_image=ret,
                        fft_input=fft_in,
                        fft_output=fft_out,
                    )
                    o = cross_correlation_shift(a.copy(), b.copy(), **kw)
                    n = new.cross_correlation_shift(a.copy(), b.copy(), **kw)
                    same(o, n, f"cross_correlation_shift {shape} {s} {kw}")
                    n_cmp += 1

                    if max_shift == 3.0:
                        continue  # the true shift may lie outside the search disc
                    got = n[0] if ret else n
                    tol = 1e-6 if integer else (1.0 / up if up > 1 else 0.2)
                    err = wrapped_err(got, want, shape)
                    assert err <= tol, ("numpy shift", shape, s, kw, got, want, err)
                    if ret:
                        aligned = n[1]
                        if fft_out:
                            aligned = np.real(np.fft.ifft2(aligned))
                        exact = fourier_shift(im, got)
                        assert np.allclose(aligned, exact, atol=1e-10), ("aligned image", shape, s, kw)
                        atol = 1e-6 if integer else 2.5 * tol
                        assert np.abs(aligned - ref).max() <= atol, (
                            "aligned vs ref",
                            shape,
                            s,
                            kw,
                            np.abs(aligned - ref).max(),
                        )

                # swapping the two images negates the result
                fwd = new.cross_correlation_shift(ref, im, upsample_factor=up)
                bwd = new.cross_correlation_shift(im, ref, upsample_factor=up)
                tol = 1e-6 if integer else (1.0 / up if up > 1 else 0.2)
                assert wrapped_err(fwd, -np.asarray(bwd), shape) <= 2 * tol, ("swap", shape, s, up)
                # identical images give a zero shift
                z = new.cross_correlation_shift(ref, ref, upsample_factor=up)
                assert np.abs(z).max() <= 1e-6, ("identical", shape, up, z)

            tref = torch.from_numpy(ref)
            tim = torch.from_numpy(im)
            for up in UPS_T:
                o = cross_correlation_shift_torch(tref, tim, up)
                n = new.cross_correlation_shift_torch(tref, tim, up)
                same(o, n, f"cross_correlation_shift_torch {shape} {s} {up}")
                n_cmp += 1
                tol = 1e-5 if integer else (1.0 / up if up > 2 else 0.5)
                err = wrapped_err(n.numpy(), want, shape)
                assert err <= tol, ("torch shift", shape, s, up, n, want, err)
                bwd = new.cross_correlation_shift_torch(tim, tref, up)
                assert wrapped_err(n.numpy(), -bwd.numpy(), shape) <= 2 * tol, ("torch swap", shape, s, up)
                z = new.cross_correlation_shift_torch(tref, tref, up)
                assert float(z.abs().max()) <= 1e-5, ("torch identical", shape, up, z)

            # float32 inputs as used by the direct-ptychography alignment
            tref32, tim32 = tref.float(), tim.float()
            for up in (2, 4, 16):
                same(
                    cross_correlation_shift_torch(tref32, tim32, up),
                    new.cross_correlation_shift_torch(tref32, tim32, up),
                    "cross_correlation_shift_torch f32",
                )
                n_cmp += 1

    print(f"C13 demo OK: {n_cmp} old-vs-new comparisons bit-identical; property asserts passed")


if __name__ == "__main__":
    main()
