"""Old-vs-new equivalence demo for property C04 (direct ptychography).

Embeds VERBATIM copies of the original (pre-edit) implementations of the five
functions touched by the patches

    complex_probe._passively_rotate_grid
    complex_probe.gamma_factor
    ptycho_utils.SimpleBatcher.__iter__
    DirectPtychography._return_upsampled_qgrid
    DirectPtychography.reconstruct

and asserts that the installed tree produces bit-identical results on a spread
of inputs (all kernels, upsampling 1..3, several batch sizes, sub-masks,
rotation angles, aberrations, filters).  It also asserts parts of the property
itself (batch invariance, linearity, analytic zero-aberration parallax limit).

Usage:  PYTHONPATH=<root>/src /venv/bin/python demo.py
"""

import gc
import math
import warnings

import numpy as np
import torch
from tqdm.auto import tqdm

warnings.filterwarnings("ignore")

import quantem.diffractive_imaging.complex_probe as cp
import quantem.diffractive_imaging.direct_ptychography as dpm
from quantem.core.datastructures import Dataset2d, Dataset3d
from quantem.diffractive_imaging.complex_probe import (
    aberration_surface,
    aberration_surface_cartesian_gradients,
    evaluate_probe,
    polar_coordinates,
    spatial_frequencies,
)
from quantem.diffractive_imaging.direct_ptychography import DirectPtychography
from quantem.diffractive_imaging.ptycho_utils import SimpleBatcher

torch.manual_seed(0)
torch.set_num_threads(1)

# reconstruct() calls gc.collect() twice per call; park the (large, static) import-time
# object graph in the permanent generation so those collections stay cheap.
gc.collect()
gc.freeze()


# ----------------------------------------------------------------------------
# verbatim ORIGINAL implementations
# ----------------------------------------------------------------------------
def orig_passively_rotate_grid(
    kxa: torch.Tensor,
    kya: torch.Tensor,
    rotation_angle: float,
):
    """ """

    cos_a = math.cos(-rotation_angle)
    sin_a = math.sin(-rotation_angle)
    kxa, kya = (
        kxa * cos_a + kya * sin_a,
        -kxa * sin_a + kya * cos_a,
    )

    return kxa, kya


def orig_gamma_factor(
    qmks,
    qpks,
    cmplx_probe_at_k,
    wavelength,
    semiangle_cutoff,
    soft_edges,
    aberration_coefs,
    angular_sampling,
    asymmetric_version: bool = True,
    normalize: bool = True,
):
    """ """

    q_m, phi_m = polar_coordinates(*qmks)
    q_p, phi_p = polar_coordinates(*qpks)

    probe_m = evaluate_probe(
        q_m * wavelength,
        phi_m,
        semiangle_cutoff,
        angular_sampling,
        wavelength,
        soft_edges,
        None,
        aberration_coefs,
    )

    probe_p = evaluate_probe(
        q_p * wavelength,
        phi_p,
        semiangle_cutoff,
        angular_sampling,
        wavelength,
        soft_edges,
        None,
        aberration_coefs,
    )

    if asymmetric_version:
        gamma = probe_m * cmplx_probe_at_k.conj() - probe_p.conj() * cmplx_probe_at_k
    else:
        gamma = probe_m * cmplx_probe_at_k.conj() + probe_p.conj() * cmplx_probe_at_k
    if normalize:
        gamma /= gamma.abs().clamp(min=1e-8)
    return gamma


def orig_batcher_iter(self):
    train_order = (
        self.rng.permutation(self.train_indices) if self.shuffle else self.train_indices
    )
    for i in range(0, len(train_order), self.batch_size):
        yield train_order[i : i + self.batch_size]


def orig_return_upsampled_qgrid(
    self,
    upsampling_factor=None,
):
    """
    Assumes integer upsampling factor.
    """

    if upsampling_factor is None:
        scan_gpts = self.scan_gpts
        scan_sampling = self.scan_sampling
    else:
        scan_gpts = tuple(n * upsampling_factor for n in self.scan_gpts)
        scan_sampling = tuple(s / upsampling_factor for s in self.scan_sampling)

    qxa, qya = spatial_frequencies(scan_gpts, scan_sampling, device=self.device)

    return qxa, qya


def orig_reconstruct(
    self,
    bf_mask=None,
    override_aberration_coefs=None,
    upsampling_factor=None,
    override_rotation_angle=None,
    max_batch_size=None,
    deconvolution_kernel="single-sideband",
    q_highpass=None,
    q_lowpass=None,
    butterworth_order=12,
    matched_filter_norm_epsilon=1e-1,
    parallax_flip_phase=True,
    verbose=None,
    use_initial_state=False,
):
    state = self.hyperparameter_state

    if verbose is None:
        verbose = self.verbose

    if use_initial_state:
        if verbose:
            print("Reconstructing with:\n\n", state.summarize(which="initial"))
        aberration_coefs = state.initial_aberrations
        rotation_angle = state.initial_rotation_angle
    else:
        if verbose:
            print(
                "Reconstructing with:\n\n",
                state.summarize(
                    which="current",
                    override_aberration_coefs=override_aberration_coefs,
                    override_rotation_angle=override_rotation_angle,
                ),
            )
        aberration_coefs = state.current_aberrations(override_aberration_coefs)
        rotation_angle = state.current_rotation_angle(override_rotation_angle)

    if upsampling_factor is None:
        upsampling_factor = 1
    upsampling_factor = math.ceil(upsampling_factor)

    if bf_mask is None:
        bf_mask = self.bf_mask
    bf = self._return_bf_context(bf_mask)

    num_bf = bf.num_bf
    bf_mask = bf.bf_mask
    vbf_index_mapping = bf.vbf_index_mapping

    if max_batch_size is None:
        max_batch_size = num_bf

    deconvolution_kernel = self._normalize_kernel_name(deconvolution_kernel)

    # Get upsampled q-space grid
    qxa, qya = self._return_upsampled_qgrid(upsampling_factor)
    q, theta = polar_coordinates(qxa, qya)

    # Get k-space grid
    kxa, kya = spatial_frequencies(
        self.gpts, self.sampling, rotation_angle=rotation_angle, device=self.device
    )
    k, phi = polar_coordinates(kxa, kya)

    # compute global / cheap functions for prlx
    if deconvolution_kernel == "prlx":
        dx, dy = aberration_surface_cartesian_gradients(
            k * self.wavelength,
            phi,
            aberration_coefs=aberration_coefs,
        )
        grad_k = torch.stack((dx[bf_mask], dy[bf_mask]), -1)

        if parallax_flip_phase:
            chi_q = aberration_surface(
                q * self.wavelength,
                theta,
                self.wavelength,
                aberration_coefs=aberration_coefs,
            )
            sign_sin_chi_q = torch.sign(torch.sin(chi_q))
        else:
            sign_sin_chi_q = torch.ones_like(q)
    else:
        grad_k = None
        sign_sin_chi_q = None

    # compute global / cheap functions for all
    cmplx_probe_k = evaluate_probe(
        k * self.wavelength,
        phi,
        self.semiangle_cutoff,
        self.angular_sampling,
        self.wavelength,
        aberration_coefs=aberration_coefs,
    )
    BF_weights = cmplx_probe_k[bf_mask].abs().square().sum()

    butterworth_env = torch.ones_like(q)
    if q_lowpass:
        butterworth_env *= 1 / (1 + (q / q_lowpass) ** (2 * butterworth_order))
    if q_highpass:
        butterworth_env *= 1 - 1 / (1 + (q / q_highpass) ** (2 * butterworth_order))

    # Process batches
    pbar = tqdm(range(num_bf), disable=not verbose)
    batcher = SimpleBatcher(num_bf, batch_size=max_batch_size, shuffle=False, rng=self.rng)

    fourier_factor = torch.empty(
        (num_bf,) + qxa.shape, device=self.device, dtype=torch.complex64
    )
    if deconvolution_kernel in ("obf", "mf"):
        power = torch.zeros(qxa.shape, device=self.device)
    else:
        power = None

    # first pass
    for batch_idx in batcher:
        mapped_idx = vbf_index_mapping[batch_idx]
        vbf_fourier = self._vbf_fourier[mapped_idx]

        # Fourier-space tiling
        vbf_fourier = torch.cat(
            [torch.cat([vbf_fourier] * upsampling_factor, dim=-1)] * upsampling_factor,
            dim=-2,
        )

        num, pow = self._return_kernel_contributions(
            bf,
            deconvolution_kernel,
            vbf_fourier,
            kxa,
            kya,
            qxa,
            qya,
            cmplx_probe_k,
            grad_k,
            sign_sin_chi_q,
            aberration_coefs,
            batch_idx,
        )
        if power is None:
            num *= butterworth_env
            # num[:, 0, 0] = self._dc_per_image

            fourier_factor[batch_idx] = torch.fft.ifft2(num)
        else:
            fourier_factor[batch_idx] = num
            power += pow

        pbar.update(len(batch_idx))
    pbar.close()

    if power is not None:
        power /= BF_weights

        if deconvolution_kernel == "obf":
            norm = power.sqrt().clamp_min(1e-8)
        elif deconvolution_kernel == "mf":
            norm = (power + matched_filter_norm_epsilon * power.max()).clamp_min(1e-8)

        # second pass
        for batch_idx in batcher:
            ff = fourier_factor[batch_idx]

            if power is not None:
                ff /= norm

            ff *= butterworth_env
            # ff[:, 0, 0] = self._dc_per_image

            fourier_factor[batch_idx] = torch.fft.ifft2(ff)

    self.corrected_stack = fourier_factor.real / BF_weights

    # memory management
    gc.collect()
    torch.cuda.empty_cache()
    if hasattr(torch, "mps") and torch.backends.mps.is_available():
        torch.mps.empty_cache()
    gc.collect()

    return self


# ----------------------------------------------------------------------------
# helpers
# ----------------------------------------------------------------------------
def bit_equal(a: torch.Tensor, b: torch.Tensor) -> bool:
    if a.dtype != b.dtype or a.shape != b.shape:
        return False
    a = a.resolve_conj() if a.is_complex() else a
    b = b.resolve_conj() if b.is_complex() else b
    an = a.contiguous().cpu().numpy()
    bn = b.contiguous().cpu().numpy()
    return an.tobytes() == bn.tobytes()


def make_dp(scan_shape, det=12, radius=2.3, rotation=0.0, abers=None, seed=0, stack=None):
    n = det
    fx = np.fft.fftfreq(n, 1 / n)
    ii, jj = np.meshgrid(fx, fx, indexing="ij")
    mask = (ii**2 + jj**2) <= radius**2  # corner-centred disc
    num_bf = int(mask.sum())
    rng = np.random.default_rng(seed)
    if stack is None:
        stack = 1.0 + 0.1 * rng.standard_normal((num_bf,) + tuple(scan_shape))
    vbf = Dataset3d.from_array(
        stack.astype(np.float32),
        name="vbf",
        units=("index", "A", "A"),
        sampling=(1, 0.4, 0.5),
    )
    msk = Dataset2d.from_array(
        mask,
        name="mask",
        units=("mrad", "mrad"),
        sampling=(5.0, 5.0),
    )
    dp = DirectPtychography.from_virtual_bfs(
        vbf,
        msk,
        energy=80e3,
        rotation_angle=rotation,
        aberration_coefs=dict(abers or {}),
        semiangle_cutoff=12.0,
        rng=0,
        device="cpu",
        verbose=False,
    )
    return dp, stack


# ----------------------------------------------------------------------------
# 1. _passively_rotate_grid  (old == new)
# ----------------------------------------------------------------------------
def check_rotate_grid():
    n = 0
    for gpts in [(4, 4), (5, 7), (8, 3), (1, 6)]:
        for samp in [(0.3, 0.3), (0.21, 0.47)]:
            kx, ky = spatial_frequencies(gpts, samp)
            for ang in [0.0, 0.1, -0.7, math.pi / 2, math.pi, 3.3, -17.0, 1e-9]:
                o = orig_passively_rotate_grid(kx, ky, ang)
                m = cp._passively_rotate_grid(kx, ky, ang)
                assert bit_equal(o[0], m[0]) and bit_equal(o[1], m[1]), (gpts, samp, ang)
                # inputs untouched (no aliasing / in-place writes)
                kx2, ky2 = spatial_frequencies(gpts, samp)
                assert bit_equal(kx, kx2) and bit_equal(ky, ky2)
                # via the public entry
                p = spatial_frequencies(gpts, samp, rotation_angle=ang)
                assert bit_equal(o[0], p[0]) and bit_equal(o[1], p[1])
                n += 1
    # random dense tensors, float64 as well
    g = torch.Generator().manual_seed(1)
    for dt in (torch.float32, torch.float64):
        a = torch.randn(6, 5, generator=g, dtype=dt)
        b = torch.randn(6, 5, generator=g, dtype=dt)
        for ang in [0.37, -2.2]:
            o = orig_passively_rotate_grid(a, b, ang)
            m = cp._passively_rotate_grid(a, b, ang)
            assert bit_equal(o[0], m[0]) and bit_equal(o[1], m[1])
            n += 1
    return n


# ----------------------------------------------------------------------------
# 2. gamma_factor  (old == new)
# ----------------------------------------------------------------------------
def check_gamma_factor():
    n = 0
    g = torch.Generator().manual_seed(2)
    wavelength = 0.0418
    for shape in [(5, 6), (8, 8)]:
        qx, qy = spatial_frequencies(shape, (0.4, 0.5))
        for nb in (1, 3):
            kx = (torch.randn(nb, 1, 1, generator=g) * 0.1).to(torch.float32)
            ky = (torch.randn(nb, 1, 1, generator=g) * 0.1).to(torch.float32)
            amp = torch.rand(nb, 1, 1, generator=g)
            ph = torch.randn(nb, 1, 1, generator=g)
            probe_k = (amp * torch.exp(1j * ph)).to(torch.complex64)
            qm = (qx.unsqueeze(0) - kx, qy.unsqueeze(0) - ky)
            qp = (qx.unsqueeze(0) + kx, qy.unsqueeze(0) + ky)
            for abers in [
                {},
                {"C10": torch.tensor(150.0)},
                {"C10": torch.tensor(-80.0), "C12": torch.tensor(30.0), "phi12": torch.tensor(0.4)},
            ]:
                for soft in (True, False):
                    for asym in (True, False):
                        for norm in (True, False):
                            args = (qm, qp, probe_k, wavelength, 20.0, soft)
                            kw = dict(
                                aberration_coefs=abers,
                                angular_sampling=(2.0, 2.5),
                                asymmetric_version=asym,
                                normalize=norm,
                            )
                            o = orig_gamma_factor(*args, **kw)
                            m = cp.gamma_factor(*args, **kw)
                            assert o.dtype == m.dtype == torch.complex64
                            assert o.is_conj() == m.is_conj()
                            assert bit_equal(o, m), (shape, nb, soft, asym, norm)
                            n += 1
    return n


# ----------------------------------------------------------------------------
# 3. SimpleBatcher.__iter__  (old == new)
# ----------------------------------------------------------------------------
def check_batcher():
    n = 0
    for num in (1, 2, 7, 13):
        for bs in (1, 2, 3, 5, num, num + 4, None):
            for shuffle in (False, True):
                b_old = SimpleBatcher(num, batch_size=bs, shuffle=shuffle, rng=5)
                b_new = SimpleBatcher(num, batch_size=bs, shuffle=shuffle, rng=5)
                for _epoch in range(2):
                    o = [np.array(x) for x in orig_batcher_iter(b_old)]
                    m = [np.array(x) for x in iter(b_new)]
                    assert len(o) == len(m) == len(b_new)
                    for x, y in zip(o, m):
                        assert x.dtype == y.dtype and np.array_equal(x, y)
                    if not shuffle:
                        assert np.array_equal(np.concatenate(m), np.arange(num))
                    else:
                        assert np.array_equal(np.sort(np.concatenate(m)), np.arange(num))
                    n += 1
    # with a validation split
    b_old = SimpleBatcher(20, batch_size=4, shuffle=True, rng=3, val_ratio=0.25)
    b_new = SimpleBatcher(20, batch_size=4, shuffle=True, rng=3, val_ratio=0.25)
    o = [np.array(x) for x in orig_batcher_iter(b_old)]
    m = [np.array(x) for x in b_new]
    assert len(o) == len(m) and all(np.array_equal(x, y) for x, y in zip(o, m))
    # __iter__ stays a generator function: laziness (rng only consumed on first next)
    b = SimpleBatcher(5, batch_size=2, shuffle=True, rng=11)
    ref = np.random.default_rng(11)
    it = iter(b)
    first_draw = b.rng.random()  # consumed BEFORE the permutation is drawn
    assert first_draw == ref.random()
    assert np.array_equal(np.concatenate(list(it)), ref.permutation(np.arange(5)))
    return n + 2


# ----------------------------------------------------------------------------
# 4. _return_upsampled_qgrid  (old == new)
# ----------------------------------------------------------------------------
def check_qgrid(dps):
    n = 0
    for dp in dps:
        for up in (None, 1, 2, 3, 4):
            o = orig_return_upsampled_qgrid(dp, up)
            m = dp._return_upsampled_qgrid(up)
            assert bit_equal(o[0], m[0]) and bit_equal(o[1], m[1]), up
            if up is not None:
                assert tuple(m[0].shape) == tuple(s * up for s in dp.scan_gpts)
            n += 1
        # same failure mode for a non-numeric factor
        errs = []
        for f in (lambda: orig_return_upsampled_qgrid(dp, "a"), lambda: dp._return_upsampled_qgrid("a")):
            try:
                f()
                errs.append(None)
            except Exception as e:  # noqa: BLE001
                errs.append(type(e))
        assert errs[0] is errs[1] and errs[0] is not None
    return n


# ----------------------------------------------------------------------------
# 5. reconstruct  (old == new, plus property checks)
# ----------------------------------------------------------------------------
KERNELS = ["ssb", "obf", "mf", "prlx", "icom"]
ALIASES = ["acbf", "optimum-bright-field", "Matched-Filter", "tcbf", "center-of-mass"]


def check_reconstruct():
    n = 0
    configs = [
        dict(scan_shape=(6, 6), rotation=0.0, abers={}),
        dict(scan_shape=(7, 5), rotation=0.3, abers={"C10": 120.0}),
        dict(scan_shape=(5, 8), rotation=-1.1, abers={"C10": -60.0, "C12": 25.0, "phi12": 0.5}),
    ]
    dps = []
    for ci, cfg in enumerate(configs):
        dp, stack = make_dp(seed=ci, **cfg)
        dps.append(dp)
        nb = dp.num_bf
        full = dp.bf_mask.clone()
        sub = full.clone()
        idx = torch.nonzero(full)
        for r in idx[::3]:
            sub[r[0], r[1]] = False
        for kernel in KERNELS + ALIASES:
            for up in (1, 2, 3) if ci == 0 else (1, 2):
                for bs in (None, 1, 4, nb):
                    for mask in (None, sub):
                        if mask is not None and bs in (None,) and up == 3:
                            continue
                        kw = dict(
                            bf_mask=mask,
                            upsampling_factor=up,
                            max_batch_size=bs,
                            deconvolution_kernel=kernel,
                            verbose=False,
                        )
                        if ci == 1:
                            kw.update(q_lowpass=0.9, q_highpass=0.05, butterworth_order=4)
                        if ci == 2:
                            kw.update(parallax_flip_phase=False, matched_filter_norm_epsilon=0.03)
                        old = orig_reconstruct(dp, **kw).corrected_stack.clone()
                        new = dp.reconstruct(**kw).corrected_stack.clone()
                        assert old.dtype == new.dtype == torch.float32
                        assert bit_equal(old, new), (ci, kernel, up, bs, mask is not None)
                        assert bit_equal(old.sum(0), dp.corrected_bf)
                        n += 1

    # --- normalisation floor actually engaged (mf with epsilon = 0, obf) ------
    dp, _ = make_dp((40, 36), rotation=0.15, abers={"C10": 40.0}, seed=5)
    for kernel, eps in (("mf", 0.0), ("mf", 1e-9), ("obf", 0.0)):
        for bs in (None, 3):
            kw = dict(
                deconvolution_kernel=kernel,
                matched_filter_norm_epsilon=eps,
                max_batch_size=bs,
                verbose=False,
            )
            old = orig_reconstruct(dp, **kw).corrected_stack.clone()
            new = dp.reconstruct(**kw).corrected_stack.clone()
            assert bit_equal(old, new), (kernel, eps, bs)
            n += 1

    # --- property: batch invariance and linearity (new code) ----------------
    dp, stack = make_dp((6, 7), rotation=0.2, abers={"C10": 90.0}, seed=7)
    nb = dp.num_bf
    rng = np.random.default_rng(8)
    stack_b = 1.0 + 0.1 * rng.standard_normal(stack.shape)
    dp_b, _ = make_dp((6, 7), rotation=0.2, abers={"C10": 90.0}, stack=stack_b)
    dp_c, _ = make_dp((6, 7), rotation=0.2, abers={"C10": 90.0}, stack=2.0 * stack - 0.5 * stack_b)
    for kernel in KERNELS:
        for up in (1, 2):
            kw = dict(upsampling_factor=up, deconvolution_kernel=kernel, verbose=False)
            ref = dp.reconstruct(max_batch_size=None, **kw).corrected_stack.clone()
            scale = max(float(ref.abs().max()), 1e-12)
            for bs in range(1, nb + 1):
                out = dp.reconstruct(max_batch_size=bs, **kw).corrected_stack
                assert float((out - ref).abs().max()) <= 2e-4 * scale, (kernel, up, bs)
                n += 1
            rb = dp_b.reconstruct(**kw).corrected_stack
            rc = dp_c.reconstruct(**kw).corrected_stack
            lin = 2.0 * ref - 0.5 * rb
            assert float((rc - lin).abs().max()) <= 2e-3 * max(float(lin.abs().max()), 1e-12), (
                kernel,
                up,
            )
            n += 1

    # --- property: analytic zero-aberration parallax ------------------------
    dp, stack = make_dp((7, 6), rotation=0.4, abers={}, seed=9)
    out = dp.reconstruct(
        deconvolution_kernel="parallax", parallax_flip_phase=False, verbose=False
    ).corrected_bf
    kxa, kya = spatial_frequencies(dp.gpts, dp.sampling, rotation_angle=0.4)
    k, phi = polar_coordinates(kxa, kya)
    probe = evaluate_probe(
        k * dp.wavelength, phi, dp.semiangle_cutoff, dp.angular_sampling, dp.wavelength
    )
    w = probe[dp.bf_mask].abs().square().sum()
    st = dp.vbf_stack
    expect = (st - st.mean(dim=(-2, -1), keepdim=True)).sum(0) / w
    assert float((out - expect).abs().max()) <= 1e-4 * max(float(expect.abs().max()), 1e-12)
    n += 1
    return n, dps


def main():
    n1 = check_rotate_grid()
    n2 = check_gamma_factor()
    n3 = check_batcher()
    n5, dps = check_reconstruct()
    n4 = check_qgrid(dps)
    print(
        f"OK rotate_grid={n1} gamma_factor={n2} batcher={n3} qgrid={n4} reconstruct={n5} "
        "cases, all bit-identical to the embedded originals"
    )


if __name__ == "__main__":
    main()
