"""C03 demo: Dataset containers stay coherent under any history of operations.

The script embeds VERBATIM copies of the original (worktree HEAD) implementations of
    Dataset.crop, Dataset.bin, Dataset.fourier_resample, Dataset.__getitem__
    validators.validate_units
and checks, on a spread of dimensionalities / dtypes / shapes / arguments and on random
operation histories, that the implementation found on PYTHONPATH produces bit-identical
results (data bytes, dtype, shape, origin, sampling, units, name, class, raised exception
type and message, and the state left in the source object).  In addition the C03 property
itself is asserted on everything the current implementation returns.

Usage:  PYTHONPATH=<root>/src /venv/bin/python demo.py
"""

import numbers
import random
import warnings
from typing import Optional, Self, Union

import numpy as np

from quantem.core.datastructures.dataset import Dataset
from quantem.core.datastructures.dataset2d import Dataset2d
from quantem.core.datastructures.dataset3d import Dataset3d
from quantem.core.datastructures.dataset4d import Dataset4d
from quantem.core.datastructures.dataset4dstem import Dataset4dstem
from quantem.core.utils import validators as V

# --------------------------------------------------------------------------------------
# verbatim originals
# --------------------------------------------------------------------------------------


def orig_validate_units(value: Union[list[str], tuple, list, str], ndim: int) -> list[str]:
    if isinstance(value, str):
        return [value] * ndim
    elif not isinstance(value, (list, tuple)):
        raise TypeError(f"Units must be a list, tuple, or string, got {type(value)}")
    elif len(value) != ndim:
        raise ValueError(f"Length of units ({len(value)}) must match data ndim ({ndim})")

    return [str(unit) for unit in value]


def orig_crop(
    self,
    crop_widths: tuple[tuple[int, int], ...],
    axes: tuple | None = None,
    modify_in_place: bool = False,
) -> Self | None:
    if axes is None:
        if len(crop_widths) != self.ndim:
            raise ValueError("crop_widths must match number of dimensions when axes is None.")
        axes = tuple(range(self.ndim))
    elif isinstance(axes, int | float):
        axes = (int(axes),)
        crop_widths = (crop_widths[0],)  # Take first crop_width for single axis
    else:
        axes = tuple(int(a) for a in axes)

    if len(crop_widths) != len(axes):
        raise ValueError("Length of crop_widths must match length of axes.")

    full_slices = []
    crop_dict = dict(zip(axes, crop_widths))
    for axis, _ in enumerate(self.shape):
        if axis in crop_dict:
            before, after = crop_dict[axis]
            start = before
            stop = after if after != 0 else None
            full_slices.append(slice(start, stop))
        else:
            full_slices.append(slice(None))

    if modify_in_place is False:
        dataset = self.copy()
        dataset.array = dataset.array[tuple(full_slices)]
        return dataset

    self.array = self.array[tuple(full_slices)]
    return None


def orig_bin(
    self,
    bin_factors,
    axes=None,
    modify_in_place: bool = False,
    reducer: str = "sum",
) -> Self | None:
    reducer_norm = str(reducer).lower()
    if reducer_norm not in ("sum", "mean"):
        raise ValueError("reducer must be 'sum' or 'mean'")

    if axes is None:
        axes = tuple(range(self.ndim))
    elif isinstance(axes, int | float):
        axes = (int(axes),)
    else:
        axes = tuple(int(ax) for ax in axes)

    if isinstance(bin_factors, numbers.Integral):
        bin_factors = (int(bin_factors),) * len(axes)
    elif isinstance(bin_factors, (list, tuple)):
        if len(bin_factors) != len(axes):
            raise ValueError("bin_factors and axes must have the same length.")
        for fac in bin_factors:
            if not isinstance(fac, numbers.Integral):
                raise TypeError(f"Each bin factor must be an integer, got {fac!r}")
        bin_factors = tuple(int(fac) for fac in bin_factors)
    else:
        raise TypeError("bin_factors must be an int or tuple of ints.")

    if any(fac <= 0 for fac in bin_factors):
        raise ValueError("All bin factors must be positive integers.")

    axis_to_factor = dict(zip(axes, bin_factors))

    slices = []
    effective_lengths = []
    for a0 in range(self.ndim):
        if a0 in axis_to_factor:
            fac = axis_to_factor[a0]
            length_eff = (self.shape[a0] // fac) * fac
            slices.append(slice(0, length_eff))
            effective_lengths.append(length_eff)
        else:
            slices.append(slice(None))
            effective_lengths.append(self.shape[a0])

    reshape_dims = []
    reduce_axes = []
    running_axis = 0
    for a1 in range(self.ndim):
        if a1 in axis_to_factor:
            fac = axis_to_factor[a1]
            nblocks = effective_lengths[a1] // fac
            reshape_dims.extend([nblocks, fac])
            reduce_axes.append(running_axis + 1)
            running_axis += 2
        else:
            reshape_dims.append(effective_lengths[a1])
            running_axis += 1

    array_view = self.array[tuple(slices)].reshape(tuple(reshape_dims))
    array_binned = np.sum(array_view, axis=tuple(reduce_axes))
    if reducer_norm == "mean":
        block_volume = 1
        for fac_b in axis_to_factor.values():
            block_volume *= fac_b
        array_binned = array_binned / block_volume

    new_sampling = self.sampling.astype(float).copy()
    new_origin = self.origin.astype(float).copy()
    for ax_binned, fac_binned in axis_to_factor.items():
        old_sampling = new_sampling[ax_binned]
        new_sampling[ax_binned] = old_sampling * fac_binned
        new_origin[ax_binned] = new_origin[ax_binned] + 0.5 * (fac_binned - 1) * old_sampling

    if modify_in_place:
        self._array = array_binned
        self._sampling = new_sampling
        self._origin = new_origin
        return None

    dataset = self.copy()
    dataset.array = array_binned
    dataset.sampling = new_sampling
    dataset.origin = new_origin

    factors_str = " ".join(
        f"{axis_to_factor[a2]:.3g}" if a2 in axis_to_factor else "1" for a2 in range(self.ndim)
    )
    suffix = f"(binned factors {factors_str}" + (", mean)" if reducer_norm == "mean" else ")")
    dataset.name = f"{self.name} {suffix}"
    return dataset


def orig_fourier_resample(
    self,
    out_shape: Optional[tuple[int, ...]] = None,
    factors: Optional[Union[float, tuple[float, ...]]] = None,
    axes: Optional[tuple[int, ...]] = None,
    modify_in_place: bool = False,
) -> Optional["Dataset"]:
    if axes is None:
        axes = tuple(range(self.ndim))
    elif isinstance(axes, int | float):
        axes = (int(axes),)
    else:
        axes = tuple(int(a0) for a0 in axes)

    if (out_shape is None) == (factors is None):
        raise ValueError("Specify exactly one of out_shape or factors.")

    # Resolve out_shape & factors
    if factors is not None:
        if isinstance(factors, int | float):
            factors = (float(factors),) * len(axes)
        else:
            factors = tuple(float(f) for f in factors)
            if len(factors) != len(axes):
                raise ValueError("factors length must match number of axes.")
        out_shape = tuple(
            max(1, int(round(self.shape[a1] * f))) for a1, f in zip(axes, factors)
        )
    else:
        assert out_shape is not None  # Guaranteed by check above
        if len(out_shape) != len(axes):
            raise ValueError("out_shape length must match number of axes.")
        out_shape = tuple(int(nl) for nl in out_shape)
        factors = tuple(out_len / self.shape[a2] for a2, out_len in zip(axes, out_shape))

    if any(nl < 1 for nl in out_shape):
        raise ValueError("All output lengths must be >= 1.")

    def _shift_center_index(n: int) -> int:
        # index of DC after fftshift: n//2 for even, (n-1)//2 for odd
        return n // 2 if (n % 2 == 0) else (n - 1) // 2

    # Forward FFT (default normalization: forward unscaled, inverse 1/N)
    F = np.fft.fftn(self.array, axes=axes)
    F = np.fft.fftshift(F, axes=axes)

    # Center-aligned crop/pad per axis (so DC stays centered)
    axis_to_outlen = dict(zip(axes, out_shape))
    slices: list[slice] = []
    pad_specs: list[tuple[int, int]] = []
    for a3 in range(self.ndim):
        if a3 in axis_to_outlen:
            old_len = self.shape[a3]
            new_len = axis_to_outlen[a3]
            oc = _shift_center_index(old_len)
            nc = _shift_center_index(new_len)

            if new_len < old_len:
                start = oc - nc
                end = start + new_len
                slices.append(slice(start, end))
                pad_specs.append((0, 0))
            elif new_len > old_len:
                slices.append(slice(None))
                before = nc - oc
                after = new_len - old_len - before
                pad_specs.append((before, after))
            else:
                slices.append(slice(None))
                pad_specs.append((0, 0))
        else:
            slices.append(slice(None))
            pad_specs.append((0, 0))

    F_rs = F[tuple(slices)]
    if any(pw != (0, 0) for pw in pad_specs):
        F_rs = np.pad(F_rs, pad_specs, mode="constant")

    # Inverse FFT
    F_rs = np.fft.ifftshift(F_rs, axes=axes)
    array_resampled = np.fft.ifftn(F_rs, axes=axes)

    if np.isrealobj(self.array):
        array_resampled = array_resampled.real

    # Mean preservation with default FFTs:
    # ones -> F(0)=N_in, IFFT size N_out -> constant N_in/N_out; multiply by N_out/N_in.
    N_in = int(np.prod([self.shape[a4] for a4 in axes]))
    N_out = int(np.prod([axis_to_outlen[a5] for a5 in axes]))
    if N_in > 0 and N_out > 0:
        array_resampled *= N_out / N_in

    # Metadata (ensure float arrays to avoid truncation)
    new_sampling = self.sampling.astype(float).copy()
    for a6, out_len in zip(axes, out_shape):
        fac_actual = out_len / self.shape[a6]
        new_sampling[a6] = new_sampling[a6] / fac_actual

    new_origin = self.origin.astype(float).copy()
    for a7, out_len in zip(axes, out_shape):
        old_len = self.shape[a7]
        old_center_idx = (old_len - 1) / 2.0
        new_center_idx = (out_len - 1) / 2.0
        old_sampling = self.sampling[a7]
        new_origin[a7] = (
            self.origin[a7] + old_center_idx * old_sampling - new_center_idx * new_sampling[a7]
        )

    if modify_in_place:
        self._array = array_resampled
        self._sampling = new_sampling
        self._origin = new_origin
        return None

    ds = self.copy()
    ds.array = array_resampled
    ds.sampling = new_sampling
    ds.origin = new_origin
    return ds


def orig_getitem(self, index) -> Self:
    array_view = self.array[index]

    # Normalize index into tuple form
    if not isinstance(index, tuple):
        index = (index,)

    # Expand Ellipsis
    if Ellipsis in index:
        ellipsis_pos = index.index(Ellipsis)
        num_missing = self.ndim - (len(index) - 1)
        index = index[:ellipsis_pos] + (slice(None),) * num_missing + index[ellipsis_pos + 1 :]

    # Pad with slices if index shorter than ndim
    if len(index) < self.ndim:
        index = index + (slice(None),) * (self.ndim - len(index))

    # Compute which dimensions are kept
    kept_axes = [i for i, idx in enumerate(index) if not isinstance(idx, (int, np.integer))]

    # Slice/reduce metadata accordingly
    new_origin = (
        np.asarray(self.origin)[kept_axes] if np.ndim(self.origin) > 0 else self.origin
    )
    new_sampling = (
        np.asarray(self.sampling)[kept_axes] if np.ndim(self.sampling) > 0 else self.sampling
    )
    new_units = [self.units[i] for i in kept_axes] if len(self.units) > 0 else self.units

    # Adjust sampling for slice steps (e.g. [::2] doubles spacing)
    for i, idx in enumerate(index):
        if isinstance(idx, slice) and idx.step not in (None, 1):
            if i in kept_axes:
                j = kept_axes.index(i)
                new_sampling[j] *= idx.step

    out_ndim = array_view.ndim

    if out_ndim == self.ndim:
        cls = type(self)
    else:
        try:
            cls = self._registry[out_ndim]
        except KeyError:
            cls = Dataset

    # Construct new dataset
    return cls.from_array(  # type: ignore ## would be nice to properly type slicing, but hard
        array=array_view,
        name=f"{self.name}{index}",
        origin=new_origin,
        sampling=new_sampling,
        units=new_units,
        signal_units=self.signal_units,
    )


# --------------------------------------------------------------------------------------
# helpers
# --------------------------------------------------------------------------------------

REG = {2: Dataset2d, 3: Dataset3d, 4: Dataset4d}
UNIT_NAMES = ["nm", "A", "mrad", "s", "eV"]
N_CHECKS = 0


def snap(ds):
    """Bit-exact observable state of a dataset."""
    return (
        type(ds).__name__,
        ds.array.dtype.str,
        tuple(ds.array.shape),
        ds.array.tobytes(),
        ds.origin.dtype.str,
        ds.origin.tobytes(),
        ds.sampling.dtype.str,
        ds.sampling.tobytes(),
        tuple(ds.units),
        ds.name,
        ds.signal_units,
    )


def coherent(ds, strict=True):
    """The per-object half of C03."""
    n = ds.array.ndim
    assert ds.ndim == n and ds.shape == ds.array.shape
    assert isinstance(ds.origin, np.ndarray) and ds.origin.shape == (n,), (ds.origin, n)
    assert isinstance(ds.sampling, np.ndarray) and ds.sampling.shape == (n,), (ds.sampling, n)
    assert isinstance(ds.units, list) and len(ds.units) == n, (ds.units, n)
    assert all(isinstance(u, str) for u in ds.units)
    if not strict:  # history started from the generic class on a registered ndim
        assert isinstance(ds, Dataset)
    elif n in REG:
        assert isinstance(ds, REG[n]), (type(ds), n)
    else:
        assert type(ds) is Dataset, (type(ds), n)


def make_array(rng, shape, dtype):
    dt = np.dtype(dtype)
    if dt.kind == "c":
        a = rng.normal(size=shape) + 1j * rng.normal(size=shape)
    elif dt.kind == "f":
        a = rng.normal(size=shape) * 10
    else:
        a = rng.integers(0, 100, size=shape)
    return a.astype(dt)


def make_ds(rng, shape, dtype, cls=None, int_meta=False):
    n = len(shape)
    arr = make_array(rng, shape, dtype)
    if int_meta:
        origin = [int(v) for v in rng.integers(-5, 6, size=n)]
        sampling = [int(v) for v in rng.integers(1, 5, size=n)]
    else:
        origin = rng.normal(size=n) * 3
        sampling = rng.uniform(0.1, 2.5, size=n)
    units = [UNIT_NAMES[i % len(UNIT_NAMES)] + str(i) for i in range(n)]
    if cls is None:
        cls = REG.get(n, Dataset)
    return cls.from_array(
        arr, name=f"ds{n}", origin=origin, sampling=sampling, units=units, signal_units="e"
    )


def outcome(fn, ds, *args, **kwargs):
    """Run fn(ds, ...) on a private copy; report result + state left behind, bit-exactly."""
    global N_CHECKS
    N_CHECKS += 1
    work = ds.copy()
    with warnings.catch_warnings():
        warnings.simplefilter("ignore")
        try:
            out = fn(work, *args, **kwargs)
        except Exception as e:  # noqa: BLE001
            return ("err", type(e).__name__, str(e), snap(work)), None, work
    return ("ok", None if out is None else snap(out), snap(work)), out, work


def same(old_fn, new_fn, ds, *args, **kwargs):
    before = snap(ds)
    r_old, _, _ = outcome(old_fn, ds, *args, **kwargs)
    r_new, out, work = outcome(new_fn, ds, *args, **kwargs)
    assert r_old == r_new, (old_fn.__name__, args, kwargs, r_old[:2], r_new[:2])
    assert snap(ds) == before
    if r_new[0] == "ok":
        strict = not (type(ds) is Dataset and ds.ndim in REG)
        coherent(work, strict)
        if out is not None:
            coherent(out, strict)
    return r_new, out, work


def copy_vs_inplace(new_fn, ds, *args, **kwargs):
    """Copying variant leaves the source untouched and agrees with the in-place variant."""
    r_c, out, work_c = outcome(new_fn, ds, *args, modify_in_place=False, **kwargs)
    r_i, none, work_i = outcome(new_fn, ds, *args, modify_in_place=True, **kwargs)
    assert r_c[0] == r_i[0], (r_c[:3], r_i[:3])
    if r_c[0] == "ok":
        assert none is None and out is not None
        assert snap(work_c) == snap(ds)  # source bit-identical
        a, b = snap(out), snap(work_i)
        # everything except the (decorated) name must agree
        assert a[:9] == b[:9] and a[10] == b[10], (a[:3], b[:3])


# --------------------------------------------------------------------------------------
# checks
# --------------------------------------------------------------------------------------


def check_validate_units():
    class Odd:
        def __str__(self):
            return "odd"

    values = [
        "nm",
        "",
        [],
        (),
        ["a"],
        ("a",),
        ["a", "b"],
        ("a", "b", "c"),
        ["a", 1, 2.5],
        [None, Odd()],
        [["x"], ("y",)],
        None,
        3,
        2.5,
        np.array(["a", "b"]),
        {"a": 1},
        {"a", "b"},
        b"nm",
        range(2),
        (u for u in "ab"),
    ]
    for ndim in range(0, 6):
        for v in values:
            res = []
            for fn in (orig_validate_units, V.validate_units):
                try:
                    r = fn(v, ndim)
                    res.append(("ok", type(r).__name__, r, [type(u).__name__ for u in r]))
                except Exception as e:  # noqa: BLE001
                    res.append(("err", type(e).__name__, str(e)))
            assert res[0] == res[1], (v, ndim, res)
            if res[1][0] == "ok":
                assert len(res[1][2]) == ndim
    # result is a fresh list (no aliasing of the caller's list) in both versions
    src = ["a", "b"]
    assert V.validate_units(src, 2) is not src and orig_validate_units(src, 2) is not src


SHAPES = {
    1: [(7,), (1,), (12,)],
    2: [(6, 5), (1, 8), (9, 1)],
    3: [(4, 6, 5), (1, 7, 3)],
    4: [(4, 3, 6, 5), (2, 1, 5, 4)],
    5: [(3, 2, 4, 1, 5)],
}
DTYPES = ["float64", "float32", "int16", "uint8", "complex64"]


def datasets(rng):
    for n, shapes in SHAPES.items():
        for k, shape in enumerate(shapes):
            for m, dt in enumerate(DTYPES):
                if (k + m) % 2 and n > 2:
                    continue
                yield make_ds(rng, shape, dt, int_meta=(m == 2))
    yield make_ds(rng, (4, 3, 6, 5), "float32", cls=Dataset4dstem)
    yield make_ds(rng, (5, 6), "float64", cls=Dataset)  # generic class on a 2-D array


def crop_args(rng, ds):
    n = ds.ndim
    full = tuple((int(rng.integers(0, 2)), int(rng.integers(-1, 1))) for _ in range(n))
    yield (full,), {}
    yield (tuple((0, 0) for _ in range(n)),), {}
    yield (tuple((1, s) for s in ds.shape),), {}
    yield (full[:-1],), {}  # wrong length -> ValueError
    yield (full,), {"axes": tuple(range(n))}
    yield (full[::-1],), {"axes": tuple(reversed(range(n)))}
    yield (((1, -1),),), {"axes": 0}
    yield (((0, 0), (1, 2)),), {"axes": n - 1}
    yield (((1, 0),),), {"axes": float(n - 1)}
    yield (((1, 0),),), {"axes": (n - 1,)}
    yield (((1, 0),),), {"axes": [np.int64(0)]}
    yield (((1, 0), (0, -1)),), {"axes": (0, 0)}  # duplicate axis: last wins
    yield (((1, 0),),), {"axes": (-1,)}  # negative axis is ignored
    yield (((1, 0),),), {"axes": (n + 2,)}  # out of range axis is ignored
    yield (((1, 0), (0, 0)),), {"axes": (0,)}  # length mismatch
    yield (((1, 0, 3),),), {"axes": (0,)}  # bad pair -> unpack error
    yield ([[1, 0]],), {"axes": [0]}
    yield ((),), {"axes": ()}
    yield (((None, None),),), {"axes": (0,)}
    yield (((0, 1),),), {"axes": ("0",)}


def bin_args(rng, ds):
    n = ds.ndim
    yield (1,), {}
    yield (2,), {}
    yield (3,), {"reducer": "mean"}
    yield (2,), {"reducer": "MEAN"}
    yield (2,), {"reducer": "median"}
    yield (np.int64(2),), {"axes": 0}
    yield (2,), {"axes": n - 1, "reducer": "mean"}
    yield (2,), {"axes": float(0)}
    yield (tuple(int(rng.integers(1, 4)) for _ in range(n)),), {}
    yield ([2] * n,), {"reducer": "mean"}
    yield ((2, 3),), {"axes": (0, n - 1)}
    yield ((2, 3),), {"axes": (n - 1, 0)}
    yield ((2, 3),), {"axes": (0, 0)}  # duplicate axis: last wins
    yield ((2,),), {"axes": (-1,)}  # negative axis: only calibration touched
    yield ((2,),), {"axes": (n + 3,)}  # out of range -> IndexError
    yield ((2, 2),), {"axes": (0,)}
    yield ((2.0,),), {"axes": (0,)}
    yield (2.0,), {}
    yield (0,), {}
    yield ((-1,),), {"axes": (0,)}
    yield (True,), {"axes": (0,)}
    yield (100,), {"axes": (0,)}  # factor larger than the axis -> empty axis
    yield ((),), {"axes": ()}


def resample_args(rng, ds):
    n = ds.ndim
    yield (), {}
    yield (), {"out_shape": ds.shape, "factors": 1.0}
    yield (), {"out_shape": ds.shape}
    yield (), {"out_shape": tuple(s + 1 + (i % 2) for i, s in enumerate(ds.shape))}
    yield (), {"out_shape": tuple(max(1, s - 1 - (i % 2)) for i, s in enumerate(ds.shape))}
    yield (), {"out_shape": tuple(s + (-1) ** i for i, s in enumerate(ds.shape))}
    yield (), {"factors": 2}
    yield (), {"factors": 0.5}
    yield (), {"factors": 1.5, "axes": n - 1}
    yield (), {"factors": (0.6,), "axes": (0,)}
    yield (), {"factors": (2.0, 0.7), "axes": (0, n - 1)}
    yield (), {"factors": (2.0, 0.7), "axes": (0,)}
    yield (), {"out_shape": (3,), "axes": (n - 1,)}
    yield (), {"out_shape": (3, 4), "axes": (n - 1,)}
    yield (), {"out_shape": (0,), "axes": (0,)}
    yield (), {"out_shape": (9,), "axes": 0.0}
    yield (), {"out_shape": (4.0,), "axes": [0]}
    yield (), {"out_shape": (), "axes": ()}


def index_exprs(rng, ds):
    n = ds.ndim
    sh = ds.shape
    yield slice(None)
    yield Ellipsis
    yield ()
    yield slice(None, None, 2)
    yield slice(None, None, -1)
    yield slice(1, None, 3)
    yield slice(0, 0)
    yield [0]
    yield [0, sh[0] - 1, 0]
    yield np.array([0, -1])
    yield (Ellipsis, slice(None, None, 2))
    yield (slice(None, None, 2), Ellipsis)
    yield (Ellipsis, [0, 0])
    yield tuple(slice(None, None, i + 1) for i in range(n))
    yield tuple(slice(None, None, -(i + 1)) for i in range(n))
    yield sh[0]  # out of range -> IndexError
    yield (slice(None),) * (n + 1)  # too many indices
    yield "a"
    if n >= 2:
        yield 0
        yield -1
        yield np.int64(0)
        yield (0, Ellipsis)
        yield (Ellipsis, 0)
        yield (Ellipsis, np.int32(sh[-1] - 1))
        yield (slice(None, None, 2), 0)
        yield (0, slice(None, None, 3))
        yield (slice(None), [0])
        yield ([0, 0], slice(None, None, 2))
        yield (Ellipsis, 0, slice(None, None, 2))
        yield (True,)
    if n >= 3:
        yield (0, Ellipsis, 0)
        yield (0, 0)
        yield (slice(None, None, 2), 0, slice(None, None, 3))
        yield (0, slice(1, None, 2), Ellipsis)
        yield (slice(None, None, 2), Ellipsis, 0)
        yield (np.int64(0), [0], slice(None, None, 2))
    if n >= 4:
        yield (0, slice(None, None, 2), 0, slice(None, None, 3))
        yield (0, 0, 0)
        yield (slice(None, None, 2), 0, Ellipsis, slice(None, None, 2))
    if n >= 5:
        yield (0, slice(None, None, 2), 0, slice(None), 0)
        yield (0, 0, 0, 0)
    for _ in range(6):
        expr = []
        for a in range(n):
            r = rng.integers(0, 4)
            if r == 0:
                expr.append(int(rng.integers(-sh[a], sh[a])))
            elif r == 1:
                expr.append(slice(None, None, int(rng.choice([-2, -1, 1, 2, 3]))))
            elif r == 2:
                expr.append(slice(int(rng.integers(0, sh[a])), None))
            else:
                expr.append(slice(None))
        if all(isinstance(e, int) for e in expr):
            expr[-1] = slice(None)
        yield tuple(expr)


def reference_index(ds, index, out):
    """The indexing half of C03, for basic indices and at most one list index."""
    ref = ds.array[index]
    assert out.array.dtype == ref.dtype and out.array.shape == ref.shape
    assert out.array.tobytes() == ref.tobytes()
    idx = index if isinstance(index, tuple) else (index,)
    if any(isinstance(e, (bool, np.bool_)) for e in idx):
        return
    if Ellipsis in idx:
        p = idx.index(Ellipsis)
        idx = idx[:p] + (slice(None),) * (ds.ndim - (len(idx) - 1)) + idx[p + 1 :]
    idx = idx + (slice(None),) * (ds.ndim - len(idx))
    kept = [a for a, e in enumerate(idx) if not isinstance(e, (int, np.integer))]
    if len(kept) != ref.ndim:
        return
    exp_sampling = np.asarray(ds.sampling)[kept].copy()
    for j, a in enumerate(kept):
        e = idx[a]
        if isinstance(e, slice) and e.step not in (None, 1):
            exp_sampling[j] *= e.step
    assert out.origin.tobytes() == np.asarray(ds.origin)[kept].tobytes()
    assert out.sampling.dtype == exp_sampling.dtype
    assert out.sampling.tobytes() == exp_sampling.tobytes()
    assert out.units == [ds.units[a] for a in kept]
    assert out.signal_units == ds.signal_units


def check_single_ops(rng):
    for ds in datasets(rng):
        coherent(ds, strict=not (type(ds) is Dataset and ds.ndim in REG))
        for args, kw in crop_args(rng, ds):
            for inplace in (False, True):
                same(orig_crop, type(ds).crop, ds, *args, modify_in_place=inplace, **kw)
            copy_vs_inplace(type(ds).crop, ds, *args, **kw)
        for args, kw in bin_args(rng, ds):
            for inplace in (False, True):
                same(orig_bin, type(ds).bin, ds, *args, modify_in_place=inplace, **kw)
            copy_vs_inplace(type(ds).bin, ds, *args, **kw)
        for args, kw in resample_args(rng, ds):
            for inplace in (False, True):
                same(
                    orig_fourier_resample,
                    type(ds).fourier_resample,
                    ds,
                    *args,
                    modify_in_place=inplace,
                    **kw,
                )
            copy_vs_inplace(type(ds).fourier_resample, ds, *args, **kw)
        for index in index_exprs(rng, ds):
            r, out, work = same(orig_getitem, type(ds).__getitem__, ds, index)
            if r[0] == "ok":
                assert snap(work) == snap(ds)  # indexing never changes the source
                reference_index(ds, index, out)


def random_op(rnd, ds):
    """Pick one operation (name, args, kwargs) valid-ish for ds."""
    n = ds.ndim
    sh = ds.shape
    kind = rnd.choice(["crop", "bin", "resample", "index", "pad", "index"])
    inplace = rnd.random() < 0.5
    if kind == "crop":
        axes = tuple(sorted(rnd.sample(range(n), rnd.randint(1, n))))
        widths = tuple((rnd.randint(0, 1), rnd.choice([0, 0, -1])) for _ in axes)
        return "crop", (widths,), {"axes": axes, "modify_in_place": inplace}
    if kind == "bin":
        axes = tuple(rnd.sample(range(n), rnd.randint(1, n)))
        fac = tuple(rnd.choice([1, 2, 2, 3]) for _ in axes)
        return (
            "bin",
            (fac,),
            {"axes": axes, "modify_in_place": inplace, "reducer": rnd.choice(["sum", "mean"])},
        )
    if kind == "resample":
        axes = tuple(rnd.sample(range(n), rnd.randint(1, min(n, 2))))
        out_shape = tuple(max(1, sh[a] + rnd.choice([-2, -1, 0, 1, 2, 3])) for a in axes)
        return (
            "fourier_resample",
            (),
            {"out_shape": out_shape, "axes": axes, "modify_in_place": inplace},
        )
    if kind == "pad":
        return "pad", (), {"pad_width": rnd.randint(0, 2), "modify_in_place": inplace}
    expr = []
    for a in range(n):
        r = rnd.randint(0, 4)
        if r == 0 and n > 1:
            expr.append(rnd.randrange(-sh[a], sh[a]) if sh[a] else slice(None))
        elif r == 1:
            expr.append(slice(None, None, rnd.choice([-2, -1, 2, 3])))
        elif r == 2:
            expr.append(slice(rnd.randrange(0, max(1, sh[a])), None))
        else:
            expr.append(slice(None))
    if all(isinstance(e, int) for e in expr):
        expr[0] = slice(None)
    if rnd.random() < 0.3:
        k = rnd.randrange(0, n)
        expr = expr[:k] + [Ellipsis]
    return "index", (tuple(expr),), {}


ORIG = {
    "crop": orig_crop,
    "bin": orig_bin,
    "fourier_resample": orig_fourier_resample,
    "index": orig_getitem,
    "pad": Dataset.pad,
}


def apply(ds, name, args, kw, use_orig):
    if name == "index" and not use_orig:
        return ds[args[0]]
    fn = ORIG[name] if use_orig else getattr(type(ds), name)
    out = fn(ds, *args, **kw)
    return ds if out is None else out


def check_histories(rng):
    rnd = random.Random(20240926)
    n_hist = 0
    for trial in range(160):
        n = 1 + trial % 5
        shape = tuple(rnd.choice([1, 4, 5, 6, 8]) for _ in range(n))
        dt = rnd.choice(DTYPES)
        cur_new = make_ds(rng, shape, dt, cls=Dataset4dstem if (n == 4 and trial % 2) else None)
        cur_old = cur_new.copy()
        assert snap(cur_new) == snap(cur_old)
        for step in range(rnd.randint(3, 12)):
            name, args, kw = random_op(rnd, cur_new)
            before = snap(cur_new)
            res = []
            nxt = []
            for cur, use_orig in ((cur_old, True), (cur_new, False)):
                with warnings.catch_warnings():
                    warnings.simplefilter("ignore")
                    try:
                        o = apply(cur, name, args, kw, use_orig)
                        res.append(("ok", snap(o), snap(cur)))
                        nxt.append(o)
                    except Exception as e:  # noqa: BLE001
                        res.append(("err", type(e).__name__, str(e), snap(cur)))
                        nxt.append(cur)
            assert res[0] == res[1], (trial, step, name, args, kw, res[0][:2], res[1][:2])
            if res[1][0] == "ok":
                if nxt[1] is not cur_new:
                    assert snap(cur_new) == before  # copying variant: source untouched
                coherent(nxt[1])
                coherent(cur_new)
            cur_old, cur_new = nxt
            if 0 in cur_new.shape:
                break
        n_hist += 1
    return n_hist


def main():
    rng = np.random.default_rng(3)
    check_validate_units()
    check_single_ops(rng)
    n_hist = check_histories(rng)
    print(f"C03 demo OK: {N_CHECKS} single-operation comparisons, {n_hist} random histories")


if __name__ == "__main__":
    main()
