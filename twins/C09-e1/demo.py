"""C09 / patch 1: SimpleBatcher.__init__ train/validation split (flattened branches,
single `_complement` helper, unconditional `[:n_val]` truncation).

Checks, for a spread of (num, batch_size, val_ratio, val_mode, seed):
  * the split produced by the library class is identical (values, dtype, view-ness,
    rng consumption) to a verbatim copy of the ORIGINAL constructor;
  * train/val are disjoint and together cover all patterns;
  * every training pattern is visited exactly once per epoch, len() == batches yielded,
    same for the validation pass;
  * the explicit-indices path and its error are unchanged.
"""

import itertools
from math import ceil
from typing import Literal

import numpy as np

from quantem.diffractive_imaging.ptycho_utils import SimpleBatcher


class OriginalBatcher:
    """Verbatim copy of the original SimpleBatcher (constructor under test)."""

    def __init__(
        self,
        num: int,
        batch_size: int | None,
        shuffle: bool = True,
        rng: np.random.Generator | int | None = None,
        val_ratio: float = 0.0,
        val_mode: Literal["grid", "random"] = "grid",
        train_indices: np.ndarray | None = None,
        val_indices: np.ndarray | None = None,
    ):
        self.indices = np.arange(num)
        self.batch_size = batch_size if batch_size is not None else num
        self.shuffle = shuffle
        self.rng = rng

        # Train/validation split (fixed for the lifetime of this batcher)
        if train_indices is not None or val_indices is not None:
            if train_indices is None or val_indices is None:
                raise ValueError("Both train_indices and val_indices must be provided together.")
            self.train_indices = np.asarray(train_indices, dtype=int)
            self.val_indices = np.asarray(val_indices, dtype=int)
        else:
            # Validate ratio and split deterministically given rng
            if val_ratio < 0 or val_ratio >= 1:
                val_ratio = 0.0
            n_val = int(round(len(self.indices) * val_ratio))
            if n_val > 0:
                if val_mode == "random":
                    # Random unique selection for validation
                    perm = self.rng.permutation(self.indices)
                    self.val_indices = perm[:n_val]
                    self.train_indices = np.setdiff1d(
                        self.indices, self.val_indices, assume_unique=False
                    )
                else:  # grid/regular selection: every k-th index
                    if val_ratio <= 0.5:
                        k = max(1, int(round(1.0 / val_ratio)))
                        invert = False
                    else:
                        k = max(1, int(round(1.0 / (1.0 - val_ratio))))
                        invert = True

                    grid_sel = self.indices[::k]
                    if len(grid_sel) > n_val:
                        grid_sel = grid_sel[:n_val]
                    if invert:
                        self.train_indices = grid_sel
                        self.val_indices = np.setdiff1d(
                            self.indices, grid_sel, assume_unique=False
                        )
                    else:
                        self.val_indices = grid_sel
                        self.train_indices = np.setdiff1d(
                            self.indices, self.val_indices, assume_unique=False
                        )
            else:
                self.val_indices = np.asarray([], dtype=int)
                self.train_indices = self.indices

    @property
    def rng(self) -> np.random.Generator:
        return self._rng

    @rng.setter
    def rng(self, rng: np.random.Generator | int | None):
        if rng is None:
            rng = np.random.default_rng()
        elif isinstance(rng, (int, float)):
            rng = np.random.default_rng(rng)
        elif not isinstance(rng, np.random.Generator):
            raise TypeError(f"rng should be a np.random.Generator or a seed, got {type(rng)}")
        self._rng = rng


def same_array(a, b):
    return (
        isinstance(a, np.ndarray)
        and isinstance(b, np.ndarray)
        and a.dtype == b.dtype
        and a.shape == b.shape
        and np.array_equal(a, b)
    )


NUMS = [0, 1, 2, 3, 4, 5, 7, 8, 9, 10, 11, 12, 16, 17, 24, 25, 31, 33, 64, 100, 101, 143]
RATIOS = [
    -0.3, 0.0, 1e-9, 0.01, 0.04, 0.05, 0.0625, 0.09, 0.1, 0.125, 0.15, 0.2, 0.25, 0.3, 1 / 3,
    0.34, 0.4, 0.45, 0.49, 0.5, 0.51, 0.55, 0.6, 2 / 3, 0.7, 0.75, 0.8, 0.85, 0.9, 0.95, 0.99,
    0.999999, 1.0, 1.5, np.float32(0.3), np.float64(0.75),
]  # fmt: skip
BATCHES = [None, 1, 2, 3, 5, 7, 16, 1000]
MODES = ["grid", "random", "something-else"]

n_cases = 0
for num, ratio, mode in itertools.product(NUMS, RATIOS, MODES):
    for seed in (0, 12345):
        new = SimpleBatcher(num, 4, rng=seed, val_ratio=ratio, val_mode=mode)
        old = OriginalBatcher(num, 4, rng=seed, val_ratio=ratio, val_mode=mode)
        assert same_array(new.train_indices, old.train_indices), (num, ratio, mode, seed)
        assert same_array(new.val_indices, old.val_indices), (num, ratio, mode, seed)
        assert same_array(new.indices, old.indices)
        # same aliasing with the index table
        assert np.shares_memory(new.train_indices, new.indices) == np.shares_memory(
            old.train_indices, old.indices
        ), (num, ratio, mode)
        assert np.shares_memory(new.val_indices, new.indices) == np.shares_memory(
            old.val_indices, old.indices
        ), (num, ratio, mode)
        # same amount of randomness consumed by the constructor
        assert np.array_equal(new.rng.integers(0, 2**31, 8), old.rng.integers(0, 2**31, 8))

        # --- the property itself -------------------------------------------------------
        tr, va = new.train_indices, new.val_indices
        assert len(np.intersect1d(tr, va)) == 0, (num, ratio, mode)
        assert np.array_equal(np.sort(np.concatenate([tr, va])), np.arange(num)), (
            num,
            ratio,
            mode,
        )
        assert len(np.unique(tr)) == len(tr) and len(np.unique(va)) == len(va)
        n_cases += 1

# epoch coverage / reported length for every batch size, on the library class
for num, ratio, mode, bs in itertools.product(
    [1, 5, 12, 17, 24, 33], [0.0, 0.1, 0.25, 0.5, 0.7, 0.9], ["grid", "random"], BATCHES
):
    for shuffle in (True, False):
        b = SimpleBatcher(num, bs, shuffle=shuffle, rng=3, val_ratio=ratio, val_mode=mode)
        split_before = (b.train_indices.copy(), b.val_indices.copy())
        for _epoch in range(3):
            batches = list(b)
            assert len(batches) == len(b), (num, ratio, mode, bs)
            seen = np.concatenate(batches) if batches else np.array([], dtype=int)
            assert np.array_equal(np.sort(seen), np.sort(b.train_indices)), (num, ratio, bs)
            eff = bs if bs is not None else num
            assert all(len(x) == eff for x in batches[:-1])
            assert len(b) == ceil(len(b.train_indices) / eff)
            vbatches = list(b.iter_val())
            assert len(vbatches) == b.val_len()
            vseen = np.concatenate(vbatches) if vbatches else np.array([], dtype=int)
            assert np.array_equal(vseen, b.val_indices)
            # the split is fixed for the lifetime of the batcher
            assert np.array_equal(b.train_indices, split_before[0])
            assert np.array_equal(b.val_indices, split_before[1])
        n_cases += 1

# seeded determinism of the random split + shuffle order
for seed in (0, 1, 99):
    a = SimpleBatcher(37, 5, rng=seed, val_ratio=0.3, val_mode="random")
    c = SimpleBatcher(37, 5, rng=seed, val_ratio=0.3, val_mode="random")
    assert np.array_equal(a.val_indices, c.val_indices)
    for _ in range(2):
        assert all(np.array_equal(x, y) for x, y in zip(list(a), list(c)))

# a shared generator is advanced identically
g_new, g_old = np.random.default_rng(5), np.random.default_rng(5)
n1 = SimpleBatcher(20, 3, rng=g_new, val_ratio=0.4, val_mode="random")
o1 = OriginalBatcher(20, 3, rng=g_old, val_ratio=0.4, val_mode="random")
assert n1.rng is g_new
assert same_array(n1.val_indices, o1.val_indices)
assert np.array_equal(g_new.random(4), g_old.random(4))

# explicit indices path and its error are untouched
e = SimpleBatcher(10, 3, train_indices=[0, 2, 4], val_indices=np.array([1, 3]))
assert same_array(e.train_indices, np.array([0, 2, 4])) and same_array(
    e.val_indices, np.array([1, 3])
)
for kw in ({"train_indices": [0, 1]}, {"val_indices": [0, 1]}):
    for cls in (SimpleBatcher, OriginalBatcher):
        try:
            cls(10, 3, **kw)
        except ValueError as err:
            assert "provided together" in str(err)
        else:
            raise AssertionError("expected ValueError")

# bad ratio (nan) fails the same way
for cls in (SimpleBatcher, OriginalBatcher):
    try:
        cls(10, 3, val_ratio=float("nan"))
    except ValueError:
        pass
    else:
        raise AssertionError("expected ValueError for nan ratio")

print(f"PASS ({n_cases} configurations)")
