"""Shared demo for the five C18 behaviour-preserving edits.

Embeds verbatim copies of the ORIGINAL functions
  - CenterOfMassOriginModel.calculate_origin / fit_origin_background / shift_origin_to
  - PtychographyDatasetRaster._set_intensities_com
  - ptycho_utils.fit_origin
and asserts that the functions in the tree return bit-identical results, plus a
few direct checks of the property (float64 oracle, batch invariance, plane
recovery, integer shift == circular roll).
"""

import types
from typing import Tuple

import numpy as np
import torch
from scipy.optimize import curve_fit
from torch.nn import functional as F

from quantem.core import config
from quantem.core.datastructures import Dataset
from quantem.core.utils.utils import tqdmnd
from quantem.core.utils.validators import validate_tensor
from quantem.diffractive_imaging import ptycho_utils
from quantem.diffractive_imaging.dataset_models import PtychographyDatasetRaster
from quantem.diffractive_imaging.origin_models import CenterOfMassOriginModel
from quantem.diffractive_imaging.ptycho_utils import (
    SimpleBatcher,
    _bezier_two,
    _parabola,
    _plane,
    fit_origin,
    perform_robust_fitting,
)

# --------------------------------------------------------------------------
# verbatim ORIGINAL copies (bodies unchanged; only dedented to module level)
# --------------------------------------------------------------------------


def orig_calculate_origin(
    self,
    max_batch_size: int | None = None,
):
    """ """
    nqx, nqy = self.dataset.shape[-2:]
    tensor_3d = self.tensor.view((-1, nqx, nqy))

    qx = torch.arange(nqx, dtype=torch.float, device=self.device)
    qy = torch.arange(nqy, dtype=torch.float, device=self.device)
    qxa, qya = torch.meshgrid(qx, qy, indexing="ij")

    if max_batch_size is None:
        max_batch_size = self.num_dps

    batcher = SimpleBatcher(self.num_dps, batch_size=max_batch_size, shuffle=False)

    com_measured = torch.empty((self.num_dps, 2), dtype=torch.float, device=self.device)

    for batch_idx in batcher:
        intensities = tensor_3d[batch_idx]
        summed_intensities = torch.sum(intensities, dim=(-2, -1))
        com_measured[batch_idx, 0] = (
            torch.sum(intensities * qxa[None, :, :], dim=(-2, -1)) / summed_intensities
        )
        com_measured[batch_idx, 1] = (
            torch.sum(intensities * qya[None, :, :], dim=(-2, -1)) / summed_intensities
        )

    self.origin_measured = com_measured
    return self


def orig_fit_origin_background(
    self,
    probe_positions=None,
    fit_method: str = "plane",
):
    """ """

    if self._origin_measured is None:
        raise ValueError("measured origins not detected. Use self.calculate_origin() first.")

    if probe_positions is None:
        if self.dataset.ndim != 4:
            raise ValueError(
                "probe positions could not be inferred from dataset, please pass them explicitly."
            )

        nx, ny = self.dataset.shape[:2]

        x = torch.arange(nx, dtype=torch.float, device=self.device)
        y = torch.arange(ny, dtype=torch.float, device=self.device)
        xa, ya = torch.meshgrid(x, y, indexing="ij")
        probe_positions = torch.stack([xa, ya], -1).view((-1, 2))
    else:
        probe_positions = validate_tensor(
            probe_positions, "probe positions", dtype=torch.float
        ).view((-1, 2))
        if probe_positions.shape != self.origin_measured.shape:
            raise ValueError("probe positions shape must match the measured origins.")

    if fit_method == "plane":

        def fit_linear_plane(points: torch.Tensor):
            """ """
            # Covariance matrix
            centroid = points.mean(0)
            centered_points = points - centroid
            covariance_matrix = torch.cov(centered_points.T)

            # Fall back to CPU (to support MPS)
            eigenvectors = torch.linalg.eigh(covariance_matrix.cpu())[1].to(points.device)

            # The normal vector to the plane is the eigenvector corresponding to the smallest eigenvalue
            normal_vector = eigenvectors[:, 0]
            a, b, c = normal_vector

            # Calculate d using the centroid: d = -(ax_c + by_c + cz_c)
            d = -torch.dot(normal_vector, centroid)
            return a, b, c, d

        com_x_pts = torch.concatenate((probe_positions, self.origin_measured[:, 0, None]), 1)
        com_y_pts = torch.concatenate((probe_positions, self.origin_measured[:, 1, None]), 1)

        ax, bx, cx, dx = fit_linear_plane(com_x_pts)
        ay, by, cy, dy = fit_linear_plane(com_y_pts)

        com_fitted_x = (
            probe_positions @ torch.tensor([-ax, -bx], device=self.device) - dx
        ) / cx
        com_fitted_y = (
            probe_positions @ torch.tensor([-ay, -by], device=self.device) - dy
        ) / cy
        com_fitted = torch.stack([com_fitted_x, com_fitted_y], -1)

    elif fit_method == "constant":
        com_fitted = self.origin_measured.mean(0)

    else:
        raise NotImplementedError(
            "only fit_method='plane' and 'constant' are implemented for now."
        )

    self.origin_fitted = com_fitted
    return self


def orig_shift_origin_to(
    self,
    origin_coordinate: Tuple[int | float, int | float] = (0, 0),
    max_batch_size: int | None = None,
    mode: str = "bilinear",
):
    if self._origin_fitted is None:
        raise ValueError(
            "fitted origins not detected. Use self.fit_origin_background() first."
        )

    origin_fitted = self.origin_fitted
    H, W = self.dataset.shape[-2:]

    tensor_3d = self.tensor.view((-1, 1, H, W))
    shifted_tensor_3d = torch.empty_like(tensor_3d)
    coordinate = torch.as_tensor(origin_coordinate, dtype=torch.float, device=self.device)

    grid_y, grid_x = torch.meshgrid(
        torch.arange(H, device=self.device), torch.arange(W, device=self.device), indexing="ij"
    )
    base_grid = torch.stack((grid_y, grid_x), dim=-1).float()

    if max_batch_size is None:
        max_batch_size = self.num_dps

    batcher = SimpleBatcher(self.num_dps, batch_size=max_batch_size, shuffle=False)

    size_tensor = torch.tensor([H, W], dtype=torch.float, device=self.device)

    for batch_idx in batcher:
        intensities = tensor_3d[batch_idx]

        shift_yx = origin_fitted[batch_idx] - coordinate
        shift_tensor = shift_yx.view(-1, 1, 1, 2)

        shifted_grid = (base_grid[None, ...] + shift_tensor) % size_tensor

        grid_x_norm = 2 * shifted_grid[..., 1] / (W - 1) - 1
        grid_y_norm = 2 * shifted_grid[..., 0] / (H - 1) - 1
        grid = torch.stack((grid_x_norm, grid_y_norm), dim=-1)

        shifted_tensor_3d[batch_idx] = F.grid_sample(
            intensities,
            grid,
            mode=mode,
            padding_mode="zeros",
            align_corners=True,
        )

    self.shifted_tensor = shifted_tensor_3d.view(self.tensor.shape)
    return self


def orig_fit_origin(
    data,
    mask=None,
    fit_function="plane",
    robust=False,
    robust_steps=3,
    robust_thresh=2,
):
    """Fits the origin of diffraction space using the specified method."""

    qr0_meas, qc0_meas = data

    if fit_function == "plane":
        f = _plane
    elif fit_function == "parabola":
        f = _parabola
    elif fit_function == "bezier_two":
        f = _bezier_two
    elif fit_function == "constant":
        qr0_fit = np.mean(qr0_meas) * np.ones_like(qr0_meas)
        qc0_fit = np.mean(qc0_meas) * np.ones_like(qc0_meas)
        qr0_residuals = qr0_meas - qr0_fit
        qc0_residuals = qc0_meas - qc0_fit
        return qr0_fit, qc0_fit, qr0_residuals, qc0_residuals
    else:
        raise ValueError(
            "fit_function must be one of 'plane', 'parabola', 'bezier_two', 'constant'"
        )
    shape = qr0_meas.shape
    r, c = np.indices(shape)
    r1D = r.reshape(1, np.prod(shape))
    c1D = c.reshape(1, np.prod(shape))
    rc = np.vstack((r1D, c1D))

    if mask is not None:
        qr0_meas_masked = qr0_meas[mask]
        qc0_meas_masked = qc0_meas[mask]
        mask1D = mask.reshape(1, np.prod(shape))
        rc_masked = np.vstack((r1D * mask1D, c1D * mask1D))

        popt_r, _ = curve_fit(f, rc_masked, qr0_meas_masked)
        popt_c, _ = curve_fit(f, rc_masked, qc0_meas_masked)

        if robust:
            popt_r = perform_robust_fitting(
                f, rc_masked, qr0_meas_masked, popt_r, robust_steps, robust_thresh
            )
            popt_c = perform_robust_fitting(
                f, rc_masked, qc0_meas_masked, popt_c, robust_steps, robust_thresh
            )
    else:
        popt_r, _ = curve_fit(f, rc, qr0_meas)
        popt_c, _ = curve_fit(f, rc, qc0_meas)

        if robust:
            popt_r = perform_robust_fitting(f, rc, qr0_meas, popt_r, robust_steps, robust_thresh)
            popt_c = perform_robust_fitting(f, rc, qc0_meas, popt_c, robust_steps, robust_thresh)

    qr0_fit = f(rc, *popt_r).reshape(shape)
    qc0_fit = f(rc, *popt_c).reshape(shape)
    qr0_residuals = qr0_meas - qr0_fit
    qc0_residuals = qc0_meas - qc0_fit

    return qr0_fit, qc0_fit, qr0_residuals, qc0_residuals


def make_orig_set_intensities_com(fit_origin):
    # `fit_origin` is a closure parameter so the original body can be paired with
    # the original fit_origin (everything else in the body is verbatim).
    def orig_set_intensities_com(
        self,
        intensities: np.ndarray,
        dp_mask: np.ndarray | None = None,
        fit_function="plane",
        vectorized_calculation=True,
    ) -> None:
        if dp_mask is not None:
            if dp_mask.shape != intensities.shape[-2:]:
                raise ValueError(
                    f"Mask shape should be (Qr,Qc) = {intensities.shape[-2:]} | got {dp_mask.shape}"
                )
            dp_mask = np.asarray(dp_mask, dtype=config.get("dtype_real"))

        # Coordinates
        kr = np.arange(intensities.shape[-2])
        kc = np.arange(intensities.shape[-1])
        krm, kcm = np.meshgrid(kr, kc, indexing="ij")

        if vectorized_calculation:
            if dp_mask is not None:
                intensities_mask = (intensities * dp_mask).astype(config.get("dtype_real"))
            else:
                intensities_mask = (intensities).astype(config.get("dtype_real"))
            com_measured_r = np.sum(intensities_mask * krm[None, None], axis=(-2, -1))
            com_measured_c = np.sum(intensities_mask * kcm[None, None], axis=(-2, -1))

            intensities_sum = np.sum(intensities_mask, axis=(-2, -1))
            com_measured_r /= intensities_sum
            com_measured_c /= intensities_sum

        else:
            shape_r, shape_c = intensities.shape[:2]
            com_measured_r = np.zeros((shape_r, shape_c))
            com_measured_c = np.zeros((shape_r, shape_c))

            # loop of dps
            for Rr, Rc in tqdmnd(
                range(shape_r),
                range(shape_c),
                desc="Calculating center of mass",
                unit="probe position",
                disable=not self._verbose,
            ):
                masked_intensity = intensities[Rr, Rc]
                if dp_mask is not None:
                    masked_intensity *= dp_mask
                summed_intensity = masked_intensity.sum()
                com_measured_r[Rr, Rc] = np.sum(masked_intensity * krm) / summed_intensity
                com_measured_c[Rr, Rc] = np.sum(masked_intensity * kcm) / summed_intensity

        if fit_function == "none":
            com_fit_r, com_fit_c = com_measured_r, com_measured_c
        elif fit_function == "no_shift":
            com_fit_r, com_fit_c = np.ones_like(com_measured_r), np.ones_like(com_measured_c)
            com_fit_r = com_fit_r * self.roi_shape[0] / 2
            com_fit_c = com_fit_c * self.roi_shape[1] / 2
        else:
            finite_mask = np.isfinite(com_measured_r)
            com_fit_r, com_fit_c, _com_res_r, _com_res_c = fit_origin(
                data=(com_measured_r, com_measured_c),
                fit_function=fit_function,
                mask=finite_mask,
            )

        self.com_measured = (com_measured_r, com_measured_c)  # raw measured pixels
        self.com_fit = (com_fit_r, com_fit_c)  # fitted for descan, pixels
        return

    return orig_set_intensities_com


orig_set_intensities_com = make_orig_set_intensities_com(orig_fit_origin)

# --------------------------------------------------------------------------
# helpers
# --------------------------------------------------------------------------


def same_t(a: torch.Tensor, b: torch.Tensor, what: str):
    assert a.dtype == b.dtype, (what, a.dtype, b.dtype)
    assert a.shape == b.shape, (what, a.shape, b.shape)
    assert a.stride() == b.stride(), (what, a.stride(), b.stride())
    av = a.contiguous().view(torch.int32) if a.dtype == torch.float32 else a.contiguous()
    bv = b.contiguous().view(torch.int32) if b.dtype == torch.float32 else b.contiguous()
    assert torch.equal(av, bv), f"{what}: old and new differ bitwise"


def same_np(a, b, what: str):
    a = np.asarray(a)
    b = np.asarray(b)
    assert a.dtype == b.dtype, (what, a.dtype, b.dtype)
    assert a.shape == b.shape, (what, a.shape, b.shape)
    assert a.tobytes() == b.tobytes(), f"{what}: old and new differ bitwise"


def make_data(rng, shape, kind):
    if kind == "uniform":
        arr = rng.uniform(0.05, 1.0, size=shape)
    elif kind == "poisson":
        arr = rng.poisson(7.0, size=shape).astype(np.float64) + 1.0
    else:  # asymmetric blobs drifting linearly over the scan
        sx, sy, qx, qy = shape
        r = np.arange(qx)[:, None]
        c = np.arange(qy)[None, :]
        arr = np.empty(shape)
        for i in range(sx):
            for j in range(sy):
                r0 = 0.3 * qx + 0.11 * i - 0.07 * j
                c0 = 0.6 * qy - 0.05 * i + 0.13 * j
                arr[i, j] = np.exp(-((r - r0) ** 2) / 3.0 - ((c - c0) ** 2) / 5.0) + 1e-3
        arr *= rng.uniform(0.5, 2.0, size=(sx, sy, 1, 1))
    return arr.astype(np.float32)


def oracle_com(arr, mask=None):
    a = arr.astype(np.float64)
    if mask is not None:
        a = a * mask.astype(np.float64)
    qx, qy = a.shape[-2:]
    r = np.arange(qx, dtype=np.float64)[:, None]
    c = np.arange(qy, dtype=np.float64)[None, :]
    s = a.sum((-2, -1))
    return (a * r).sum((-2, -1)) / s, (a * c).sum((-2, -1)) / s


def new_model(arr):
    ds = Dataset.from_array(arr.copy())
    return CenterOfMassOriginModel.from_dataset(ds, device="cpu")


# --------------------------------------------------------------------------
# 1. CenterOfMassOriginModel (torch)
# --------------------------------------------------------------------------


def check_origin_model(rng):
    shapes = [(3, 4, 5, 7), (4, 3, 8, 6), (2, 5, 9, 4), (1, 6, 6, 11), (5, 5, 7, 7)]
    n = 0
    for shape in shapes:
        for kind in ("uniform", "poisson", "blob"):
            arr = make_data(rng, shape, kind)
            num = shape[0] * shape[1]
            ref_r, ref_c = oracle_com(arr)
            full = None
            for bs in [None] + list(range(1, num + 1)):
                m_new = new_model(arr).calculate_origin(bs)
                m_old = orig_calculate_origin(new_model(arr), bs)
                same_t(m_new.origin_measured, m_old.origin_measured, f"origin_measured {shape} {kind} bs={bs}")
                om = m_new.origin_measured.numpy().astype(np.float64)
                assert np.allclose(om[:, 0], ref_r.ravel(), rtol=0, atol=2e-4 * shape[2])
                assert np.allclose(om[:, 1], ref_c.ravel(), rtol=0, atol=2e-4 * shape[3])
                if full is None:
                    full = om
                else:
                    assert np.allclose(om, full, rtol=0, atol=1e-4 * max(shape[2:]))
                n += 1

            # fit: plane / constant, inferred and explicit probe positions
            pos = np.stack(
                np.meshgrid(np.arange(shape[0]), np.arange(shape[1]), indexing="ij"), -1
            ).reshape(-1, 2).astype(np.float32)
            pos_alt = (pos * np.float32(1.5) + np.float32(0.25)).astype(np.float32)
            for fit_method in ("plane", "constant"):
                for pp in (None, pos, torch.from_numpy(pos_alt)):
                    if fit_method == "plane" and (shape[0] < 2 or shape[1] < 2):
                        continue
                    a = new_model(arr).calculate_origin()
                    b = new_model(arr).calculate_origin()
                    a.fit_origin_background(pp, fit_method)
                    orig_fit_origin_background(b, pp, fit_method)
                    same_t(a.origin_fitted, b.origin_fitted, f"origin_fitted {shape} {kind} {fit_method}")
                    n += 1

            # shift using the fitted origin (fractional), both modes, several batch sizes
            fm = "plane" if min(shape[:2]) >= 2 else "constant"
            for mode in ("bilinear", "nearest"):
                for bs in (None, 1, 2, num):
                    for coord in ((0, 0), (2, 1), (1.5, 0.25)):
                        a = new_model(arr).calculate_origin().fit_origin_background(None, fm)
                        b = new_model(arr).calculate_origin().fit_origin_background(None, fm)
                        a.shift_origin_to(coord, bs, mode)
                        orig_shift_origin_to(b, coord, bs, mode)
                        same_t(a.shifted_tensor, b.shifted_tensor, f"shifted {shape} {kind} {mode} bs={bs}")
                        n += 1

    # exact surfaces: plane through the origins -> recovered; constant -> recovered
    for shape in [(4, 5, 6, 9), (6, 3, 8, 5)]:
        arr = make_data(rng, shape, "uniform")
        num = shape[0] * shape[1]
        xa, ya = np.meshgrid(np.arange(shape[0]), np.arange(shape[1]), indexing="ij")
        for coefs in ((0.5, -0.25, 2.0, 0.125, 0.75, 1.0), (0.0, 1.0, 1.0, -0.5, 0.0, 3.0)):
            ar, br, cr, ac, bc, cc = coefs
            surf = np.stack([ar * xa + br * ya + cr, ac * xa + bc * ya + cc], -1).reshape(-1, 2)
            for fn in (CenterOfMassOriginModel.fit_origin_background, orig_fit_origin_background):
                m = new_model(arr)
                m.origin_measured = torch.tensor(surf, dtype=torch.float)
                fn(m, None, "plane")
                assert np.allclose(m.origin_fitted.numpy(), surf, atol=2e-4), "plane not recovered"
            res = []
            for fn in (CenterOfMassOriginModel.fit_origin_background, orig_fit_origin_background):
                m = new_model(arr)
                m.origin_measured = torch.tensor(surf, dtype=torch.float)
                fn(m, None, "plane")
                res.append(m.origin_fitted)
            same_t(res[0], res[1], "plane surface fit")
            n += 1
        for fn in (CenterOfMassOriginModel.fit_origin_background, orig_fit_origin_background):
            m = new_model(arr)
            m.origin_measured = torch.tensor([[2.5, 3.25]], dtype=torch.float)
            fn(m, None, "constant")
            assert torch.equal(m.origin_fitted, torch.tensor([[2.5, 3.25]]).expand(num, 2))

        # integer origins: shift == circular roll of every pattern, any batch size
        H, W = shape[2:]
        ints = np.stack(
            [rng.integers(0, H, size=num), rng.integers(0, W, size=num)], -1
        ).astype(np.float32)
        for mode in ("bilinear", "nearest"):
            for bs in (None, 1, 3, num):
                outs = []
                for fn in (CenterOfMassOriginModel.shift_origin_to, orig_shift_origin_to):
                    m = new_model(arr)
                    m.origin_fitted = torch.from_numpy(ints)
                    fn(m, (0, 0), bs, mode)
                    outs.append(m.shifted_tensor)
                    got = m.shifted_tensor.numpy().reshape(num, H, W)
                    flat = arr.reshape(num, H, W)
                    for k in range(num):
                        want = np.roll(flat[k], (-int(ints[k, 0]), -int(ints[k, 1])), axis=(0, 1))
                        assert np.allclose(got[k], want, rtol=1e-5, atol=1e-6), "shift != roll"
                same_t(outs[0], outs[1], f"integer shift {mode} bs={bs}")
                n += 1
    return n


# --------------------------------------------------------------------------
# 2. PtychographyDatasetRaster._set_intensities_com (numpy) and fit_origin
# --------------------------------------------------------------------------


def run_set_com(fn, arr, mask, fit_function, vectorized):
    stub = types.SimpleNamespace(_verbose=0, roi_shape=tuple(arr.shape[-2:]))
    work = arr.copy()  # the looped path multiplies views of its input in place
    fn(stub, work, dp_mask=None if mask is None else mask.copy(),
       fit_function=fit_function, vectorized_calculation=vectorized)
    return stub.com_measured, stub.com_fit, work


def check_dataset_model(rng):
    n = 0
    shapes = [(3, 4, 5, 7), (4, 3, 8, 6), (5, 6, 9, 4), (4, 4, 6, 6)]
    for shape in shapes:
        for kind in ("uniform", "poisson", "blob"):
            arr = make_data(rng, shape, kind)
            masks = [None, (rng.uniform(size=shape[2:]) > 0.25).astype(np.float32)]
            masks[1][0, 0] = 1.0
            for mask in masks:
                ref_r, ref_c = oracle_com(arr, mask)
                per_path = []
                for vec in (True, False):
                    for ff in ("none", "no_shift", "constant", "plane", "parabola"):
                        new = run_set_com(PtychographyDatasetRaster._set_intensities_com, arr, mask, ff, vec)
                        old = run_set_com(orig_set_intensities_com, arr, mask, ff, vec)
                        for i in range(2):
                            same_np(new[0][i], old[0][i], f"com_measured[{i}] {shape} {kind} {ff} vec={vec}")
                            same_np(new[1][i], old[1][i], f"com_fit[{i}] {shape} {kind} {ff} vec={vec}")
                        same_np(new[2], old[2], "input side effect")
                        n += 1
                    assert np.allclose(new[0][0], ref_r, rtol=0, atol=2e-5 * shape[2])
                    assert np.allclose(new[0][1], ref_c, rtol=0, atol=2e-5 * shape[3])
                    per_path.append(new[0])
                assert np.allclose(per_path[0][0], per_path[1][0], rtol=0, atol=1e-5 * shape[2])
                assert np.allclose(per_path[0][1], per_path[1][1], rtol=0, atol=1e-5 * shape[3])

                # direct-ptychography model and dataset model agree
                m = new_model(arr if mask is None else arr * mask).calculate_origin()
                om = m.origin_measured.numpy().reshape(shape[0], shape[1], 2)
                assert np.allclose(om[..., 0], per_path[0][0], rtol=0, atol=3e-4 * shape[2])
                assert np.allclose(om[..., 1], per_path[0][1], rtol=0, atol=3e-4 * shape[3])

    # wrong mask shape still raises the same error
    for fn in (PtychographyDatasetRaster._set_intensities_com, orig_set_intensities_com):
        try:
            run_set_com(fn, make_data(rng, (2, 2, 4, 5), "uniform"), np.ones((5, 4), np.float32), "none", True)
        except ValueError as e:
            assert "Mask shape should be (Qr,Qc) = (4, 5) | got (5, 4)" in str(e)
        else:
            raise AssertionError("expected ValueError")
    return n


def check_fit_origin(rng):
    n = 0
    n_err = [0]
    for shape in [(4, 5), (6, 3), (7, 7), (5, 8)]:
        r, c = np.indices(shape).astype(np.float64)
        surfaces = {
            "plane": (0.5 * r - 0.25 * c + 2.0, 0.125 * r + 0.75 * c + 1.0),
            "parabola": (1 + 0.3 * r - 0.2 * c + 0.05 * r**2 + 0.01 * c**2 - 0.02 * r * c,
                         2 - 0.1 * r + 0.4 * c - 0.03 * r**2 + 0.02 * c**2 + 0.01 * r * c),
            "noisy": (0.5 * r + rng.normal(0, 0.1, shape), 0.3 * c + rng.normal(0, 0.1, shape)),
        }
        m_some = rng.uniform(size=shape) > 0.2
        m_some[0, 0] = m_some[-1, 0] = m_some[0, -1] = m_some[-1, -1] = True
        for sname, data in surfaces.items():
            for ff in ("plane", "parabola", "bezier_two", "constant"):
                for mask in (None, np.ones(shape, bool), m_some):
                    for robust in (False, True):
                        if ff == "bezier_two" and (mask is m_some or robust):
                            continue
                        if robust and sname != "noisy":
                            continue
                        kw = dict(mask=mask, fit_function=ff, robust=robust)
                        import warnings

                        with warnings.catch_warnings():
                            warnings.simplefilter("ignore")
                            # pre-existing behaviour: only the all-True-mask curve_fit path
                            # accepts 2-D data; wherever the original raises, old and new
                            # must fail identically
                            outs = []
                            for fn in (fit_origin, orig_fit_origin):
                                try:
                                    outs.append(("ok", fn(data, **kw)))
                                except (ValueError, TypeError, RuntimeError) as e:
                                    outs.append(("err", type(e).__name__, str(e)))
                        assert outs[0][0] == outs[1][0], (outs[0][:2], outs[1][:2])
                        n += 1
                        if outs[0][0] == "err":
                            assert outs[0] == outs[1], outs
                            n_err[0] += 1
                            continue
                        new, old = outs[0][1], outs[1][1]
                        for i in range(4):
                            same_np(new[i], old[i], f"fit_origin[{i}] {shape} {sname} {ff} robust={robust}")
                        if sname == ff and not robust:
                            assert np.allclose(new[0], data[0], atol=1e-6), "surface not recovered (r)"
                            assert np.allclose(new[1], data[1], atol=1e-6), "surface not recovered (c)"
        const = (np.full(shape, 3.25), np.full(shape, -1.5))
        new = fit_origin(const, fit_function="constant")
        assert np.array_equal(new[0], const[0]) and np.array_equal(new[1], const[1])
    for fn in (fit_origin, orig_fit_origin):
        try:
            fn((np.zeros((3, 3)), np.zeros((3, 3))), fit_function="cubic")
        except ValueError as e:
            assert "fit_function must be one of" in str(e)
        else:
            raise AssertionError("expected ValueError")
    assert 0 < n_err[0] < n and n - n_err[0] >= 40, (n, n_err)
    return n


if __name__ == "__main__":
    torch.manual_seed(0)
    torch.set_num_threads(1)
    rng = np.random.default_rng(1234)
    n1 = check_origin_model(rng)
    n2 = check_dataset_model(rng)
    n3 = check_fit_origin(rng)
    assert ptycho_utils.fit_origin is fit_origin
    print(f"OK: origin-model cases={n1}, dataset-model cases={n2}, fit_origin cases={n3}")
