"""C01 demo -- serializer round-trip fidelity, and old-vs-new comparison of the edited functions.

Run as:  PYTHONPATH=<root>/src /venv/bin/python demo.py

Two things are asserted, on the unmodified tree as well as with any of the four patches applied:

 1. the property itself: save -> load gives back an equal object graph (same class, same attribute
    names, structurally equal values) for the zip and the directory store, for every compression
    level, for str and Path targets and for both write modes; saving the loaded object again and
    loading it is a fixed point;
 2. bit-for-bit agreement with the ORIGINAL code: a verbatim copy of the original text of the four
    functions that the patches touch (save, _recursive_save, _serialize_container,
    _deserialize_container) is embedded below, installed on AutoSerialize in turn with the
    functions of the tree under test, and the two must write byte-identical stores, load equal
    graphs (exact types), print the same text and raise the same exceptions (type and message),
    leaving the same files behind.

CPU only, no network, writes only below a tempfile.TemporaryDirectory.
"""

import contextlib
import io
import logging
import math
import os
import sys
import tempfile
import time
import zipfile
from pathlib import Path

import numpy as np
import torch
import zarr
from zarr.storage import LocalStore

import quantem.core.io.serialize as S
from quantem.core.io.serialize import AutoSerialize, load

# --------------------------------------------------------------------------------------------- #
# verbatim copy of the original functions (text of the worktree HEAD, unindented by nothing)
# --------------------------------------------------------------------------------------------- #
ORIGINAL_SOURCE = r'''
class _Orig:
    def save(
        self,
        path: str | Path,
        mode: Literal["w", "o"] = "w",
        store: Literal["auto", "zip", "dir"] = "auto",
        skip: Union[str, type, Sequence[Union[str, type]]] = (),
        compression_level: int | None = 4,
    ) -> None:
        """
        Save the current object to disk using Zarr serialization.

        Parameters
        ----------
        path : str or Path
            Target file path. Use '.zip' extension for zip format, otherwise a directory.
        mode : {'w', 'o'}
            'w' = write only if file doesn't exist, 'o' = overwrite if it does.
        store : {'auto', 'zip', 'dir'}
            Storage format. 'auto' infers from file extension.
        skip : str, type, or list of (str or type)
            Attribute names/types to skip (by name or type) during serialization.
        compression_level : int or None
            If set (0–9), applies Zstandard compression with Blosc backend at that level.
            Level 0 disables compression. Raises ValueError if > 9.

        Notes
        -----
        Skipped attribute names and types are also stored in the file metadata for correct
        round-trip skipping during load().
        """
        # Validate compression level
        if compression_level is not None:
            if not (0 <= compression_level <= 9):
                raise ValueError(
                    f"compression_level must be between 0 and 9, got {compression_level}"
                )
            compressors = [
                {
                    "name": "blosc",
                    "configuration": {
                        "cname": "zstd",
                        "clevel": int(compression_level),
                        "shuffle": "bitshuffle",
                    },
                }
            ]
        else:
            compressors = None

        path = str(path)
        # Auto-infer storage format if needed
        if store == "auto":
            store = "zip" if path.endswith(".zip") else "dir"

        # Ensure .zip extension if requested
        if store == "zip" and not path.endswith(".zip"):
            print(f"Warning: appending .zip to path '{path}'")
            path += ".zip"

        # Handle overwrite vs. write protection
        if os.path.exists(path):
            if mode == "o":
                if os.path.isdir(path):
                    shutil.rmtree(path)
                else:
                    os.remove(path)
            else:
                raise FileExistsError(f"File '{path}' already exists. Use mode='o' to overwrite.")

        # Normalize skip argument (split to names and types)
        if isinstance(skip, (str, type)):
            skip = [skip]
        skip_names = {s for s in skip if isinstance(s, str)}
        skip_types = tuple(s for s in skip if isinstance(s, type))

        def write_skip_metadata(root):
            # Store skip info as attributes for correct deserialization
            root.attrs["_autoserialize_skip_names"] = list(skip_names)
            root.attrs["_autoserialize_skip_types"] = [
                f"{t.__module__}.{t.__qualname__}" for t in skip_types
            ]

        # Main branch: choose between zip and directory storage
        if store == "zip":
            # Always use tempdir for safe atomic write
            with tempfile.TemporaryDirectory() as tmpdir:
                store_obj = LocalStore(tmpdir)
                root = zarr.group(store=store_obj, overwrite=True)
                self._recursive_save(self, root, skip_names, skip_types, compressors)
                write_skip_metadata(root)
                # Zip up all files in tempdir
                try:
                    with ZipFile(path, mode="w") as zf:
                        for dirpath, _, filenames in os.walk(tmpdir):
                            for filename in filenames:
                                full_path = os.path.join(dirpath, filename)
                                rel_path = os.path.relpath(full_path, tmpdir)
                                zf.write(full_path, arcname=rel_path)
                except BaseException:
                    # Never leave a partial (but readable) archive behind
                    if os.path.exists(path):
                        os.remove(path)
                    raise
        elif store == "dir":
            # Directory mode requires no extension
            if os.path.splitext(path)[1]:
                raise ValueError(
                    f"Expected a directory path for store='dir', but got file-like path '{path}'"
                )
            try:
                os.makedirs(path, exist_ok=True)
                store_obj = LocalStore(path)
                root = zarr.group(store=store_obj, overwrite=True)
                self._recursive_save(self, root, skip_names, skip_types, compressors)
                write_skip_metadata(root)
            except BaseException:
                # The target did not exist (or was removed above): never leave a partial,
                # but loadable, object behind when serialisation fails part-way
                shutil.rmtree(path, ignore_errors=True)
                raise
        else:
            raise ValueError(f"Unknown store type: {store}")

    def _recursive_save(
        self,
        obj,
        group: zarr.Group,
        skip_names: set[str] = set(),
        skip_types: tuple[type, ...] = (),
        compressors=None,
    ) -> None:
        # Store class identity and version metadata at group root if not already set
        if "_autoserialize" not in group.attrs:
            group.attrs["_autoserialize"] = {
                "version": 1,
                "class_module": obj.__class__.__module__,
                "class_name": obj.__class__.__qualname__,
            }

        # Support both attrs and plain Python classes
        attrs_fields = getattr(obj.__class__, "__attrs_attrs__", None)
        if attrs_fields is not None:
            items = [(field.name, getattr(obj, field.name)) for field in attrs_fields]
        else:
            items = obj.__dict__.items()

        for attr_name, attr_value in items:
            # Skip any attributes matching names/types in skip lists
            if attr_name in skip_names or isinstance(attr_value, skip_types):
                continue

            # Use unified serialization method
            self._serialize_value(
                attr_value, group, attr_name, skip_names, skip_types, compressors
            )

    def _serialize_container(
        self,
        value: Union[list, tuple, dict],
        group: zarr.Group,
        skip_names: set[str] = set(),
        skip_types: tuple[type, ...] = (),
        compressors=None,
    ) -> None:
        """
        Serialize Python containers (list, tuple, dict) to Zarr groups.

        Handles nested containers, AutoSerialize instances, PyTorch objects, and primitives,
        with recursive support for arbitrary depth and skipping.
        """

        # Special handling for torch.nn containers: flatten to list and record type
        if isinstance(value, (torch.nn.ModuleList, torch.nn.Sequential, torch.nn.ParameterList)):
            group.attrs["_torch_iterable_module_type"] = type(value).__name__
            value = list(value)

        # Handle list/tuple containers
        if isinstance(value, (list, tuple)):
            group.attrs["_container_type"] = type(value).__name__
            # Fast-path: homogeneous numeric scalars → single ndarray
            try:
                is_all_numeric = len(value) > 0 and all(
                    AutoSerialize._is_numeric_scalar(v) for v in value
                )
            except TypeError:
                # If value isn't sized/iterable like expected, fall back
                is_all_numeric = False

            if is_all_numeric:
                group.attrs["_sequence_encoding"] = "ndarray"
                arr = np.asarray(value)
                # Store in a single dataset named 'values'
                self._write_ndarray(group, "values", arr, compressors)
            else:
                for i, v in enumerate(value):
                    key = str(i)
                    # Use unified serialization method
                    self._serialize_value(v, group, key, skip_names, skip_types, compressors)

        # Handle dict containers
        elif isinstance(value, dict):
            group.attrs["_container_type"] = "dict"
            for k, v in value.items():
                key = str(k)
                # Use unified serialization method
                self._serialize_value(v, group, key, skip_names, skip_types, compressors)

    @classmethod
    def _deserialize_container(cls, group: zarr.Group):
        """
        Reconstructs a list, tuple, or dict container from a Zarr group.

        Supports nested containers, torch module containers, and automatic conversion
        of torch tensors and special objects. Container structure and type info are
        encoded in Zarr group attributes.
        """
        ctype = group.attrs.get("_container_type")
        if ctype is None:
            raise ValueError(f"Missing _container_type in group: {group.path}")

        torch_iterable_type = group.attrs.get("_torch_iterable_module_type")

        # Helper to handle optional torch tensor restoration
        def maybe_tensor(group, key):
            arr = AutoSerialize._read_array_np(group, key)
            if group.attrs.get(f"{key}.torch_save"):
                return torch.from_numpy(arr)
            # values written by the dill fallback of _serialize_value (same probe as _recursive_load)
            try:
                return dill.loads(gzip.decompress(arr.tobytes()))
            except Exception:
                return arr

        if ctype in ("list", "tuple"):
            # Determine maximum index to reconstruct order and size
            # Fast-path: ndarray-encoded homogeneous sequence
            if (
                group.attrs.get("_sequence_encoding") == "ndarray"
                and "values" in group.array_keys()
            ):
                arr = AutoSerialize._read_array_np(group, "values")
                seq = arr.tolist()
                items = seq
            else:
                length = (
                    max(
                        (
                            int(k)
                            for k in list(group.attrs)
                            + list(group.array_keys())
                            + list(group.group_keys())
                            if k.isdigit()
                        ),
                        default=-1,
                    )
                    + 1
                )
                items = []
                for i in range(length):
                    key = str(i)
                    if key in group.attrs:
                        val = group.attrs[key]
                        # Convert string paths back to Path objects if needed
                        val = cls._convert_string_to_path_if_needed(val, group, key)
                        items.append(val)
                    elif key in group.array_keys():
                        items.append(maybe_tensor(group, key))
                    elif key in group.group_keys():
                        subgroup = cast(zarr.Group, group[key])
                        # Handle recursive containers
                        if "_container_type" in subgroup.attrs:
                            items.append(cls._deserialize_container(subgroup))
                        # Restore nested AutoSerialize objects
                        elif "_autoserialize" in subgroup.attrs:
                            meta = cast(dict[str, Any], subgroup.attrs["_autoserialize"])
                            submod = __import__(
                                cast(str, meta["class_module"]),
                                fromlist=[cast(str, meta["class_name"])],
                            )
                            subcls = getattr(submod, cast(str, meta["class_name"]))
                            items.append(subcls._recursive_load(subgroup))
                        # Restore nested torch modules
                        elif subgroup.attrs.get("_torch_whole_module"):
                            module_arr = cast(zarr.Array, subgroup["module"])
                            data = cast(np.ndarray, module_arr[:]).tobytes()
                            buf = io.BytesIO(data)
                            # For containers, load to CPU - they'll be moved to the right device when attached to the main object
                            mod = torch.load(buf, map_location="cpu", weights_only=False)
                            items.append(mod)
                        elif subgroup.attrs.get("_torch_tensor"):
                            # Handle new tensor format in containers
                            data = AutoSerialize._read_array_np(subgroup, "tensor").tobytes()
                            buf = io.BytesIO(data)
                            tensor = torch.load(buf, map_location="cpu", weights_only=False)
                            items.append(tensor)
                        elif subgroup.attrs.get("_torch_logger"):
                            # Handle torch logger in containers
                            logger_class_name = subgroup.attrs.get("class_name", "SummaryWriter")

                            if logger_class_name == "SummaryWriter":
                                from torch.utils.tensorboard import SummaryWriter

                                log_dir = subgroup.attrs.get("log_dir", None)
                                comment = str(cast(Any, subgroup.attrs.get("comment", "")))
                                max_queue = int(cast(Any, subgroup.attrs.get("max_queue", 10)))
                                flush_secs = int(cast(Any, subgroup.attrs.get("flush_secs", 120)))
                                filename_suffix = str(
                                    cast(Any, subgroup.attrs.get("filename_suffix", ""))
                                )

                                logger = SummaryWriter(
                                    log_dir=log_dir,
                                    comment=comment,
                                    max_queue=max_queue,
                                    flush_secs=flush_secs,
                                    filename_suffix=filename_suffix,
                                )
                                items.append(logger)
                            else:
                                # Skip unknown logger types in containers
                                continue
                        elif subgroup.attrs.get("_python_logger"):
                            # Handle Python logger in containers
                            logger_class_name = subgroup.attrs.get("class_name", "Logger")

                            if logger_class_name == "Logger":
                                import logging

                                logger_name = cast(
                                    str, subgroup.attrs.get("logger_name", "quantem")
                                )
                                logger_level = int(
                                    cast(Any, subgroup.attrs.get("logger_level", logging.INFO))
                                )

                                logger = logging.getLogger(logger_name)
                                logger.setLevel(logger_level)
                                items.append(logger)
                            else:
                                # Skip unknown logger types in containers
                                continue
                        else:
                            raise ValueError(
                                f"Unknown group structure at key '{key}' in {group.path}"
                            )
                    else:
                        raise KeyError(f"Missing expected key '{key}' in container")
            # Restore container type and special torch containers
            seq_result = items if ctype == "list" else tuple(items)
            if torch_iterable_type == "Sequential":
                return torch.nn.Sequential(*seq_result)
            elif torch_iterable_type == "ModuleList":
                return torch.nn.ModuleList(cast(Sequence[torch.nn.Module], list(seq_result)))
            elif torch_iterable_type == "ParameterList":
                return torch.nn.ParameterList(cast(Sequence[torch.nn.Parameter], list(seq_result)))
            else:
                return seq_result

        elif ctype == "set":
            # Fast-path: the items were written as a homogeneous numeric sequence
            if (
                group.attrs.get("_sequence_encoding") == "ndarray"
                and "values" in group.array_keys()
            ):
                return set(AutoSerialize._read_array_np(group, "values").tolist())
            # Convert back from list to set
            items = []
            for i in range(
                max(
                    (
                        int(k)
                        for k in list(group.attrs)
                        + list(group.array_keys())
                        + list(group.group_keys())
                        if k.isdigit()
                    ),
                    default=-1,
                )
                + 1
            ):
                key = str(i)
                if key in group.attrs:
                    val = group.attrs[key]
                    # Convert string paths back to Path objects if needed
                    val = cls._convert_string_to_path_if_needed(val, group, key)
                    items.append(val)
                elif key in group.array_keys():
                    items.append(maybe_tensor(group, key))
                elif key in group.group_keys():
                    subgroup = cast(zarr.Group, group[key])
                    # Handle recursive containers
                    if "_container_type" in subgroup.attrs:
                        items.append(cls._deserialize_container(subgroup))
                    # Restore nested AutoSerialize objects
                    elif "_autoserialize" in subgroup.attrs:
                        meta = cast(dict[str, Any], subgroup.attrs["_autoserialize"])
                        submod = __import__(
                            cast(str, meta["class_module"]),
                            fromlist=[cast(str, meta["class_name"])],
                        )
                        subcls = getattr(submod, cast(str, meta["class_name"]))
                        items.append(subcls._recursive_load(subgroup))
                    # Restore nested torch modules
                    elif subgroup.attrs.get("_torch_whole_module"):
                        module_arr = cast(zarr.Array, subgroup["module"])
                        data = cast(np.ndarray, module_arr[:]).tobytes()
                        buf = io.BytesIO(data)
                        # For containers, load to CPU - they'll be moved to the right device when attached to the main object
                        mod = torch.load(buf, map_location="cpu", weights_only=False)
                        items.append(mod)
                    elif subgroup.attrs.get("_torch_tensor"):
                        # Handle new tensor format in containers
                        data = AutoSerialize._read_array_np(subgroup, "tensor").tobytes()
                        buf = io.BytesIO(data)
                        tensor = torch.load(buf, map_location="cpu", weights_only=False)
                        items.append(tensor)
                    elif subgroup.attrs.get("_torch_logger"):
                        # Handle torch logger in containers
                        logger_class_name = subgroup.attrs.get("class_name", "SummaryWriter")

                        if logger_class_name == "SummaryWriter":
                            from torch.utils.tensorboard import SummaryWriter

                            log_dir = subgroup.attrs.get("log_dir", None)
                            comment = str(cast(Any, subgroup.attrs.get("comment", "")))
                            max_queue = int(cast(Any, subgroup.attrs.get("max_queue", 10)))
                            flush_secs = int(cast(Any, subgroup.attrs.get("flush_secs", 120)))
                            filename_suffix = str(
                                cast(Any, subgroup.attrs.get("filename_suffix", ""))
                            )

                            logger = SummaryWriter(
                                log_dir=log_dir,
                                comment=comment,
                                max_queue=max_queue,
                                flush_secs=flush_secs,
                                filename_suffix=filename_suffix,
                            )
                            items.append(logger)
                        else:
                            # Skip unknown logger types in containers
                            continue
                    elif subgroup.attrs.get("_python_logger"):
                        # Handle Python logger in containers
                        logger_class_name = subgroup.attrs.get("class_name", "Logger")

                        if logger_class_name == "Logger":
                            import logging

                            logger_name = cast(str, subgroup.attrs.get("logger_name", "quantem"))
                            logger_level = int(
                                cast(Any, subgroup.attrs.get("logger_level", logging.INFO))
                            )

                            logger = logging.getLogger(logger_name)
                            logger.setLevel(logger_level)
                            items.append(logger)
                        else:
                            # Skip unknown logger types in containers
                            continue
                    else:
                        raise ValueError(f"Unknown group structure at key '{key}' in {group.path}")
                else:
                    raise KeyError(f"Missing expected key '{key}' in container")
            return set(items)

        elif ctype == "dict":
            result: dict[str, Any] = {}
            # Restore scalars and simple objects stored as attributes
            for key in group.attrs:
                if (
                    key == "_container_type"
                    or key.endswith(".torch_save")
                    or key.endswith(".is_path")
                ):
                    continue
                val = group.attrs[key]
                # Convert string paths back to Path objects if needed
                val = cls._convert_string_to_path_if_needed(val, group, key)
                result[key] = val
            # Restore arrays (including torch tensors)
            for key in group.array_keys():
                result[key] = maybe_tensor(group, key)
            # Restore subgroups
            for key in group.group_keys():
                subgroup = cast(zarr.Group, group[key])
                if "_container_type" in subgroup.attrs:
                    result[key] = cls._deserialize_container(subgroup)
                elif "_autoserialize" in subgroup.attrs:
                    meta = cast(dict[str, Any], subgroup.attrs["_autoserialize"])
                    submod = __import__(
                        cast(str, meta["class_module"]), fromlist=[cast(str, meta["class_name"])]
                    )
                    subcls = getattr(submod, cast(str, meta["class_name"]))
                    result[key] = subcls._recursive_load(subgroup)
                elif subgroup.attrs.get("_torch_whole_module"):
                    module_arr = cast(zarr.Array, subgroup["module"])
                    data = cast(np.ndarray, module_arr[:]).tobytes()
                    buf = io.BytesIO(data)
                    # For containers, load to CPU - they'll be moved to the right device when attached to the main object
                    mod = torch.load(buf, map_location="cpu", weights_only=False)
                    result[key] = mod
                elif subgroup.attrs.get("_torch_tensor"):
                    # Handle new tensor format in containers
                    data = AutoSerialize._read_array_np(subgroup, "tensor").tobytes()
                    buf = io.BytesIO(data)
                    tensor = torch.load(buf, map_location="cpu", weights_only=False)
                    result[key] = tensor
                elif subgroup.attrs.get("_torch_logger"):
                    # Handle torch logger in containers
                    logger_class_name = subgroup.attrs.get("class_name", "SummaryWriter")

                    if logger_class_name == "SummaryWriter":
                        from torch.utils.tensorboard import SummaryWriter

                        log_dir = subgroup.attrs.get("log_dir", None)
                        comment = str(cast(Any, subgroup.attrs.get("comment", "")))
                        max_queue = int(cast(Any, subgroup.attrs.get("max_queue", 10)))
                        flush_secs = int(cast(Any, subgroup.attrs.get("flush_secs", 120)))
                        filename_suffix = str(cast(Any, subgroup.attrs.get("filename_suffix", "")))

                        logger = SummaryWriter(
                            log_dir=log_dir,
                            comment=comment,
                            max_queue=max_queue,
                            flush_secs=flush_secs,
                            filename_suffix=filename_suffix,
                        )
                        result[key] = logger
                    else:
                        # Skip unknown logger types in containers
                        continue
                elif subgroup.attrs.get("_python_logger"):
                    # Handle Python logger in containers
                    logger_class_name = subgroup.attrs.get("class_name", "Logger")

                    if logger_class_name == "Logger":
                        import logging

                        logger_name = cast(str, subgroup.attrs.get("logger_name", "quantem"))
                        logger_level = int(
                            cast(Any, subgroup.attrs.get("logger_level", logging.INFO))
                        )

                        logger = logging.getLogger(logger_name)
                        logger.setLevel(logger_level)
                        result[key] = logger
                    else:
                        # Skip unknown logger types in containers
                        continue
                else:
                    raise ValueError(f"Unknown group structure at key '{key}' in {group.path}")

            return result

        else:
            raise ValueError(f"Unknown container type: {ctype}")

'''

# The dill fallback gzips its payload and gzip stamps the current time into the header: pin the
# stamp so that two saves of one object are byte-identical (the only change made to the module).
import gzip as _gzip
import types as _types

S.gzip = _types.SimpleNamespace(
    compress=lambda data: _gzip.compress(data, mtime=0), decompress=_gzip.decompress
)

_ns = dict(vars(S))  # the originals resolve their globals (np, zarr, AutoSerialize, ...) as in the module
exec(compile(ORIGINAL_SOURCE, "<original serialize.py functions>", "exec"), _ns)
_Orig = _ns["_Orig"]
EDITED = ("save", "_recursive_save", "_serialize_container", "_deserialize_container")
_CURRENT = {n: AutoSerialize.__dict__[n] for n in EDITED}
_ORIGINAL = {n: _Orig.__dict__[n] for n in EDITED}


@contextlib.contextmanager
def implementation(which):
    table = _ORIGINAL if which == "original" else _CURRENT
    for n in EDITED:
        setattr(AutoSerialize, n, table[n])
    try:
        yield
    finally:
        for n in EDITED:
            setattr(AutoSerialize, n, _CURRENT[n])


# --------------------------------------------------------------------------------------------- #
# object graphs
# --------------------------------------------------------------------------------------------- #
class Node(AutoSerialize):
    def __init__(self, **kw):
        for k, v in kw.items():
            setattr(self, k, v)


class Leaf(AutoSerialize):
    def __init__(self, tag):
        self.tag = tag
        self.data = np.arange(3, dtype=np.int16)
        self.scale = 0.25


class Boom:
    def __init__(self, exc):
        self.exc = exc

    def __reduce__(self):
        raise self.exc


def small_graph():
    return Node(
        n=3,
        x=0.5,
        name="small",
        where=Path("some/dir/file.h5"),
        nothing=None,
        arr=np.arange(12, dtype=np.float32).reshape(3, 4),
        zero_d=np.array(2.5),
        empty=np.zeros((0, 4), dtype=np.int32),
        nums=[1, 2, 3],
        mixed=["a", 1, None, (2, "b")],
        tags={"p", "q"},
        ids={4, 5, 6},
        cfg={"k": 1, "sub": {"v": [1.5, 2.5]}},
        t=torch.arange(4, dtype=torch.float32),
        child=Leaf("c"),
    )


def big_graph():
    torch.manual_seed(0)
    rng = np.random.default_rng(7)
    return Node(
        i0=0,
        i1=-5,
        i2=2**40,
        f=1.5,
        fneg=-0.0,
        finf=float("inf"),
        fnan=float("nan"),
        yes=True,
        no=False,
        none=None,
        s_empty="",
        s_uni="héllo wörld ✓",
        p_rel=Path("a/b/c.txt"),
        p_abs=Path("/tmp/x"),
        l_empty=[],
        t_empty=(),
        d_empty={},
        set_empty=set(),
        l_int=[1, 2, 3],
        l_mixnum=[1, 2.5, True],
        t_float=(0.5, -1.25),
        l_bool=[True, False],
        l_np=[np.float32(1.5), np.int64(3)],
        l_long=list(range(25)),
        # 14 heterogeneous items: element keys "0".."13" (two-digit keys), every storage kind
        l_mixed=[
            "a",
            1,
            None,
            2.5,
            Path("q/r"),
            [1, 2],
            (3, "x"),
            {"k": 1},
            np.arange(4),
            Leaf("in-list"),
            {"s", "t"},
            b"bytes",
            3 + 4j,
            torch.arange(3),
        ],
        t_mixed=("x", np.zeros((0, 2)), None, [], (), {}, Path("t/u"), np.array(1, dtype=np.uint8)),
        l_strs=[str(i) * 2 for i in range(12)],
        nested=[[1, 2], [3, [4, "x", []]], ()],
        d={
            "a": 1,
            "b": [1, 2, 3],
            "c": {"d": None, "e": Path("z")},
            "arr": np.eye(2, dtype=np.float32),
            "leaf": Leaf("in-dict"),
            "t": torch.ones(2, requires_grad=True),
            "tup": ("x", 1.0),
            "set": {1.5, 2.5},
            "blob": b"\x00\x01",
        },
        set_int={1, 2, 3},
        set_str={"a", "b", "c"},
        set_mixed={"z", ("a", 1), None, 7, 2.5, Path("in/set"), b"raw", (1, 2)},
        set_many={"k%d" % i for i in range(13)},
        a_f32=rng.normal(size=(5,)).astype(np.float32),
        a_f64=rng.normal(size=(4, 3)),
        a_i8=np.arange(-4, 4, dtype=np.int8),
        a_u16=np.arange(6, dtype=np.uint16).reshape(1, 2, 3),
        a_bool=np.array([[True, False], [False, True]]),
        a_c64=(rng.normal(size=3) + 1j * rng.normal(size=3)).astype(np.complex64),
        a_nan=np.array([np.nan, np.inf, -0.0]),
        a_0d=np.array(3.5),
        a_0d_i=np.array(7, dtype=np.int32),
        a_e1=np.zeros((0,)),
        a_e3=np.zeros((2, 0, 3), dtype=np.int16),
        a_big=rng.normal(size=(40, 33)),
        a_fortran=np.asfortranarray(rng.normal(size=(3, 5))),
        a_strided=np.arange(20)[::3],
        ns_f32=np.float32(1.5),
        ns_i64=np.int64(-7),
        ns_bool=np.bool_(True),
        ns_u8=np.uint8(200),
        tt=torch.randn(2, 3),
        tt_grad=torch.randn(4, requires_grad=True),
        tt_i64=torch.arange(5),
        tt_0d=torch.tensor(2.0),
        tt_empty=torch.zeros(0, 3),
        tt_bool=torch.tensor([True, False]),
        tt_f64=torch.randn(3, dtype=torch.float64),
        mod=torch.nn.Linear(3, 2),
        mods=torch.nn.Sequential(torch.nn.Linear(2, 2), torch.nn.ReLU()),
        child=Node(
            x=1,
            arr=np.arange(6).reshape(2, 3),
            grand=Leaf("deep"),
            lst=[Leaf("a"), Leaf("b")],
            tup=(Leaf("c"), "s"),
        ),
        gen=np.random.default_rng(3),
        logger_=logging.getLogger("c01.demo"),
        _private="secret",
    )


# --------------------------------------------------------------------------------------------- #
# comparison helpers
# --------------------------------------------------------------------------------------------- #
NUM = (int, float, bool, np.integer, np.floating, np.bool_)


def _num_eq(x, y):
    if isinstance(x, (float, np.floating)) and isinstance(y, (float, np.floating)):
        if math.isnan(x) or math.isnan(y):
            return math.isnan(x) and math.isnan(y)
    return bool(x == y)


def check_equal(a, b, where="obj", lenient=False):
    """a = expected, b = obtained.  lenient = the representation changes the property allows
    (NumPy scalars and all-numeric sequences are compared by numeric value)."""
    if lenient:
        if isinstance(a, np.generic) and not isinstance(a, np.complexfloating):
            assert type(b) in (int, float, bool), (where, type(b))
            assert _num_eq(a.item(), b), (where, a, b)
            return
        if isinstance(a, (list, tuple)) and len(a) > 0 and all(isinstance(v, NUM) for v in a):
            assert type(a) is type(b) and len(a) == len(b), (where, a, b)
            for i, (x, y) in enumerate(zip(a, b)):
                assert isinstance(y, NUM) and _num_eq(x, y), (where, i, x, y)
            return
    assert type(a) is type(b), (where, type(a), type(b))
    if isinstance(a, AutoSerialize):
        assert sorted(vars(a)) == sorted(vars(b)), (where, sorted(vars(a)), sorted(vars(b)))
        for k in vars(a):
            check_equal(vars(a)[k], vars(b)[k], f"{where}.{k}", lenient)
    elif isinstance(a, np.ndarray):
        assert a.dtype == b.dtype, (where, a.dtype, b.dtype)
        assert a.shape == b.shape, (where, a.shape, b.shape)
        assert np.ascontiguousarray(a).tobytes() == np.ascontiguousarray(b).tobytes(), where
    elif isinstance(a, torch.Tensor):
        assert a.dtype == b.dtype and a.shape == b.shape, (where, a.dtype, b.dtype)
        assert a.requires_grad == b.requires_grad, where
        assert a.detach().numpy().tobytes() == b.detach().numpy().tobytes(), where
    elif isinstance(a, torch.nn.Module):
        sa, sb = a.state_dict(), b.state_dict()
        assert list(sa) == list(sb), where
        for k in sa:
            check_equal(sa[k], sb[k], f"{where}.state[{k}]", lenient)
        assert repr(a) == repr(b), where
    elif isinstance(a, (list, tuple)):
        assert len(a) == len(b), (where, len(a), len(b))
        for i, (x, y) in enumerate(zip(a, b)):
            check_equal(x, y, f"{where}[{i}]", lenient)
    elif isinstance(a, dict):
        assert set(a) == set(b), (where, sorted(a), sorted(b))
        for k in a:
            check_equal(a[k], b[k], f"{where}[{k!r}]", lenient)
    elif isinstance(a, set):
        assert a == b, (where, a, b)
        if not lenient:
            assert sorted(map(repr, a)) == sorted(map(repr, b)), (where, a, b)
    elif isinstance(a, float):
        assert _num_eq(a, b) and math.copysign(1, a) == math.copysign(1, b), (where, a, b)
    elif isinstance(a, np.random.Generator):
        assert type(a.bit_generator) is type(b.bit_generator), where
    elif isinstance(a, logging.Logger):
        assert a.name == b.name and a.level == b.level, where
    else:
        assert a == b, (where, a, b)


def snapshot(path):
    """Content of a store: {relative name: bytes}; None when nothing exists at path."""
    path = str(path)
    if not os.path.lexists(path):
        return None
    if os.path.isdir(path):
        out = {}
        for dp, dns, fns in os.walk(path):
            for fn in fns:
                full = os.path.join(dp, fn)
                with open(full, "rb") as fh:
                    out[os.path.relpath(full, path)] = fh.read()
            for dn in dns:
                out[os.path.relpath(os.path.join(dp, dn), path) + "/"] = b""
        return ("dir", out)
    with zipfile.ZipFile(path) as zf:
        return (
            "zip",
            {i.filename: (i.compress_type, zf.read(i.filename)) for i in zf.infolist()},
        )


def attempt(fn):
    """Run fn; return ('ok', result, printed) or ('raised', (type, message), printed)."""
    buf = io.StringIO()
    try:
        with contextlib.redirect_stdout(buf):
            res = fn()
    except BaseException as e:  # noqa: BLE001 - the kind of exception is what is compared
        return ("raised", (type(e), str(e)), buf.getvalue())
    return ("ok", res, buf.getvalue())


COUNT = {"saves": 0, "loads": 0, "cases": 0}


def _mask(out, d):
    kind, val, printed = out
    if kind == "raised":
        val = (val[0], val[1].replace(str(d), "<DIR>"))
    return (kind, val, printed.replace(str(d), "<DIR>"))


def run_save(obj, target, as_type, **kw):
    COUNT["saves"] += 1
    return attempt(lambda: obj.save(as_type(target), **kw))


def run_load(target):
    COUNT["loads"] += 1
    return attempt(lambda: load(target))


def compare_case(obj, base, fname, as_type=str, prepare=None, final_name=None, **kw):
    """Save + load with the original and the current functions and compare everything.
    Returns the graph loaded by the current code (or None when saving raised)."""
    COUNT["cases"] += 1
    seen = {}
    for which in ("original", "current"):
        d = Path(base) / f"{COUNT['cases']:04d}_{which}"
        d.mkdir()
        target = d / fname
        if prepare is not None:
            prepare(target)
        before = snapshot(target)
        with implementation(which):
            s_out = run_save(obj, target, as_type, **kw)
        final = d / (final_name or fname)
        after = snapshot(final)
        listing = sorted(os.listdir(d))
        l_out = None
        if s_out[0] == "ok":
            with implementation(which):
                l_out = run_load(as_type(final))
        # the scratch directory name is the only thing allowed to differ in messages
        s_out = _mask(s_out, d)
        l_out = _mask(l_out, d) if l_out is not None else None
        seen[which] = (s_out, before, after, listing, l_out, final)

    (so, bo, ao, lo, ldo, _), (sn, bn, an, ln, ldn, final) = seen["original"], seen["current"]
    assert so[0] == sn[0], (fname, kw, so, sn)
    assert so[2] == sn[2], ("printed text differs", so[2], sn[2])
    assert bo == bn
    assert lo == ln, ("files left behind differ", lo, ln)
    assert ao == an, ("stores differ", fname, kw)
    if so[0] == "raised":
        assert so[1] == sn[1], ("exceptions differ", so[1], sn[1])
        return None, seen
    assert so[1] is None and sn[1] is None
    assert ldo[0] == "ok" and ldn[0] == "ok", (ldo, ldn)
    assert ldo[2] == ldn[2]
    check_equal(ldo[1], ldn[1], "old-vs-new", lenient=False)
    # cross: the current loader on the store written by the original code is covered by ao == an
    return ldn[1], seen


def property_case(
    obj, base, fname, as_type=str, prepare=None, final_name=None, fixed_point=True, **kw
):
    loaded, seen = compare_case(obj, base, fname, as_type, prepare, final_name, **kw)
    assert loaded is not None, seen["current"][0]
    assert type(loaded) is type(obj)
    check_equal(obj, loaded, "round-trip", lenient=True)
    if fixed_point:
        # save the loaded object again (same configuration, code under test) and reload it
        COUNT["cases"] += 1
        d = Path(base) / f"{COUNT['cases']:04d}_again"
        d.mkdir()
        if prepare is not None:
            prepare(d / fname)
        s_out = run_save(loaded, d / fname, as_type, **kw)
        assert s_out[0] == "ok", s_out
        l_out = run_load(as_type(d / (final_name or fname)))
        assert l_out[0] == "ok", l_out
        check_equal(loaded, l_out[1], "fixed-point", lenient=False)
        # and the store written from the loaded object is the store it was loaded from,
        # up to the representation changes the property allows (checked through the graphs)
    return loaded


# --------------------------------------------------------------------------------------------- #
# direct comparison of _deserialize_container on hand-made groups
# --------------------------------------------------------------------------------------------- #
def container_cases(base):
    specs = {
        "only_type_list": {"_container_type": "list"},
        "only_type_tuple": {"_container_type": "tuple"},
        "only_type_set": {"_container_type": "set"},
        "dense12": dict({"_container_type": "list"}, **{str(i): f"v{i}" for i in range(12)}),
        "dense12_tuple": dict({"_container_type": "tuple"}, **{str(i): i * i for i in range(12)}),
        "dense101": dict({"_container_type": "list"}, **{str(i): i for i in range(101)}),
        "sparse": {"_container_type": "list", "0": "a", "2": "c"},
        "sparse_high": {"_container_type": "list", "10": "k"},
        "leading_zero": {"_container_type": "list", "0": "a", "01": "b", "007": "c"},
        "nondigit": {"_container_type": "list", "0": "a", "x1": "b", "1.is_path": True, "1": "p/q"},
        "negative": {"_container_type": "list", "-1": "a", "0": "b"},
        "superscript": {"_container_type": "list", "0": "a", "²": "b"},
        "arabic_digit": {"_container_type": "list", "0": "a", "١": "b"},
        "set_dense": dict({"_container_type": "set"}, **{str(i): f"v{i % 5}" for i in range(11)}),
        "fast_no_values": {"_container_type": "list", "_sequence_encoding": "ndarray", "0": 1},
        "unknown": {"_container_type": "deque", "0": 1},
        "missing": {"0": 1},
    }
    for name, attrs in specs.items():
        root = zarr.group(store=LocalStore(str(Path(base) / f"grp_{name}")), overwrite=True)
        g = root.require_group("c")
        for k, v in attrs.items():
            g.attrs[k] = v
        if name == "dense12":
            # elements living in arrays and sub-groups as well as in attributes
            del g.attrs["3"], g.attrs["11"]
            S.AutoSerialize._write_ndarray(g, "3", np.arange(5.0))
            sub = g.require_group("11")
            sub.attrs["_container_type"] = "tuple"
            sub.attrs["0"] = "deep"
        outs = {}
        for which in ("original", "current"):
            with implementation(which):
                outs[which] = attempt(lambda: AutoSerialize._deserialize_container(g))
        o, n = outs["original"], outs["current"]
        assert o[0] == n[0], (name, o, n)
        assert o[2] == n[2]
        if o[0] == "raised":
            assert o[1] == n[1], (name, o[1], n[1])
        else:
            check_equal(o[1], n[1], name, lenient=False)
        COUNT["cases"] += 1


# --------------------------------------------------------------------------------------------- #
def main():
    t0 = time.time()
    # the embedded text must really be a stand-in for the module's functions
    for n in EDITED:
        assert _ORIGINAL[n] is not _CURRENT[n]

    with tempfile.TemporaryDirectory() as base:
        big = big_graph()
        small = small_graph()

        # --- the whole spread of value kinds: both stores, str/Path targets, both modes ---
        property_case(big, base, "big_dir", str, store="dir", compression_level=4, mode="w")
        property_case(big, base, "big_auto.zip", Path, fixed_point=False, compression_level=None)

        def existing_dir(t):
            Node(stale="x").save(str(t), store="dir")

        def existing_zip(t):
            Node(stale="x").save(str(t), store="zip")

        property_case(
            small,
            base,
            "small_over",
            Path,
            prepare=existing_dir,
            fixed_point=False,
            store="dir",
            mode="o",
            compression_level=9,
        )
        property_case(small, base, "over.zip", Path, prepare=existing_zip, mode="o")

        # --- every compression level, both stores ---
        property_case(small, base, "small_dir", str, store="dir")
        property_case(small, base, "small.zip", Path, store="zip", compression_level=None)
        lvl = Node(arr=np.arange(600.0).reshape(20, 30), nums=[1, 2.5], mix=["a", 1], k=None)
        for level in [None] + list(range(10)):
            fp = level in (None, 0, 9)
            property_case(lvl, base, "l_dir", str, fixed_point=fp, store="dir", compression_level=level)
            property_case(lvl, base, "l.zip", Path, fixed_point=fp, store="zip", compression_level=level)
        # numpy integer / bool compression levels are accepted as well
        property_case(lvl, base, "l_np", str, fixed_point=False, compression_level=np.int64(3))
        property_case(lvl, base, "l_true", str, fixed_point=False, compression_level=True)

        # store='zip' appends the extension (and says so)
        property_case(lvl, base, "noext", str, final_name="noext.zip", store="zip")

        # skip by name and by type
        for skip in ("arr", [Leaf, "cfg", "nums"], np.ndarray):
            compare_case(small, base, "skip_dir", str, store="dir", skip=skip)
        compare_case(small, base, "skip.zip", str, store="zip", skip=[torch.Tensor, "child"])

        # objects whose state is empty / a single kind
        for obj in (Node(), Node(a=[], b=set(), c=np.zeros((0,)), d=(), e={}), Leaf("solo")):
            property_case(obj, base, "tiny", str)
            property_case(obj, base, "tiny.zip", str, fixed_point=False)

        # all-numeric sequences at the edge of / outside the quantifier (integers beyond int64,
        # mixed signedness, nan): whatever the original does, the code under test does the same
        for seq in ([2**70], [2**63, -1], [np.uint64(2**63), -1], (float("nan"), 1), [np.float16(0.1)] * 3):
            compare_case(Node(a=seq, b={"in": seq}, c=[seq, "x"]), base, "edge_dir", str)

        # an attrs class, when attrs is installed (field list instead of the instance dict)
        try:
            import attrs
        except ImportError:
            attrs = None
        if attrs is not None:
            rec = AttrsRecord(n=3, name="rec", arr=np.arange(4.0))
            got, _ = compare_case(rec, base, "attrs_dir", str)
            assert type(got) is type(rec) and got.n == 3 and got.name == "rec"
            assert np.array_equal(got.arr, rec.arr)
            compare_case(rec, base, "attrs.zip", str)

        # --- failing saves: same exception, nothing (loadable) left behind ---
        def check_fail(obj, fname, expect, prepare=None, gone=True, **kw):
            got, seen = compare_case(obj, base, fname, str, prepare, **kw)
            assert got is None
            for which in seen:
                s_out, before, after, listing, _, final = seen[which]
                assert s_out[0] == "raised" and s_out[1][0] is expect, s_out
                if gone:
                    assert after is None and listing == [], (fname, listing)
                else:
                    assert after == before and before is not None

        check_fail(small, "exists_dir", FileExistsError, prepare=existing_dir, gone=False, store="dir")
        check_fail(small, "exists.zip", FileExistsError, prepare=existing_zip, gone=False)
        check_fail(small, "file.ext", ValueError, store="dir")
        check_fail(small, "lvl", ValueError, compression_level=10)
        check_fail(small, "lvl.zip", ValueError, compression_level=-1)
        check_fail(small, "what", ValueError, store="tar")
        for exc in (RuntimeError("cannot pickle Boom"), KeyboardInterrupt("stop")):
            bad = Node(a=np.arange(4), z=Boom(exc), after=1)
            check_fail(bad, "bad_dir", type(exc), store="dir")
            check_fail(bad, "bad.zip", type(exc), store="zip")
            check_fail(bad, "bad_over", type(exc), prepare=existing_dir, store="dir", mode="o")
            check_fail(bad, "bad_over.zip", type(exc), prepare=existing_zip, mode="o")
            nested_bad = Node(ok=1, inner=Node(deep=[{"k": Boom(exc)}]))
            check_fail(nested_bad, "nbad_dir", type(exc))
        # --- _deserialize_container on hand-made groups ---
        container_cases(base)

    print(
        f"C01 demo OK: {COUNT['cases']} cases, {COUNT['saves']} saves, {COUNT['loads']} loads, "
        f"{time.time() - t0:.1f}s"
    )


try:
    import attrs as _attrs

    @_attrs.define(slots=False, eq=False)
    class AttrsRecord(AutoSerialize):
        n: int = 0
        name: str = ""
        arr: np.ndarray = None
except ImportError:
    pass


if __name__ == "__main__":
    sys.exit(main())
