"""Demo for property C17 (phase unwrapping recovers any smooth phase up to a constant).

Embeds a verbatim copy of the ORIGINAL unwrapping code of
quantem.core.utils.imaging_utils (functions _wrap_to_pi .. unwrap_phase_2d_torch)
and checks, on a spread of grids / fields / masks / wrap_around settings, that
the installed (possibly patched) functions are bit-for-bit identical to it:
_build_edges, UnionFindPhase.union (state after every merge), _final_offsets,
_unwrap_phase_2d_torch_reliability_sorting, _unwrap_phase_2d_torch_poisson and
the public unwrap_phase_2d_torch.  It also asserts the property itself.
"""

import math
import sys

import numpy as np
import torch

import quantem.core.utils.imaging_utils as new

# --------------------------------------------------------------------------
# verbatim copy of the original code
# --------------------------------------------------------------------------
_ORIG_SRC = r'''
def _wrap_to_pi(x):
    return (x + math.pi) % (2 * math.pi) - math.pi


def _find_wrap(a, b):
    d = a - b
    return torch.where(d > math.pi, -1, torch.where(d < -math.pi, 1, 0))


def _pixel_reliability(phi, mask=None):
    """
    phi: (H, W) wrapped phase (CPU tensor)
    mask: optional boolean mask
    """
    c = phi
    left = torch.roll(c, 1, 1)
    right = torch.roll(c, -1, 1)
    up = torch.roll(c, 1, 0)
    down = torch.roll(c, -1, 0)

    ul = torch.roll(left, 1, 0)
    dr = torch.roll(right, -1, 0)
    ur = torch.roll(right, 1, 0)
    dl = torch.roll(left, -1, 0)

    Hterm = _wrap_to_pi(left - c) - _wrap_to_pi(c - right)
    Vterm = _wrap_to_pi(up - c) - _wrap_to_pi(c - down)
    D1term = _wrap_to_pi(ul - c) - _wrap_to_pi(c - dr)
    D2term = _wrap_to_pi(ur - c) - _wrap_to_pi(c - dl)

    R = Hterm**2 + Vterm**2 + D1term**2 + D2term**2

    if mask is not None:
        R = torch.where(mask, R, torch.full_like(R, float("inf")))

    return R


def _build_edges(phi, reliability, mask=None, wrap_around=True):
    """
    Returns edges as CPU tensors:
        i1, i2, inc sorted by reliability
    """
    H, W = phi.shape
    N = H * W

    idx = torch.arange(N).reshape(H, W)
    edges = []

    phi_f = phi.flatten()
    rel_f = reliability.flatten()
    mask_f = mask.flatten() if mask is not None else None

    def add_edges(i1, i2):
        if mask_f is not None:
            valid = mask_f[i1] & mask_f[i2]
            i1, i2 = i1[valid], i2[valid]

        inc = _find_wrap(phi_f[i1], phi_f[i2])
        rel = rel_f[i1] + rel_f[i2]

        edges.append(  # ty:ignore[possibly-missing-attribute]
            torch.stack([i1, i2, rel, inc], dim=1)
        )

    if wrap_around:
        add_edges(idx.flatten(), torch.roll(idx, -1, 1).flatten())
        add_edges(idx.flatten(), torch.roll(idx, -1, 0).flatten())
    else:
        add_edges(idx[:, :-1].flatten(), idx[:, 1:].flatten())
        add_edges(idx[:-1, :].flatten(), idx[1:, :].flatten())

    edges = torch.cat(edges, dim=0)
    edges = edges[edges[:, 2].argsort()]

    # return integer tensors only (CPU)
    return (
        edges[:, 0].long(),
        edges[:, 1].long(),
        edges[:, 3].long(),
    )


class UnionFindPhase:
    def __init__(self, n):
        self.parent = torch.arange(n)
        self.rank = torch.zeros(n, dtype=torch.int32)
        self.offset = torch.zeros(n)

    def find_root_and_offset(self, x):
        root = x
        total = 0.0
        while self.parent[root] != root:
            total += self.offset[root]
            root = self.parent[root]
        return root, total

    def union(self, x, y, inc_xy):
        rx, ox = self.find_root_and_offset(x)
        ry, oy = self.find_root_and_offset(y)

        if rx == ry:
            return

        # phase(y) + oy + inc = phase(x) + ox
        delta = ox - oy - inc_xy

        if self.rank[rx] < self.rank[ry]:
            self.parent[rx] = ry
            self.offset[rx] = -delta
        else:
            self.parent[ry] = rx
            self.offset[ry] = delta
            if self.rank[rx] == self.rank[ry]:
                self.rank[rx] += 1


def _final_offsets(uf):
    """
    Single-pass offset computation (no path compression).
    """
    N = uf.parent.numel()
    incs = torch.zeros(N)

    for i in range(N):
        root = i
        total = 0.0
        while uf.parent[root] != root:
            total += uf.offset[root]
            root = uf.parent[root]
        incs[i] = total

    return incs


def _unwrap_phase_2d_torch_reliability_sorting(
    phi,
    mask=None,
    wrap_around=True,
):
    """
    Herráez 2D phase unwrapping.
    Runs on CPU by design.
    """
    with torch.no_grad():
        orig_device = phi.device
        phi = phi.detach().cpu()
        if mask is not None:
            mask = mask.detach().cpu().to(torch.bool)

        H, W = phi.shape
        N = H * W

        reliability = _pixel_reliability(phi, mask)

        i1, i2, inc = _build_edges(
            phi,
            reliability,
            mask,
            wrap_around=wrap_around,
        )

        uf = UnionFindPhase(N)

        for k in range(i1.numel()):
            uf.union(i1[k].item(), i2[k].item(), inc[k].item())

        incs = _final_offsets(uf)

        out = (phi.flatten() + 2 * math.pi * incs).reshape(H, W)
        out -= out.mean()
        return out.to(orig_device)


def _unwrap_phase_2d_torch_poisson(
    phi_wrapped,
    mask=None,
    wrap_around=True,
    regularization_lambda=None,
):
    """
    Least-squares / Poisson phase unwrapping with optional mask.

    Parameters
    ----------
    phi_wrapped : (H, W) tensor
        Wrapped phase in (-pi, pi], any device
    mask : (H, W) bool tensor, optional
        True = valid pixel

    Returns
    -------
    phi_unwrapped : (H, W) tensor
        Unwrapped phase (same device as input)
    """
    device = phi_wrapped.device
    dtype = phi_wrapped.dtype
    H, W = phi_wrapped.shape

    if not wrap_around:
        raise NotImplementedError()

    if mask is not None:
        mask = mask.to(device=device, dtype=torch.bool)

    dx = torch.roll(phi_wrapped, -1, dims=1) - phi_wrapped
    dy = torch.roll(phi_wrapped, -1, dims=0) - phi_wrapped

    dx = (dx + math.pi) % (2 * math.pi) - math.pi
    dy = (dy + math.pi) % (2 * math.pi) - math.pi

    if mask is not None:
        mask_x = mask & torch.roll(mask, -1, dims=1)
        mask_y = mask & torch.roll(mask, -1, dims=0)

        dx = torch.where(mask_x, dx, torch.zeros_like(dx))
        dy = torch.where(mask_y, dy, torch.zeros_like(dy))

    div = dx - torch.roll(dx, 1, dims=1) + dy - torch.roll(dy, 1, dims=0)

    if mask is not None:
        div = torch.where(mask, div, torch.zeros_like(div))

    div_hat = torch.fft.fftn(div)

    ky = torch.fft.fftfreq(H, device=device, dtype=dtype) * 2 * math.pi
    kx = torch.fft.fftfreq(W, device=device, dtype=dtype) * 2 * math.pi
    ky, kx = torch.meshgrid(ky, kx, indexing="ij")

    if regularization_lambda is not None:
        denom = kx**2 + ky**2 + regularization_lambda
    else:
        denom = kx**2 + ky**2
    denom[0, 0] = 1.0  # avoid divide by zero

    phi_hat = -div_hat / denom
    phi_hat[0, 0] = 0.0  # fix piston

    phi = torch.fft.ifftn(phi_hat).real

    if mask is not None:
        phi = torch.where(mask, phi, torch.zeros_like(phi))

    return phi


def unwrap_phase_2d_torch(
    phi_wrapped,
    method="reliability-sorting",
    mask=None,
    wrap_around=True,
    regularization_lambda=None,
):
    if method == "reliability-sorting":
        return _unwrap_phase_2d_torch_reliability_sorting(
            phi_wrapped, mask, wrap_around=wrap_around
        )
    elif method == "poisson":
        return _unwrap_phase_2d_torch_poisson(
            phi_wrapped,
            mask,
            wrap_around=wrap_around,
            regularization_lambda=regularization_lambda,
        )
    else:
        raise ValueError(
            f'`method` must be one of {{"reliability-sorting", "poisson"}}, got {method!r}'
        )
'''

old = type(sys)("orig_unwrap")
old.__dict__.update({"math": math, "torch": torch})
exec(compile(_ORIG_SRC, "<orig_unwrap>", "exec"), old.__dict__)


def bits(t):
    t = t.detach().cpu().contiguous()
    return (str(t.dtype), tuple(t.shape), t.numpy().tobytes())


def same(a, b, what):
    assert type(a) is type(b), (what, type(a), type(b))
    assert a.dtype == b.dtype, (what, a.dtype, b.dtype)
    assert a.shape == b.shape, (what, a.shape, b.shape)
    assert a.stride() == b.stride(), (what, a.stride(), b.stride())
    assert bits(a) == bits(b), (what, "values differ")


def wrap(x):
    return torch.angle(torch.exp(1j * x.to(torch.float64))).to(x.dtype)


def components(mask, wrap_around):
    # 4-connected components of a boolean (H, W) numpy mask
    H, W = mask.shape
    lab = -np.ones((H, W), dtype=int)
    n = 0
    for r0 in range(H):
        for c0 in range(W):
            if not mask[r0, c0] or lab[r0, c0] >= 0:
                continue
            stack = [(r0, c0)]
            lab[r0, c0] = n
            while stack:
                r, c = stack.pop()
                for dr, dc in ((1, 0), (-1, 0), (0, 1), (0, -1)):
                    rr, cc = r + dr, c + dc
                    if wrap_around:
                        rr %= H
                        cc %= W
                    elif not (0 <= rr < H and 0 <= cc < W):
                        continue
                    if mask[rr, cc] and lab[rr, cc] < 0:
                        lab[rr, cc] = n
                        stack.append((rr, cc))
            n += 1
    return lab, n


def max_neighbour_diff(f, mask, wrap_around):
    f = f.double().numpy()
    m = np.ones(f.shape, bool) if mask is None else mask.numpy()
    best = 0.0
    for ax in (0, 1):
        if wrap_around:
            d = np.abs(np.roll(f, -1, ax) - f)
            mm = m & np.roll(m, -1, ax)
        else:
            d = np.abs(np.diff(f, axis=ax))
            mm = (m[1:] & m[:-1]) if ax == 0 else (m[:, 1:] & m[:, :-1])
        if mm.any():
            best = max(best, d[mm].max())
    return best


def fields(H, W, gen):
    y, x = torch.meshgrid(
        torch.arange(H, dtype=torch.float32), torch.arange(W, dtype=torch.float32), indexing="ij"
    )
    out = {}
    # bounded-grid fields
    out["ramp"] = (0.9 * x - 0.7 * y, False)
    out["quadratic"] = (0.05 * (x - W / 2) ** 2 - 0.04 * (y - H / 3) ** 2, False)
    out["bump"] = (
        14.0 * torch.exp(-((x - W / 2) ** 2 + (y - H / 2) ** 2) / (2 * (min(H, W) / 4) ** 2)),
        False,
    )
    # periodic fields
    out["periodic"] = (
        6.0 * torch.sin(2 * math.pi * x / W) + 4.0 * torch.cos(2 * math.pi * y / H),
        True,
    )
    spec = torch.zeros(H, W, dtype=torch.complex64)
    for ky in range(-2, 3):
        for kx in range(-2, 3):
            spec[ky % H, kx % W] = torch.complex(
                torch.randn((), generator=gen), torch.randn((), generator=gen)
            )
    bl = torch.fft.ifft2(spec).real
    bl = bl / (bl.abs().max() + 1e-12)
    scale = 2.5 / max(max_neighbour_diff(bl, None, True), 1e-6)
    out["bandlimited"] = ((bl * scale).float(), True)
    return out


def masks(H, W):
    y, x = np.mgrid[:H, :W]
    ms = {"none": None}
    disk = (x - W / 2) ** 2 + (y - H / 2) ** 2 <= (min(H, W) / 2 - 1) ** 2
    ms["disk"] = disk
    annulus = disk & ~((x - W / 2) ** 2 + (y - H / 2) ** 2 <= (min(H, W) / 5) ** 2)
    ms["annulus"] = annulus
    two = np.zeros((H, W), bool)
    two[1 : H // 2 - 1, 1 : W - 1] = True
    two[H // 2 + 1 : H - 1, 2 : W // 2] = True
    two[H // 2 + 2, 3] = False  # a hole
    ms["two_blocks"] = two
    edge = np.ones((H, W), bool)
    edge[H // 3, : W // 2] = False
    edge[:, W - 3] = False
    ms["touching_border"] = edge
    return {k: (None if v is None else torch.from_numpy(v)) for k, v in ms.items()}


def check_property(field, wrapped, out, mask, wrap_around, what):
    m = np.ones(tuple(field.shape), bool) if mask is None else mask.numpy()
    lab, n = components(m, wrap_around)
    d_true = (out.double() - field.double()).numpy()
    d_wrapped = (out.double() - wrapped.double()).numpy()
    for k in range(n):
        sel = lab == k
        v = d_true[sel]
        assert np.ptp(v) < 2e-3, (what, "not constant on component", k, np.ptp(v))
        w = d_wrapped[sel]
        q = (w - w[0]) / (2 * math.pi)
        assert np.abs(q - np.round(q)).max() < 1e-3, (what, "not 2*pi multiples", k)


def compare_union_find(i1, i2, inc, n, what):
    a, b = old.UnionFindPhase(n), new.UnionFindPhase(n)
    for k in range(i1.numel()):
        args = (i1[k].item(), i2[k].item(), inc[k].item())
        ra = a.union(*args)
        rb = b.union(*args)
        assert ra is None and rb is None
        same(a.parent, b.parent, what + " parent")
        same(a.rank, b.rank, what + " rank")
        same(a.offset, b.offset, what + " offset")
    same(old._final_offsets(a), new._final_offsets(b), what + " final offsets")
    same(old._final_offsets(b), new._final_offsets(a), what + " final offsets (crossed)")
    for x in range(n):
        r0, t0 = a.find_root_and_offset(x)
        r1, t1 = b.find_root_and_offset(x)
        assert int(r0) == int(r1) and float(t0) == float(t1), what


def main():
    torch.set_num_threads(1)
    gen = torch.Generator().manual_seed(1234)
    n_cases = 0
    n_prop = 0

    # ---- 1. old == new on the helper level, many shapes (incl. degenerate) ----
    shapes = [(1, 1), (1, 7), (7, 1), (2, 2), (2, 5), (5, 2), (3, 3), (6, 9), (9, 6), (0, 4), (4, 0)]
    for H, W in shapes:
        for dtype in (torch.float32, torch.float64):
            phi = ((torch.rand(H, W, generator=gen, dtype=torch.float64) * 2 - 1) * math.pi).to(dtype)
            for use_mask in (False, True):
                mask = (torch.rand(H, W, generator=gen) > 0.25) if use_mask else None
                for wrap_around in (True, False):
                    what = f"helpers {H}x{W} {dtype} mask={use_mask} wrap={wrap_around}"
                    r_old = old._pixel_reliability(phi, mask)
                    r_new = new._pixel_reliability(phi, mask)
                    same(r_old, r_new, what + " reliability")
                    e_old = old._build_edges(phi, r_old, mask, wrap_around=wrap_around)
                    e_new = new._build_edges(phi, r_new, mask, wrap_around=wrap_around)
                    assert len(e_old) == len(e_new) == 3
                    for u, v, nm in zip(e_old, e_new, ("i1", "i2", "inc")):
                        same(u, v, what + " edges " + nm)
                    compare_union_find(*e_old, H * W, what)
                    o_old = old.unwrap_phase_2d_torch(phi, "reliability-sorting", mask, wrap_around)
                    o_new = new.unwrap_phase_2d_torch(phi, "reliability-sorting", mask, wrap_around)
                    same(o_old, o_new, what + " unwrap")
                    if H > 0 and W > 0 and wrap_around:
                        for lam in (None, 0, 0.0, 1e-3, torch.tensor(0.5, dtype=dtype)):
                            p_old = old._unwrap_phase_2d_torch_poisson(phi, mask, True, lam)
                            p_new = new._unwrap_phase_2d_torch_poisson(phi, mask, True, lam)
                            same(p_old, p_new, what + f" poisson lam={lam}")
                    n_cases += 1

    # union-find driven directly with hand-made merge orders (chains, stars, repeats)
    for n, seed in ((6, 0), (12, 1), (25, 2), (40, 3)):
        g = torch.Generator().manual_seed(seed)
        m = 4 * n
        i1 = torch.randint(0, n, (m,), generator=g)
        i2 = torch.randint(0, n, (m,), generator=g)
        inc = torch.randint(-1, 2, (m,), generator=g)
        compare_union_find(i1, i2, inc, n, f"random unions n={n}")
        ch = torch.arange(n - 1)
        compare_union_find(ch, ch + 1, torch.ones(n - 1, dtype=torch.long), n, f"chain n={n}")
        compare_union_find(ch + 1, ch, -torch.ones(n - 1, dtype=torch.long), n, f"rchain n={n}")
        # pairs first, then pairs of pairs: forces rank ties and rank[rx] < rank[ry]
        a = torch.cat([torch.arange(0, n - 1, 2), torch.arange(0, n - 3, 4), torch.arange(n - 1, 0, -1)])
        b = torch.cat([torch.arange(1, n, 2), torch.arange(2, n - 1, 4), torch.zeros(n - 1, dtype=torch.long)])
        compare_union_find(b, a, torch.arange(a.numel()) % 3 - 1, n, f"tournament n={n}")

    # ---- 2. the property, and old == new, on smooth fields ----
    for H, W in ((24, 20), (17, 23)):
        fs = fields(H, W, gen)
        ms = masks(H, W)
        for fname, (field, periodic) in fs.items():
            for mname, mask in ms.items():
                for wrap_around in (True, False):
                    what = f"{H}x{W} {fname} mask={mname} wrap={wrap_around}"
                    wrapped = wrap(field)
                    for layout in ("contig", "transposed"):
                        w_in = wrapped if layout == "contig" else wrapped.T.contiguous().T
                        o_old = old.unwrap_phase_2d_torch(w_in, "reliability-sorting", mask, wrap_around)
                        o_new = new.unwrap_phase_2d_torch(
                            w_in, method="reliability-sorting", mask=mask, wrap_around=wrap_around
                        )
                        same(o_old, o_new, what + " " + layout)
                    if wrap_around:
                        p_old = old.unwrap_phase_2d_torch(wrapped, "poisson", mask, True, None)
                        p_new = new.unwrap_phase_2d_torch(wrapped, "poisson", mask, True, None)
                        same(p_old, p_new, what + " poisson")
                    n_cases += 1
                    # the exactness claim needs the Itoh condition on every edge that is used
                    if wrap_around and not periodic:
                        continue
                    if max_neighbour_diff(field, mask, wrap_around) >= math.pi - 1e-3:
                        continue
                    check_property(field, wrapped, o_new, mask, wrap_around, what)
                    n_prop += 1
                    # already-unwrapped smooth input with a small range comes back unchanged
                    small = field * (1.0 / max(float(field.abs().max()), 1.0))
                    o_small = new.unwrap_phase_2d_torch(small, "reliability-sorting", mask, wrap_around)
                    same(old.unwrap_phase_2d_torch(small, "reliability-sorting", mask, wrap_around), o_small, what)
                    check_property(small, small, o_small, mask, wrap_around, what + " small")
                    mm = np.ones((H, W), bool) if mask is None else mask.numpy()
                    dd = (o_small - small).numpy()[mm]
                    assert np.ptp(dd) < 1e-4, (what, "smooth unwrapped input changed")

    # ---- 3. error behaviour is the same ----
    for fn_args in (
        ("nope", None, True),
        ("poisson", None, False),
    ):
        errs = []
        for mod in (old, new):
            try:
                mod.unwrap_phase_2d_torch(torch.zeros(3, 3), *fn_args)
                errs.append(None)
            except Exception as e:  # noqa: BLE001
                errs.append((type(e), str(e)))
        assert errs[0] == errs[1] and errs[0] is not None, errs
    for bad in (torch.zeros(5), torch.zeros(2, 3, 4)):
        errs = []
        for mod in (old, new):
            for meth in ("reliability-sorting", "poisson"):
                try:
                    mod.unwrap_phase_2d_torch(bad, meth)
                    errs.append(None)
                except Exception as e:  # noqa: BLE001
                    errs.append((type(e), str(e)))
        assert errs[:2] == errs[2:] and None not in errs, errs

    assert n_prop >= 40, n_prop
    print(f"OK: {n_cases} cases old == new bit-for-bit; property C17 asserted on {n_prop} field/mask/wrap cases")


if __name__ == "__main__":
    main()
