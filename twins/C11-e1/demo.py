"""Demo for C11 patch 1: row-major traversal used by Vector.flatten,
_FieldView.flatten and _FieldView.set_flattened.

Checks (a) the property: a field's flattened view is the row-major concatenation
of that column over all populated cells and writing it back restores the data,
and (b) that the functions in the installed module behave exactly like verbatim
copies of the ORIGINAL implementations (results, dtypes, exceptions and partial
side effects when an exception is raised half-way).
"""

import copy
import itertools
from typing import Any, List

import numpy as np
from numpy.typing import NDArray

from quantem.core.datastructures.vector import Vector, _FieldView


# ----------------------------------------------------------------------------
# Verbatim copies of the ORIGINAL implementations (as plain functions of self)
# ----------------------------------------------------------------------------
def orig_vector_flatten(self) -> NDArray:
    def collect_arrays(data: Any) -> List[NDArray]:
        if isinstance(data, np.ndarray):
            return [data]
        elif isinstance(data, list):
            arrays = []
            for item in data:
                arrays.extend(collect_arrays(item))
            return arrays
        else:
            return []

    arrays = collect_arrays(self._data)
    if not arrays:
        return np.empty((0, self.num_fields))
    return np.vstack(arrays)


def orig_fv_flatten(self) -> NDArray:
    def collect(arr: Any) -> List[NDArray]:
        if isinstance(arr, np.ndarray):
            return [arr[:, self.field_index]]
        elif isinstance(arr, list):
            result = []
            for sub in arr:
                result.extend(collect(sub))
            return result
        else:
            return []

    arrays = collect(self.vector._data)
    if not arrays:
        return np.empty((0,), dtype=float)
    return np.concatenate(arrays, axis=0)


def orig_fv_set_flattened(self, values) -> None:
    def fill(arr: Any, values: NDArray, cursor: int) -> int:
        if isinstance(arr, np.ndarray):
            n = arr.shape[0]
            arr[:, self.field_index] = values[cursor : cursor + n]
            return cursor + n
        elif isinstance(arr, list):
            for sub in arr:
                cursor = fill(sub, values, cursor)
            return cursor
        return cursor

    values = np.asarray(values)
    if values.ndim != 1:
        raise ValueError("Input to set_flattened must be a 1D array.")

    expected = orig_fv_flatten(self).shape[0]
    if values.shape[0] != expected:
        raise ValueError(f"Expected {expected} values, got {values.shape[0]}")

    fill(self.vector._data, values, cursor=0)


# ----------------------------------------------------------------------------
# helpers
# ----------------------------------------------------------------------------
def same_array(a, b):
    assert type(a) is type(b), (type(a), type(b))
    assert a.dtype == b.dtype, (a.dtype, b.dtype)
    assert a.shape == b.shape, (a.shape, b.shape)
    assert np.array_equal(a, b, equal_nan=(a.dtype.kind in "fc")), (a, b)


def same_nested(a, b):
    """Structural equality of two nested-list stores (lists / arrays / None)."""
    if isinstance(a, list):
        assert isinstance(b, list) and len(a) == len(b)
        for x, y in zip(a, b):
            same_nested(x, y)
    elif isinstance(a, np.ndarray):
        assert isinstance(b, np.ndarray)
        same_array(a, b)
    else:
        assert a is None and b is None, (a, b)


def outcome(fn, *args):
    """Run fn and normalise its outcome to something comparable."""
    try:
        return ("ok", fn(*args))
    except Exception as exc:  # noqa: BLE001
        return ("err", type(exc), str(exc))


def same_outcome(a, b):
    assert a[0] == b[0], (a, b)
    if a[0] == "err":
        assert a[1:] == b[1:], (a, b)
    elif a[1] is None:
        assert b[1] is None
    else:
        same_array(a[1], b[1])


def cell_at(data, idx):
    ref = data
    for i in idx:
        ref = ref[i]
    return ref


def reference_rows(v):
    """Pure-python row-major list of rows (each a list of python scalars)."""
    rows = []
    for idx in itertools.product(*[range(s) for s in v.shape]):
        cell = cell_at(v._data, idx)
        if cell is None:
            continue
        assert cell.ndim == 2 and cell.shape[1] == v.num_fields
        rows.extend(cell.tolist())
    return rows


def make_vector(rng, shape, nf, p_unset, dtype_pool):
    fields = [f"f{i}" for i in range(nf)]
    v = Vector.from_shape(shape=shape, fields=fields, units=[f"u{i}" for i in range(nf)])
    for idx in itertools.product(*[range(s) for s in shape]):
        if rng.random() < p_unset:
            continue
        nrows = int(rng.choice([0, 0, 1, 2, 3, 5]))
        dt = dtype_pool[int(rng.integers(len(dtype_pool)))]
        arr = (rng.normal(size=(nrows, nf)) * 10).astype(dt)
        v[idx] = arr
    return v


def check_vector(v, rng):
    rows = reference_rows(v)

    # --- Vector.flatten: same as original, same as reference
    new = outcome(v.flatten)
    old = outcome(orig_vector_flatten, v)
    same_outcome(new, old)
    if new[0] == "ok":
        flat = new[1]
        assert flat.ndim == 2 and flat.shape == (len(rows), v.num_fields)
        assert np.array_equal(flat, np.array(rows).reshape(len(rows), v.num_fields))

    # --- per field flatten / set_flattened
    for k, name in enumerate(v.fields):
        view = v[name]
        assert isinstance(view, _FieldView)
        new = outcome(view.flatten)
        old = outcome(orig_fv_flatten, view)
        same_outcome(new, old)
        col = new[1]
        assert col.ndim == 1 and col.shape[0] == len(rows)
        assert np.array_equal(col, np.array([r[k] for r in rows], dtype=col.dtype))
        same_array(np.asarray(view), col)  # __array__ goes through flatten

        # write new values with new and original implementation on twin copies
        a, b = v.copy(), v.copy()
        vals = rng.normal(size=len(rows)) * 3
        same_outcome(outcome(a[name].set_flattened, vals), outcome(orig_fv_set_flattened, b[name], vals))
        same_nested(a._data, b._data)
        # other columns untouched, addressed column equals what the cells can hold
        for j, other in enumerate(v.fields):
            if j != k:
                same_array(a[other].flatten(), v[other].flatten())
        # round trip: writing the flattened view back restores the same data
        c = a.copy()
        c[name].set_flattened(a[name].flatten())
        same_nested(c._data, a._data)
        a[name].set_flattened(v[name].flatten())
        same_nested(a._data, v._data)
        # __setitem__ with a field name routes through set_flattened
        d, e = v.copy(), v.copy()
        d[name] = vals
        orig_fv_set_flattened(_FieldView(e, name), vals)
        same_nested(d._data, e._data)

        # wrong length / wrong rank
        for bad in (np.zeros(len(rows) + 1), np.zeros(max(len(rows) - 1, 0) if rows else 3),
                    np.zeros((len(rows), 1)), 3.0):
            a, b = v.copy(), v.copy()
            same_outcome(outcome(a[name].set_flattened, bad), outcome(orig_fv_set_flattened, b[name], bad))
            same_nested(a._data, b._data)

        # failure injection: a value that cannot be stored, somewhere in the middle
        if len(rows) >= 2:
            pos = int(rng.integers(len(rows)))
            bad = np.array([1.5] * len(rows), dtype=object)
            bad[pos] = "not-a-number"
            a, b = v.copy(), v.copy()
            ra = outcome(a[name].set_flattened, bad)
            rb = outcome(orig_fv_set_flattened, b[name], bad)
            same_outcome(ra, rb)
            assert ra[0] == "err"
            same_nested(a._data, b._data)  # identical partial writes


def main():
    rng = np.random.default_rng(1234)
    shapes = [(1,), (3,), (7,), (1, 1), (4, 3), (2, 5), (5, 1), (1, 1, 1), (2, 3, 2), (3, 1, 4)]
    pools = [[np.float64], [np.int64], [np.float32, np.float64, np.int32], [np.complex128]]
    n = 0
    for shape in shapes:
        for nf in (1, 2, 4):
            for p_unset in (0.0, 0.35, 1.0):
                pool = pools[n % len(pools)]
                v = make_vector(rng, shape, nf, p_unset, pool)
                snapshot = copy.deepcopy(v._data)
                check_vector(v, rng)
                same_nested(v._data, snapshot)  # read paths did not mutate v
                n += 1

    # from_data vectors (1-D), including zero-row cells and integer data
    data = [np.arange(6).reshape(3, 2), np.zeros((0, 2), dtype=int), np.array([[7, 8]])]
    v = Vector.from_data(data, fields=["x", "y"], units=["m", "s"])
    check_vector(v, rng)
    assert v["y"].flatten().tolist() == [1, 3, 5, 8]
    assert v["y"].flatten().dtype == data[0].dtype
    assert v.flatten().tolist() == [[0, 1], [2, 3], [4, 5], [7, 8]]

    # multi-step sequence interleaving add/remove fields with flatten/set_flattened
    v = make_vector(rng, (3, 2), 2, 0.2, [np.float64])
    w = v.copy()
    for step in range(6):
        v.add_fields([f"g{step}"])
        w.add_fields([f"g{step}"])
        nrows = v.flatten().shape[0]
        vals = rng.normal(size=nrows)
        v[f"g{step}"].set_flattened(vals)
        orig_fv_set_flattened(_FieldView(w, f"g{step}"), vals)
        same_nested(v._data, w._data)
        same_array(v[f"g{step}"].flatten(), vals.astype(v.flatten().dtype))
        if step % 2:
            v.remove_fields([f"g{step - 1}"])
            w.remove_fields([f"g{step - 1}"])
        v["f0"] += 1.0
        w["f0"] += 1.0
        same_array(v.flatten(), orig_vector_flatten(w))
        check_vector(v, rng)

    # copies share no mutable state through the flattened views
    v = make_vector(rng, (2, 2), 3, 0.0, [np.float64])
    c = v.copy()
    before = v.flatten().copy()
    c["f1"].set_flattened(np.full(c.flatten().shape[0], -99.0))
    same_array(v.flatten(), before)
    out = v.flatten()
    out[...] = 0  # result of flatten is a fresh array
    same_array(v.flatten(), before)

    # malformed store (1-D cell smuggled in): same exception from old and new
    v = make_vector(rng, (2, 2), 2, 0.0, [np.float64])
    v._data[1][0] = np.zeros(4)
    same_outcome(outcome(v["f1"].flatten), outcome(orig_fv_flatten, v["f1"]))
    same_outcome(outcome(v.flatten), outcome(orig_vector_flatten, v))

    print(f"PASS ({n} random vectors)")


if __name__ == "__main__":
    main()
