"""E4 — may-alias / freshness classification of numpy/list values (intra-procedural).

fresh(expr) answers: can the value of `expr` share storage with object state reachable from
`self` (or with a parameter)?  'fresh' = definitely new storage, 'alias' = may share, with the
state roots it may share with.
"""
from __future__ import annotations

import ast
from typing import Optional

from ..core.repo import call_name, definitions, dotted, is_const, kwarg, unparse

FRESH_FUNCS = {
    "np.array", "np.copy", "np.pad", "np.zeros", "np.ones", "np.empty", "np.full", "np.arange",
    "np.sum", "np.mean", "np.prod", "np.concatenate", "np.stack", "np.vstack", "np.hstack",
    "np.fft.fftn", "np.fft.ifftn", "np.fft.fft2", "np.fft.ifft2", "np.fft.fftshift",
    "np.fft.ifftshift", "np.fft.fft", "np.fft.ifft", "np.roll", "np.where", "np.zeros_like",
    "np.ones_like", "np.abs", "np.sqrt", "np.round", "np.floor", "np.ceil", "np.linspace",
    "copy.deepcopy", "deepcopy", "list", "tuple", "dict", "sorted", "np.full_like", "np.flip",
    "np.median", "np.max", "np.min", "np.clip", "np.exp", "np.log", "np.multiply", "np.add",
    "np.subtract", "np.divide", "np.tile", "np.repeat", "np.take", "np.delete", "np.insert",
    "np.append",
}
ALIAS_FUNCS = {"np.asarray", "np.asanyarray", "np.ascontiguousarray", "np.atleast_1d", "np.squeeze",
               "np.reshape", "np.ravel", "np.transpose", "np.swapaxes", "np.moveaxis", "np.broadcast_to",
               "np.expand_dims", "np.real", "np.imag", "cast"}
FRESH_METHODS = {"copy", "astype", "flatten", "sum", "mean", "max", "min", "tolist", "round", "conj", "clip",
                 "cumsum", "prod", "std", "var", "dot", "repeat", "take", "nonzero", "argsort", "tobytes"}
ALIAS_METHODS = {"reshape", "view", "ravel", "squeeze", "transpose", "swapaxes", "__getitem__"}
ALIAS_ATTRS = {"T", "real", "imag", "flat"}


class Aliasing:
    def __init__(self, fn: ast.AST, state_attrs: set[str], getters: dict[str, str],
                 fresh_callees: set[str] = frozenset(), invariants_true=(), list_state=frozenset({"_units"})):
        """state_attrs: private attribute names that are object state (e.g. {'_array', ...});
        getters: public property name → private attr it returns (alias);
        fresh_callees: names of repo functions proven to return fresh storage;
        invariants_true: predicates (source text) known to be true (dead else-arms)."""
        self.fn = fn
        self.state = state_attrs
        self.getters = getters
        self.fresh_callees = set(fresh_callees)
        self.inv = set(invariants_true)
        self.list_state = set(list_state)  # state attributes that are Python lists (not arrays)

    def roots(self, e: ast.AST, depth: int = 0, self_names=("self",)) -> set[str]:
        """State roots `e` may share storage with; empty set = fresh."""
        if depth > 12:
            return {"?"}
        if isinstance(e, ast.Constant):
            return set()
        if isinstance(e, ast.Attribute):
            base = dotted(e.value)
            if base in self_names:
                if e.attr in self.state:
                    return {e.attr}
                if e.attr in self.getters:
                    return {self.getters[e.attr]}
                return set()
            if e.attr in ALIAS_ATTRS:
                return self.roots(e.value, depth + 1, self_names)
            return self.roots(e.value, depth + 1, self_names)
        if isinstance(e, ast.Name):
            out: set[str] = set()
            busy = self.__dict__.setdefault("_busy", set())
            if e.id in busy:
                return set()  # self-referential definition (x = x.real): contributes nothing new
            busy.add(e.id)
            try:
                return self._name_roots(e, depth, self_names)
            finally:
                busy.discard(e.id)
        return self._roots2(e, depth, self_names)

    def _name_roots(self, e, depth, self_names):
        if True:
            out: set[str] = set()
            for d in definitions(self.fn, e.id):
                if isinstance(d, ast.AST):
                    out |= self.roots(d, depth + 1, self_names)
                elif d.__class__.__name__ in ("TupleItem", "IterItem"):
                    v = getattr(d, "value", None) or getattr(d, "iter", None)
                    if v is not None:
                        out |= self.roots(v, depth + 1, self_names)
                elif d.__class__.__name__ == "AugValue":
                    pass
            return out

    def _roots2(self, e, depth, self_names):
        if isinstance(e, ast.Subscript):
            base = self.roots(e.value, depth + 1, self_names)
            if not base:
                return set()
            if self._is_fancy(e.slice):
                return set()  # advanced indexing copies
            if base <= self.list_state and isinstance(e.slice, ast.Slice):
                return set()  # slicing a Python list copies it
            return base
        if isinstance(e, ast.IfExp):
            t = unparse(e.test)
            if t in self.inv:
                return self.roots(e.body, depth + 1, self_names)
            return self.roots(e.body, depth + 1, self_names) | self.roots(e.orelse, depth + 1, self_names)
        if isinstance(e, (ast.BinOp, ast.UnaryOp, ast.Compare, ast.BoolOp, ast.ListComp, ast.List, ast.Tuple,
                          ast.Dict, ast.Set, ast.DictComp, ast.SetComp, ast.GeneratorExp, ast.JoinedStr)):
            return set()
        if isinstance(e, ast.Call):
            cn = call_name(e) or ""
            if isinstance(e.func, ast.Attribute):
                m = e.func.attr
                recv = e.func.value
                if cn in FRESH_FUNCS:
                    c = kwarg(e, "copy")
                    if c is not None and is_const(c, False) and e.args:
                        return self.roots(e.args[0], depth + 1, self_names)
                    return set()
                if cn in ALIAS_FUNCS:
                    return self.roots(e.args[0], depth + 1, self_names) if e.args else set()
                if m in FRESH_METHODS:
                    if m == "astype":
                        c = kwarg(e, "copy")
                        if c is not None and is_const(c, False):
                            return self.roots(recv, depth + 1, self_names)
                    return set()
                if m in ALIAS_METHODS:
                    return self.roots(recv, depth + 1, self_names)
                if cn.split(".")[-1] in self.fresh_callees or cn in self.fresh_callees:
                    return set()
                # unknown method: may return a view of the receiver or of an argument
                out = self.roots(recv, depth + 1, self_names)
                for a in e.args:
                    out |= self.roots(a, depth + 1, self_names)
                return out
            if cn in FRESH_FUNCS or cn in self.fresh_callees:
                return set()
            if cn in ALIAS_FUNCS:
                return self.roots(e.args[-1] if cn == "cast" else e.args[0], depth + 1, self_names) if e.args else set()
            out = set()
            for a in list(e.args) + [k.value for k in e.keywords]:
                out |= self.roots(a, depth + 1, self_names)
            return out
        if isinstance(e, ast.Starred):
            return self.roots(e.value, depth + 1, self_names)
        return {"?"}

    def _is_fancy(self, sl: ast.AST) -> bool:
        """Index by a list/array (advanced indexing → copy)."""
        if isinstance(sl, (ast.List, ast.ListComp)):
            return True
        if isinstance(sl, ast.Name):
            defs = definitions(self.fn, sl.id)
            return bool(defs) and all(
                isinstance(d, (ast.List, ast.ListComp)) or (isinstance(d, ast.Call) and call_name(d) in ("list", "sorted", "np.asarray", "np.array", "np.arange", "np.nonzero", "np.flatnonzero"))
                for d in defs)
        if isinstance(sl, ast.Tuple):
            return any(self._is_fancy(x) for x in sl.elts)
        return False


def shared_mutable_values(fn: ast.AST) -> list[tuple[ast.AST, str]]:
    """Constructs that put ONE mutable object under many keys / positions: `dict.fromkeys(keys, {})`,
    `[[]] * n`, `[{}] * n` (and list()/dict()/set() spellings).  Returns [(node, description)]."""
    def mutable(e: ast.AST) -> bool:
        if isinstance(e, (ast.Dict, ast.List, ast.Set)):
            return True
        if isinstance(e, ast.Call) and isinstance(e.func, ast.Name) and e.func.id in ("dict", "list", "set", "defaultdict", "OrderedDict", "bytearray"):
            return True
        return False
    out = []
    for n in ast.walk(fn):
        if isinstance(n, ast.Call) and isinstance(n.func, ast.Attribute) and n.func.attr == "fromkeys" and len(n.args) == 2 and mutable(n.args[1]):
            out.append((n, f"`{ast.unparse(n)[:70]}` binds every key to the same {type(n.args[1]).__name__.lower()} object"))
        if isinstance(n, ast.BinOp) and isinstance(n.op, ast.Mult):
            for seq in (n.left, n.right):
                if isinstance(seq, ast.List) and len(seq.elts) >= 1 and all(mutable(x) for x in seq.elts):
                    out.append((n, f"`{ast.unparse(n)[:70]}` repeats one mutable element object"))
    return out
