"""E7 — kinded-axis types (KAT-lite): a units-of-measure style abstract interpretation for image
geometry code.  Values are tagged with the image axis they belong to:

  Ext(a)    an extent (or extent ± const, extent/2 …) of axis a ∈ {'row','col'}
  Comp(a)   a coordinate-like quantity for axis a (grid values, frequencies, shifts along a);
            `vary` records along which array axis a grid is laid out (−2 / −1) when known
  Pair(o)   a length-2 last axis ordered o = ('row','col') or ('col','row')
  Num       a plain number;  None = unknown (never reported)

Only *definite* clashes are recorded: arithmetic between different axes, a component normalised by
the other axis' extent, a grid laid along the wrong array axis, pairs of opposite order combined.
"""
from __future__ import annotations

import ast
from dataclasses import dataclass
from typing import Optional

from ..core.repo import call_name, definitions, dotted, is_const, kwarg, unparse

ROW, COL = "row", "col"


@dataclass(frozen=True)
class Ext:
    axis: str


@dataclass(frozen=True)
class Comp:
    axis: str
    vary: Optional[int] = None  # array axis along which the values change (-2 / -1), if a grid
    freq: bool = False  # a spatial-frequency vector (fftfreq) rather than a pixel coordinate


@dataclass(frozen=True)
class Pair:
    order: tuple


@dataclass(frozen=True)
class Num:
    pass


@dataclass(frozen=True)
class Flat:
    """a row-major flat index into a 2-D (…, rows, cols) array"""


@dataclass(frozen=True)
class RowStride:
    """row index × number of columns: the first half of a row-major flat index"""


@dataclass(frozen=True)
class Seq:
    items: tuple  # python tuple/list of abstract values


@dataclass(frozen=True)
class Line:
    """a 1-D profile read out of a 2-D image ALONG `axis` (one index is a vector of neighbours on that axis)"""
    axis: str


@dataclass(frozen=True)
class LineVal:
    """arithmetic of samples of such a profile — e.g. a parabolic sub-pixel offset: an offset along `axis`"""
    axis: str


def other(a: str) -> str:
    return COL if a == ROW else ROW


class KAT:
    def __init__(self, fn: ast.AST, shape_axes: Optional[dict] = None, seeds: Optional[dict] = None,
                 image_like=(), index_axes: Optional[dict] = None):
        """shape_axes: how integer indices of `.shape[k]` map to axes, default {-2: row, -1: col};
        for arrays known to be 2-D images pass {0: row, 1: col} via index_axes[name]."""
        self.fn = fn
        self.env: dict[str, object] = dict(seeds or {})
        self.clashes: list[tuple[ast.AST, str]] = []
        self.shape_axes = shape_axes or {-2: ROW, -1: COL}
        self.index_axes = index_axes or {}
        self.image_like = set(image_like)
        self.facts: list[str] = []

    # ------------------------------------------------------------ helpers
    def clash(self, node: ast.AST, msg: str) -> None:
        if not any(n is node for n, _ in self.clashes):
            self.clashes.append((node, msg))

    def _shape_index_axis(self, base: ast.AST, k) -> Optional[str]:
        nm = unparse(base)
        table = self.index_axes.get(nm, self.shape_axes)
        return table.get(k)

    # ------------------------------------------------------------ expressions
    def ev(self, e: ast.AST):
        if e is None:
            return None
        if isinstance(e, ast.Constant):
            return Num() if isinstance(e.value, (int, float)) and not isinstance(e.value, bool) else None
        if isinstance(e, ast.Name):
            return self.env.get(e.id)
        if isinstance(e, (ast.Tuple, ast.List)):
            items = tuple(self.ev(x) for x in e.elts)
            return Seq(items)
        if isinstance(e, ast.UnaryOp):
            return self.ev(e.operand)
        if isinstance(e, ast.Attribute):
            if e.attr == "shape":
                t = self.index_axes.get(unparse(e.value))
                if t and 0 in t and 1 in t:
                    return Seq((Ext(t[0]), Ext(t[1])))
                if unparse(e.value) in self.image_like:
                    return Seq((Ext(ROW), Ext(COL)))
                return None
            if e.attr in ("T", "real", "imag"):
                return self.ev(e.value)
            d = dotted(e)
            if d and d in self.env:
                return self.env[d]
            return None
        if isinstance(e, ast.Subscript):
            return self._subscript(e)
        if isinstance(e, ast.BinOp):
            return self._binop(e)
        if isinstance(e, ast.Call):
            return self._call(e)
        if isinstance(e, ast.IfExp):
            a, b = self.ev(e.body), self.ev(e.orelse)
            if isinstance(a, LineVal) and (b is None or isinstance(b, Num)):
                return a  # `offset if denom != 0 else 0`
            return a if a == b else None
        return None

    def _vectorish(self, ix: ast.AST, depth: int = 0) -> bool:
        """does the index expression denote several indices (built from arange / a comprehension / a literal list)?"""
        if depth > 4:
            return False
        for x in ast.walk(ix):
            if isinstance(x, (ast.ListComp, ast.List, ast.Tuple)):
                return True
            if isinstance(x, ast.Call) and (call_name(x) or "").split(".")[-1] in ("arange", "linspace"):
                return True
            if isinstance(x, ast.Name) and x is not ix or isinstance(ix, ast.Name) and x is ix:
                for st in ast.walk(self.fn):
                    if isinstance(st, ast.Assign) and len(st.targets) == 1 and isinstance(st.targets[0], ast.Name) and st.targets[0].id == x.id \
                            and not any(isinstance(y, ast.Name) and y.id == x.id for y in ast.walk(st.value)):
                        if self._vectorish(st.value, depth + 1):
                            return True
        return False

    def _local_profile_function(self, name: str):
        """a nested one-parameter function whose single return is arithmetic over constant-indexed samples of its parameter"""
        for n in ast.walk(self.fn):
            if isinstance(n, ast.FunctionDef) and n is not self.fn and n.name == name and len(n.args.args) == 1:
                p = n.args.args[0].arg
                rets = [x for x in ast.walk(n) if isinstance(x, ast.Return) and x.value is not None]
                if len(rets) != 1:
                    return False
                for x in ast.walk(rets[0].value):
                    if isinstance(x, ast.Name) and x.id != p:
                        return False
                    if isinstance(x, ast.Call):
                        return False
                return True
        return False

    def _subscript(self, e: ast.Subscript):
        base = e.value
        # X.shape[k] / X.shape[-2:]
        if isinstance(base, ast.Attribute) and base.attr == "shape":
            sl = e.slice
            if isinstance(sl, ast.UnaryOp) and isinstance(sl.op, ast.USub) and isinstance(sl.operand, ast.Constant):
                k = -sl.operand.value
                ax = self._shape_index_axis(base.value, k)
                return Ext(ax) if ax else None
            if isinstance(sl, ast.Constant) and isinstance(sl.value, int):
                ax = self._shape_index_axis(base.value, sl.value)
                return Ext(ax) if ax else None
            if isinstance(sl, ast.Slice) and sl.upper is None and sl.step is None and unparse(sl.lower) == "-2":
                return Seq((Ext(ROW), Ext(COL)))
            if isinstance(sl, ast.Slice) and sl.lower is None and unparse(sl.upper) == "2" and unparse(base.value) in self.index_axes:
                t = self.index_axes[unparse(base.value)]
                return Seq((Ext(t[0]), Ext(t[1]))) if 0 in t and 1 in t else None
            return None
        if unparse(base) in self.index_axes and not (isinstance(base, ast.Attribute) and base.attr == "shape"):
            sl = e.slice
            table = self.index_axes[unparse(base)]
            if isinstance(sl, ast.Constant) and isinstance(sl.value, int) and sl.value in table:
                return Ext(table[sl.value])
            if isinstance(sl, ast.UnaryOp) and isinstance(sl.op, ast.USub) and isinstance(sl.operand, ast.Constant) and -sl.operand.value in table:
                return Ext(table[-sl.operand.value])
        if unparse(base) in self.image_like and isinstance(e.slice, ast.Tuple) and len(e.slice.elts) == 2:
            for pos, ix in enumerate(e.slice.elts):
                iv = self.ev(ix)
                want = ROW if pos == 0 else COL
                if isinstance(iv, Comp) and iv.axis != want:
                    self.clash(e, f"`{unparse(e)[:60]}` indexes the {want} axis of a 2-D array with a {iv.axis}-axis index")
            vec = [self._vectorish(ix) for ix in e.slice.elts]
            if vec == [True, False]:
                return Line(ROW)
            if vec == [False, True]:
                return Line(COL)
            return None
        v = self.ev(base)
        sl = e.slice
        if isinstance(v, Line):
            return LineVal(v.axis) if isinstance(sl, ast.Constant) and isinstance(sl.value, int) else v
        if isinstance(v, Seq):
            if isinstance(sl, ast.Constant) and isinstance(sl.value, int) and -len(v.items) <= sl.value < len(v.items):
                return v.items[sl.value]
            return None
        if isinstance(v, Pair):
            # [..., k] or [:, k] or [k] on the last axis
            last = sl.elts[-1] if isinstance(sl, ast.Tuple) else sl
            if isinstance(last, ast.Constant) and last.value in (0, 1):
                return Comp(v.order[last.value])
            if isinstance(last, ast.UnaryOp) and unparse(last) == "-1":
                return Comp(v.order[1])
            return v  # slicing/broadcasting keeps the pair
        if isinstance(v, Comp):
            # v[None, :], v[:, None] — broadcast placement
            if isinstance(sl, ast.Tuple):
                pos = [i for i, x in enumerate(sl.elts) if not is_const(x, None)]
                n = len(sl.elts)
                if len(pos) == 1 and v.vary is None and n >= 2:
                    vary = pos[0] - n  # negative index of the axis carrying the values
                    want = -2 if v.axis == ROW else -1
                    if vary in (-2, -1) and n == 2 or (vary in (-2, -1)):
                        if vary in (-2, -1) and vary != want:
                            self.clash(e, f"`{unparse(e)}` lays {v.axis}-axis values along array axis {vary}")
                        return Comp(v.axis, vary if vary in (-2, -1) else None, v.freq)
            return v
        return v if isinstance(v, (Ext, Num)) else None

    def _product_factors(self, e: ast.AST) -> list[ast.AST]:
        if isinstance(e, ast.BinOp) and isinstance(e.op, (ast.Mult, ast.Div)):
            return self._product_factors(e.left) + self._product_factors(e.right)
        return [e]

    def _binop(self, e: ast.BinOp):
        op = type(e.op)
        if op in (ast.Mult, ast.Div):
            # a product is judged as a whole, whatever its association: u * dir * (extent - 1)
            facs = self._product_factors(e)
            if len(facs) > 2:
                vals = [self.ev(f) for f in facs]
                comps = [v for v in vals if isinstance(v, Comp)]
                exts = [v for v in vals if isinstance(v, Ext)]
                for c in comps:
                    for x in exts:
                        if c.axis != x.axis:
                            self.clash(e, f"`{unparse(e)[:80]}` scales a {c.axis}-axis quantity by the {x.axis} extent")
                            return None
                if any(v is None for v in vals):
                    pairs = [v for v in vals if isinstance(v, Pair)]
                    return pairs[0] if pairs else None
        l, r = self.ev(e.left), self.ev(e.right)
        if isinstance(l, LineVal) or isinstance(r, LineVal):
            lv, o = (l, r) if isinstance(l, LineVal) else (r, l)
            if isinstance(o, LineVal):
                if o.axis != lv.axis and op in (ast.Add, ast.Sub):
                    self.clash(e, f"`{unparse(e)[:70]}` combines samples of a {lv.axis}-axis profile with samples of a {o.axis}-axis profile")
                    return None
                return lv
            if isinstance(o, Comp) and op in (ast.Add, ast.Sub):
                if o.axis != lv.axis:
                    self.clash(e, f"`{unparse(e)[:70]}` corrects a {o.axis}-axis position with an offset estimated from samples along the {lv.axis} axis")
                    return None
                return o
            if o is None or isinstance(o, Num):
                return lv
            return None
        if op is ast.Mult:
            for a, b in ((l, r), (r, l)):
                if isinstance(a, Comp) and not a.freq and isinstance(b, Ext) and a.axis == ROW and b.axis == COL:
                    return RowStride()
                if isinstance(a, Comp) and not a.freq and isinstance(b, Ext) and a.axis == COL and b.axis == ROW:
                    self.clash(e, f"`{unparse(e)[:70]}` multiplies a column index by the number of rows (a row-major flat index is row·ncols + col)")
                    return None
        if op is ast.Add and (isinstance(l, RowStride) or isinstance(r, RowStride)):
            o = r if isinstance(l, RowStride) else l
            if isinstance(o, Comp) and o.axis == COL:
                return Flat()
            if isinstance(o, Comp) and o.axis == ROW:
                self.clash(e, f"`{unparse(e)[:70]}` adds a row index to row·ncols (the column index belongs there)")
            return None
        if isinstance(l, Flat) and isinstance(r, Ext) and op in (ast.FloorDiv, ast.Mod):
            if r.axis != COL:
                self.clash(e, f"`{unparse(e)[:60]}` decomposes a row-major flat index with the row extent")
                return None
            return Comp(ROW) if op is ast.FloorDiv else Comp(COL)
        if isinstance(l, Pair) and isinstance(r, Ext) and op in (ast.Add, ast.Sub, ast.Mod, ast.Div, ast.FloorDiv):
            self.clash(e, f"`{unparse(e)[:70]}` applies the {r.axis} extent to both components of a {l.order} pair")
            return l
        if op is ast.Mod and isinstance(l, Comp) and isinstance(r, Ext) and l.axis != r.axis:
            self.clash(e, f"`{unparse(e)[:70]}` wraps a {l.axis}-axis quantity modulo the {r.axis} extent")
            return l
        if op is ast.Mult and isinstance(l, Comp) and isinstance(r, Comp) and l.axis != r.axis and (l.freq != r.freq):
            f, c = (l, r) if l.freq else (r, l)
            self.clash(e, f"`{unparse(e)[:70]}` multiplies the {f.axis}-axis frequencies by a {c.axis}-axis shift/coordinate")
            return None
        if op is ast.Mult and ((isinstance(l, Comp) and r is None) or (isinstance(r, Comp) and l is None)):
            return None  # multiplied by an unknown factor (a direction cosine …): no longer an axis quantity
        for a, b in ((l, r), (r, l)):
            if isinstance(a, Comp) and isinstance(b, Ext) and a.axis != b.axis:
                self.clash(e, f"`{unparse(e)[:70]}` combines a {a.axis}-axis quantity with the {b.axis} extent")
                return a
            if isinstance(a, Comp) and isinstance(b, Comp) and a.axis != b.axis and op in (ast.Add, ast.Sub):
                self.clash(e, f"`{unparse(e)[:70]}` adds/subtracts {a.axis}- and {b.axis}-axis quantities")
                return None
        if isinstance(l, Pair) and isinstance(r, Pair):
            if l.order != r.order:
                self.clash(e, f"`{unparse(e)[:70]}` combines a {l.order} pair with a {r.order} pair element-wise")
            return l
        if isinstance(l, Pair) and isinstance(r, Seq) and len(r.items) == 2 or isinstance(r, Pair) and isinstance(l, Seq) and len(l.items) == 2:
            p, s = (l, r) if isinstance(l, Pair) else (r, l)
            for k in (0, 1):
                it = s.items[k]
                if isinstance(it, (Ext, Comp)) and it.axis != p.order[k]:
                    self.clash(e, f"`{unparse(e)[:70]}` pairs component {k} ({p.order[k]}) with a {it.axis} quantity")
            return p
        if isinstance(l, Ext) and isinstance(r, Ext) and l.axis != r.axis and op in (ast.Add, ast.Sub):
            return None
        for a, b in ((l, r), (r, l)):
            if isinstance(a, (Comp, Pair, Ext)) and (b is None or isinstance(b, Num) or (isinstance(b, Ext) and isinstance(a, Ext))):
                if isinstance(a, Ext) and isinstance(b, Ext) and a.axis != b.axis:
                    return None
                if b is None and op in (ast.Add, ast.Sub) and False:
                    return None
                return a
        if isinstance(l, Comp) and isinstance(r, Comp) and l.axis == r.axis:
            return Comp(l.axis, l.vary if l.vary == r.vary else None, l.freq and r.freq)
        if isinstance(l, Comp) and isinstance(r, Ext):
            return l
        if isinstance(l, Ext) and isinstance(r, Comp):
            return r
        if isinstance(l, Num) and isinstance(r, Num):
            return Num()
        return None

    def _call(self, e: ast.Call):
        cn = call_name(e) or ""
        short = cn.split(".")[-1] if cn else (e.func.attr if isinstance(e.func, ast.Attribute) else "")
        args = e.args
        if isinstance(e.func, ast.Name) and len(args) == 1 and not e.keywords:
            a0 = self.ev(args[0])
            if isinstance(a0, Line) and self._local_profile_function(e.func.id):
                return LineVal(a0.axis)
        if short in ("arange", "fftfreq", "rfftfreq") and args:
            a = self.ev(args[0] if len(args) == 1 or short != "arange" else (args[1] if len(args) >= 2 and isinstance(self.ev(args[0]), Num) else args[0]))
            if isinstance(a, Ext):
                return Comp(a.axis, None, short in ("fftfreq", "rfftfreq"))
            return None
        if short == "linspace" and len(args) >= 2:
            ends = [self.ev(args[0]), self.ev(args[1])]
            cnt = self.ev(args[2]) if len(args) >= 3 else (self.ev(kwarg(e, "num")) if kwarg(e, "num") is not None else None)
            axes = {v.axis for v in ends if isinstance(v, Ext)}
            if len(axes) == 2:
                self.clash(e, f"`{unparse(e)[:70]}` runs between extents of different axes")
                return None
            if isinstance(cnt, Ext):
                if axes and cnt.axis not in axes:
                    self.clash(e, f"`{unparse(e)[:70]}` spans the {next(iter(axes))} extent with a {cnt.axis}-extent number of samples")
                return Comp(cnt.axis)
            if axes:
                return Comp(next(iter(axes)))
            return None
        if short in ("ifftshift", "fftshift", "float", "to", "clone", "detach", "astype", "as_tensor", "asarray", "tensor",
                     "abs", "round", "floor", "ceil", "long", "int", "contiguous", "cpu", "numpy", "copy", "array", "squeeze",
                     "unsqueeze", "expand", "broadcast_to", "reshape", "view", "type", "clip", "clamp", "remainder"):
            src = e.func.value if isinstance(e.func, ast.Attribute) and not cn.startswith(("np.", "torch.", "xp.", "af.")) else (args[0] if args else None)
            v = self.ev(src)
            if short == "remainder" and len(args) >= 2:
                w = self.ev(args[1])
                if isinstance(v, Comp) and isinstance(w, Ext) and v.axis != w.axis:
                    self.clash(e, f"`{unparse(e)[:70]}` wraps a {v.axis}-axis quantity modulo the {w.axis} extent")
            if isinstance(v, Seq) and len(v.items) == 2 and all(isinstance(i, (Ext, Comp)) for i in v.items) and short in ("tensor", "as_tensor", "array", "asarray"):
                return Pair((v.items[0].axis, v.items[1].axis))
            if isinstance(v, Comp) and short in ("reshape", "view", "squeeze", "unsqueeze", "expand", "broadcast_to"):
                return Comp(v.axis, None, v.freq)
            return v
        if short == "mod" and len(args) == 2:
            v, w = self.ev(args[0]), self.ev(args[1])
            if isinstance(v, Comp) and isinstance(w, Ext) and v.axis != w.axis:
                self.clash(e, f"`{unparse(e)[:70]}` wraps a {v.axis}-axis quantity modulo the {w.axis} extent")
            return v
        if short == "argmax":
            return Flat()
        if cn in ("int", "float") and len(args) == 1:
            return self.ev(args[0])
        if cn == "len" and len(args) == 1 and unparse(args[0]) in self.index_axes and 0 in self.index_axes[unparse(args[0])]:
            return Ext(self.index_axes[unparse(args[0])][0])       # len(a) is the extent of a's leading axis
        if cn == "divmod" and len(args) == 2:
            v, w = self.ev(args[0]), self.ev(args[1])
            if isinstance(v, Flat) and isinstance(w, Ext):
                if w.axis != COL:
                    self.clash(e, f"`{unparse(e)[:60]}` decomposes a row-major flat index with the row extent")
                    return None
                return Seq((Comp(ROW), Comp(COL)))
            return None
        if short == "unravel_index":
            return Seq((Comp(ROW), Comp(COL)))
        if short == "item" and isinstance(e.func, ast.Attribute):
            return self.ev(e.func.value)
        if short == "flip" and isinstance(e.func, ast.Attribute):
            v = self.ev(e.func.value if not cn.startswith(("np.", "torch.")) else args[0])
            dims = args[-1] if args else kwarg(e, "dims")
            if isinstance(v, Pair) and dims is not None and unparse(dims) in ("-1", "[-1]", "(-1,)", "dims=-1"):
                return Pair((v.order[1], v.order[0]))
            return v
        if short == "indices" and args:
            # np.indices(shape): grid k varies along axis k and runs over shape[k] — 'ij' by definition
            sh = self.ev(args[0])
            if isinstance(sh, Seq) and len(sh.items) == 2 and all(isinstance(i, Ext) for i in sh.items):
                return Seq(tuple(Comp(i.axis, -2 + k, False) for k, i in enumerate(sh.items)))
            return None
        if short == "meshgrid":
            idx = kwarg(e, "indexing")
            mode = idx.value if isinstance(idx, ast.Constant) else ("xy" if cn.startswith("np.") else "ij")
            if cn.startswith("torch.") and idx is None:
                mode = "ij"
            vals = [self.ev(a) for a in args[:2]]
            if len(args) == 1 and isinstance(args[0], ast.Starred):
                # meshgrid(*[np.arange(n) for n in shape], …): one coordinate vector per extent of `shape`, in order
                lst = args[0].value
                if isinstance(lst, ast.Name):
                    ds = [d for d in definitions(self.fn, lst.id) if isinstance(d, ast.AST)]
                    lst = ds[0] if len(ds) == 1 else None
                vals = [None, None]
                if isinstance(lst, (ast.ListComp, ast.GeneratorExp)) and len(lst.generators) == 1 and isinstance(lst.generators[0].target, ast.Name) and not lst.generators[0].ifs \
                        and isinstance(lst.elt, ast.Call) and (call_name(lst.elt) or "").split(".")[-1] == "arange" and len(lst.elt.args) == 1 \
                        and isinstance(lst.elt.args[0], ast.Name) and lst.elt.args[0].id == lst.generators[0].target.id:
                    sh = self.ev(lst.generators[0].iter)
                    if isinstance(sh, Seq) and len(sh.items) == 2 and all(isinstance(i, Ext) for i in sh.items):
                        vals = [Comp(i.axis, None, False) for i in sh.items]
                elif isinstance(lst, (ast.List, ast.Tuple)) and len(lst.elts) == 2:
                    vals = [self.ev(x) for x in lst.elts]
            out = []
            for k, v in enumerate(vals):
                vary = (-2 if k == 0 else -1) if mode == "ij" else (-1 if k == 0 else -2)
                if isinstance(v, Comp):
                    want = -2 if v.axis == ROW else -1
                    if vary != want:
                        self.clash(e, f"meshgrid(indexing='{mode}') lays the {v.axis}-extent vector `{unparse(args[k])}` along array axis {vary}")
                    out.append(Comp(v.axis, vary, v.freq))
                else:
                    out.append(None)
            return Seq(tuple(out))
        if short in ("stack", "dstack", "concatenate", "cat") and args:
            seq = self.ev(args[0])
            dim = kwarg(e, "dim") or kwarg(e, "axis") or (args[1] if len(args) > 1 else None)
            if isinstance(seq, Seq) and len(seq.items) == 2 and all(isinstance(i, Comp) for i in seq.items):
                if short == "dstack" or (dim is not None and unparse(dim) == "-1"):
                    return Pair((seq.items[0].axis, seq.items[1].axis))
                if dim is None or unparse(dim) == "0":
                    return Seq(seq.items)  # leading-axis stack: slot order
            return None
        if short in ("sum", "mean") and args:
            return None
        if short in ("min", "max") and len(args) == 2 and not cn.startswith(("np.", "torch.")):
            a, b = self.ev(args[0]), self.ev(args[1])
            return a if isinstance(a, (Ext, Comp)) else b
        if short == "outer" and len(args) == 2:
            return None
        return None

    # ------------------------------------------------------------ statements
    def run(self, body=None, passes: int = 2) -> "KAT":
        body = body if body is not None else self.fn.body
        for _ in range(passes):
            self._block(body)
        return self

    def _assign(self, target: ast.AST, value) -> None:
        if isinstance(target, ast.Name):
            if value is not None or target.id not in self.env:
                self.env[target.id] = value
        elif isinstance(target, (ast.Tuple, ast.List)) and isinstance(value, Seq) and len(value.items) == len(target.elts):
            for t, v in zip(target.elts, value.items):
                self._assign(t, v)
        elif isinstance(target, ast.Attribute):
            d = dotted(target)
            if d:
                self.env[d] = value

    def _block(self, body) -> None:
        for st in body:
            if isinstance(st, ast.Assign):
                v = self.ev(st.value)
                for t in st.targets:
                    self._assign(t, v)
            elif isinstance(st, ast.AnnAssign) and st.value is not None:
                self._assign(st.target, self.ev(st.value))
            elif isinstance(st, ast.AugAssign):
                fake = ast.BinOp(left=st.target, op=st.op, right=st.value)
                ast.copy_location(fake, st)
                v = self._binop(fake) if not isinstance(st.target, ast.Subscript) else self.ev(st.value)
                if isinstance(st.target, ast.Name) and v is not None:
                    self.env[st.target.id] = v
            elif isinstance(st, ast.Expr):
                self.ev(st.value)
            elif isinstance(st, ast.Return) and st.value is not None:
                self.ev(st.value)
            elif isinstance(st, (ast.If, ast.For, ast.While, ast.With, ast.Try)):
                if isinstance(st, ast.If):
                    self.ev(st.test)
                if isinstance(st, ast.For):
                    self.ev(st.iter)
                for fld in ("body", "orelse", "finalbody"):
                    self._block(getattr(st, fld, []) or [])
                for h in getattr(st, "handlers", []) or []:
                    self._block(h.body)
