"""E3 — filesystem effect analysis on a CFG with exception edges.

A small forward may-dataflow tags every local name with where it points:
  'T'   the save target itself (the target parameter, identity conversions, handles opened on it)
  "T'"  a *different* path computed from the target (sibling / suffix / parent)
  'S'   a private staging area (tempfile.*)
Calls are then classified as target effects (write / removal / creator / atomic), staging effects,
or read-only, from explicit tables.  An unknown call that receives a T-tagged value is
conservatively a target write.
"""
from __future__ import annotations

import ast
from dataclasses import dataclass, field
from typing import Optional

from ..core.cfg import CFG, Node
from ..core.repo import call_name, dotted, names_in, unparse

READONLY = {
    "os.path.exists", "os.path.lexists", "os.path.isdir", "os.path.isfile", "os.path.splitext",
    "os.path.join", "os.path.relpath", "os.path.basename", "os.path.dirname", "os.path.abspath",
    "os.path.normpath", "os.path.realpath", "os.path.getsize", "os.fspath", "os.walk", "os.listdir",
    "os.stat", "os.access", "str", "repr", "print", "isinstance", "len", "int", "list", "set",
    "tuple", "format", "Path", "pathlib.Path", "bool", "sorted", "enumerate", "zip", "hasattr",
    "getattr", "type", "warn", "warnings.warn",
}
READONLY_METHODS = {"endswith", "startswith", "format", "lower", "upper", "strip", "rstrip", "split",
                    "rpartition", "partition", "exists", "is_dir", "is_file", "resolve", "with_suffix",
                    "joinpath", "as_posix", "namelist", "read", "get", "items", "keys", "values"}
IDENTITY = {"str", "Path", "pathlib.Path", "os.fspath", "os.path.abspath", "os.path.normpath"}
REMOVERS = {"os.remove", "os.unlink", "shutil.rmtree", "os.rmdir", "os.removedirs"}
REMOVER_METHODS = {"unlink", "rmdir"}
CREATORS = {"os.makedirs", "os.mkdir", "LocalStore", "zarr.storage.LocalStore"}  # leave an unreadable target at worst
ATOMIC = {"os.replace", "os.rename", "shutil.move"}  # dst = 2nd arg
FS_PATH_ARG0 = REMOVERS | CREATORS | {"open", "ZipFile", "zipfile.ZipFile", "shutil.copy", "shutil.copy2",
                                      "shutil.copytree", "shutil.copyfile", "zarr.open", "zarr.open_group",
                                      "os.truncate", "os.utime", "os.chmod"}
STAGING_SOURCES = {"tempfile.TemporaryDirectory", "tempfile.mkdtemp", "tempfile.NamedTemporaryFile",
                   "tempfile.mkstemp", "tempfile.gettempdir", "TemporaryDirectory"}
DERIVERS = {"os.path.join", "os.path.dirname", "os.path.basename", "os.path.splitext", "os.path.relpath"}


@dataclass
class Effect:
    node: int
    call: Optional[ast.AST]
    name: str
    kind: str  # 'write' | 'remove' | 'creator' | 'atomic' | 'staging' | 'yield'
    tags: frozenset
    path_arg: Optional[ast.AST] = None
    path_tags: frozenset = frozenset()
    text: str = ""
    known: bool = True   # False: not in any table — classified by the conservative fallback (receives a target/staging value)


class EffectAnalysis:
    def __init__(self, fn: ast.AST, target_params: set[str], mod=None):
        self.fn = fn
        self.mod = mod
        self.targets = set(target_params)
        self.cfg = CFG(fn, exc_edges=True)
        self.state_in: dict[int, dict[str, frozenset]] = {}
        self._dataflow()
        self.effects: list[Effect] = []
        self.target_stores: list[int] = []  # nodes that rebind a target variable
        self._collect()

    # ------------------------------------------------------------ tagging
    def _expr_tags(self, e: ast.AST, st: dict[str, frozenset]) -> frozenset:
        """Tags of the value an expression evaluates to."""
        if isinstance(e, ast.Name):
            return st.get(e.id, frozenset())
        if isinstance(e, ast.Call):
            cn = call_name(e) or ""
            if cn in STAGING_SOURCES:
                return frozenset({"S"})
            argtags: set = set()
            for a in list(e.args) + [k.value for k in e.keywords]:
                argtags |= self._expr_tags(a, st)
            if isinstance(e.func, ast.Attribute):
                recv = self._expr_tags(e.func.value, st)
                if e.func.attr in ("with_suffix", "joinpath", "with_name", "parent"):
                    return frozenset({"T'" if t == "T" else t for t in recv | argtags})
                argtags |= recv
            if cn in IDENTITY:
                return frozenset(argtags)
            if cn in DERIVERS:
                return frozenset({"T'" if t == "T" else t for t in argtags})
            return frozenset(argtags)  # handle opened on / computed from the arguments
        if isinstance(e, (ast.BinOp, ast.JoinedStr)):
            tags: set = set()
            for n in ast.walk(e):
                if isinstance(n, ast.Name):
                    tags |= st.get(n.id, frozenset())
            return frozenset({"T'" if t == "T" else t for t in tags})
        if isinstance(e, ast.Attribute):
            base = self._expr_tags(e.value, st)
            if e.attr in ("parent", "stem", "name", "suffix"):
                return frozenset({"T'" if t == "T" else t for t in base})
            return base
        tags = set()
        for n in ast.iter_child_nodes(e):
            if isinstance(n, ast.expr):
                tags |= self._expr_tags(n, st)
        return frozenset(tags)

    def _transfer(self, node: Node, st: dict[str, frozenset]) -> dict[str, frozenset]:
        out = dict(st)
        s = node.stmt
        if node.kind == "stmt":
            if isinstance(s, ast.Assign):
                tags = self._expr_tags(s.value, st)
                for t in s.targets:
                    for n in ast.walk(t):
                        if isinstance(n, ast.Name) and isinstance(n.ctx, ast.Store):
                            if n.id in self.targets:
                                # rebinding the target variable is normalisation: it stays THE target
                                out[n.id] = frozenset({"T"}) if ("T" in tags or "T'" in tags) else tags
                            else:
                                out[n.id] = tags
            elif isinstance(s, ast.AnnAssign) and s.value is not None and isinstance(s.target, ast.Name):
                out[s.target.id] = self._expr_tags(s.value, st)
            elif isinstance(s, ast.AugAssign) and isinstance(s.target, ast.Name):
                if s.target.id in self.targets:
                    out[s.target.id] = frozenset({"T"})
                else:
                    cur = st.get(s.target.id, frozenset())
                    new = cur | self._expr_tags(s.value, st)
                    out[s.target.id] = frozenset({"T'" if t == "T" else t for t in new})
        elif node.kind == "with":
            for it in s.items:
                if it.optional_vars is not None:
                    tags = self._expr_tags(it.context_expr, st)
                    for n in ast.walk(it.optional_vars):
                        if isinstance(n, ast.Name):
                            out[n.id] = tags
        elif node.kind == "iter":
            tags = self._expr_tags(s.iter, st)
            for n in ast.walk(s.target):
                if isinstance(n, ast.Name):
                    out[n.id] = tags
        return out

    def _dataflow(self) -> None:
        cfg = self.cfg
        init = {p: frozenset({"T"}) for p in self.targets}
        self.state_in = {n.id: {} for n in cfg.nodes}
        self.state_in[cfg.entry] = dict(init)
        out_state: dict[int, dict[str, frozenset]] = {}
        work = [cfg.entry]
        iters = 0
        while work:
            iters += 1
            if iters > 20000:
                break
            n = work.pop()
            st_in = self.state_in[n]
            st_out = self._transfer(cfg.nodes[n], st_in)
            if out_state.get(n) == st_out and n != cfg.entry:
                continue
            out_state[n] = st_out
            for s in cfg.succ[n]:
                merged = dict(self.state_in[s])
                changed = False
                # exceptional edges carry the in-state (the statement did not complete)
                src = st_in if s in cfg.exc_succ[n] and s not in cfg.normal_succ(n) else st_out
                for k, v in src.items():
                    nv = merged.get(k, frozenset()) | v
                    if nv != merged.get(k):
                        merged[k] = nv
                        changed = True
                if changed or s not in out_state:
                    self.state_in[s] = merged
                    work.append(s)

    # ------------------------------------------------------------ effects
    def _own_exprs(self, node: Node) -> list[ast.AST]:
        s = node.stmt
        if node.kind == "stmt":
            if isinstance(s, (ast.FunctionDef, ast.AsyncFunctionDef, ast.ClassDef)):
                return []
            return [s]
        if node.kind in ("test", "iter"):
            return [node.expr] if node.expr is not None else []
        if node.kind == "with":
            return [it.context_expr for it in s.items]
        return []

    def _collect(self) -> None:
        for node in self.cfg.nodes:
            st = self.state_in.get(node.id, {})
            s = node.stmt
            if node.kind == "stmt" and isinstance(s, (ast.Assign, ast.AugAssign)):
                tg = s.targets if isinstance(s, ast.Assign) else [s.target]
                for t in tg:
                    if isinstance(t, ast.Name) and t.id in self.targets:
                        self.target_stores.append(node.id)
                    # subscript/attribute store through a T handle is a write
                    if isinstance(t, (ast.Subscript, ast.Attribute)):
                        base = t
                        while isinstance(base, (ast.Subscript, ast.Attribute)):
                            base = base.value
                        tags = self._expr_tags(base, st)
                        if "T" in tags or "T'" in tags:
                            self.effects.append(Effect(node.id, s, "store:" + unparse(t)[:40], "write", tags, text=unparse(s)[:80]))
                        elif "S" in tags:
                            self.effects.append(Effect(node.id, s, "store:" + unparse(t)[:40], "staging", tags, text=unparse(s)[:80]))
            for root in self._own_exprs(node):
                for c in ast.walk(root):
                    if isinstance(c, (ast.Yield, ast.YieldFrom)):
                        self.effects.append(Effect(node.id, c, "yield", "yield", frozenset(), text="yield"))
                    if not isinstance(c, ast.Call):
                        continue
                    self._classify_call(node, c, st)

    def _function_alias(self, name: str):
        """`remove = shutil.rmtree if os.path.isdir(p) else os.remove` (or a plain `remove = os.remove`): the table names a local callable
        may stand for, when every binding of the name is of that form; else None."""
        from ..core.repo import definitions
        defs = definitions(self.fn, name)
        if not defs:
            return None
        out = set()
        for d in defs:
            alts = [d.body, d.orelse] if isinstance(d, ast.IfExp) else [d]
            for a in alts:
                dn = dotted(a) if isinstance(a, (ast.Name, ast.Attribute)) else None
                if dn is None:
                    return None
                out.add(dn)
        return out

    def _classify_call(self, node: Node, c: ast.Call, st) -> None:
        cn = call_name(c) or unparse(c.func)[:40]
        if isinstance(c.func, ast.Name):
            al = self._function_alias(c.func.id)
            if al and (al <= REMOVERS or al <= CREATORS or al <= ATOMIC or al <= READONLY):
                cn = sorted(al)[0] if len(al) == 1 else "|".join(sorted(al))
                if len(al) > 1:
                    # either of several removers (file or directory chosen at run time): classified as one removal of its path argument
                    argt = self._expr_tags(c.args[0], st) if c.args else frozenset()
                    if al <= REMOVERS:
                        kind = "remove" if ("T" in argt or "T'" in argt or not argt) else "staging"
                        self.effects.append(Effect(node.id, c, cn, kind, frozenset(argt), c.args[0] if c.args else None, argt, unparse(c)[:90]))
                        return
                    if al <= READONLY:
                        return
                    cn = call_name(c) or cn
        short = cn.split(".")[-1]
        argtags: set = set()
        for a in list(c.args) + [k.value for k in c.keywords]:
            argtags |= self._expr_tags(a, st)
        recv_tags: frozenset = frozenset()
        if isinstance(c.func, ast.Attribute):
            recv_tags = self._expr_tags(c.func.value, st)
        all_tags = frozenset(argtags | recv_tags)
        path_arg = c.args[0] if c.args else None
        path_tags = self._expr_tags(path_arg, st) if path_arg is not None else frozenset()
        text = unparse(c)[:90]
        if cn in STAGING_SOURCES:
            return
        # explicit filesystem mutators: judged by their path argument
        if cn in REMOVERS or (short in REMOVER_METHODS and recv_tags):
            ptags = path_tags if cn in REMOVERS else recv_tags
            kind = "remove" if ("T" in ptags or "T'" in ptags or not ptags) else "staging"
            self.effects.append(Effect(node.id, c, cn, kind, all_tags, path_arg, ptags, text))
            return
        if cn in ATOMIC:
            dst = c.args[1] if len(c.args) > 1 else None
            dtags = self._expr_tags(dst, st) if dst is not None else frozenset()
            kind = "atomic" if ("T" in dtags or "T'" in dtags or not dtags) else "staging"
            self.effects.append(Effect(node.id, c, cn, kind, all_tags, dst, dtags, text))
            return
        if cn in FS_PATH_ARG0 or short in ("ZipFile", "LocalStore"):
            mode = None
            if short in ("open", "ZipFile"):
                m = c.args[1] if len(c.args) > 1 else next((k.value for k in c.keywords if k.arg == "mode"), None)
                mode = m.value if isinstance(m, ast.Constant) else ("?" if m is not None else "r")
                if isinstance(mode, str) and mode[:1] == "r" and "+" not in mode:
                    return  # read-only open
            if "T" in path_tags or "T'" in path_tags or not path_tags:
                kind = "creator" if (cn in CREATORS or short == "LocalStore") else "write"
            else:
                kind = "staging"
            self.effects.append(Effect(node.id, c, cn, kind, all_tags, path_arg, path_tags, text))
            return
        if cn in READONLY or (isinstance(c.func, ast.Attribute) and c.func.attr in READONLY_METHODS):
            return
        if short.endswith(("Error", "Exception", "Warning")):
            return
        if "T" in all_tags or "T'" in all_tags:
            self.effects.append(Effect(node.id, c, cn, "write", all_tags, None, frozenset(), text, known=False))
        elif "S" in all_tags:
            self.effects.append(Effect(node.id, c, cn, "staging", all_tags, None, frozenset(), text, known=False))

    # ------------------------------------------------------------ convenience
    def target_effects(self, kinds=("write", "remove", "creator", "atomic")) -> list[Effect]:
        return [e for e in self.effects if e.kind in kinds]
