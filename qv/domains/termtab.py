"""E9 — term-table extraction for the hand-written aberration series.

A syntax-directed normal form of one expression family (torch arithmetic over alpha, phi,
coefficient look-ups and cos/sin of m·(phi − phi_nm)); an unrecognised shape raises
AnalysisError.  Nothing is executed: the result is a rational function (qv.domains.algnf) whose
symbols are `alpha`, `pi`, `wavelength`, coefficient names and trig atoms `cos[m:phinm]`.
"""
from __future__ import annotations

import ast
from fractions import Fraction
from typing import Optional

from ..core.repo import AnalysisError, call_name, dotted, is_const, unparse
from .algnf import Poly, Rat


class SeriesEval:
    def __init__(self, fn: ast.FunctionDef, getter: str = "get"):
        self.fn = fn
        self.getter = getter
        self.env: dict[str, Rat] = {}
        self.guards: list[tuple[tuple, list[str]]] = []  # (guard tuple, coefficient symbols used in the block)
        self.returns: Optional[list[Rat]] = None
        self._used: list[str] = []

    # ------------------------------------------------------------ expressions
    def ev(self, e: ast.AST) -> Rat:
        if isinstance(e, ast.Constant) and isinstance(e.value, (int, float)) and not isinstance(e.value, bool):
            return Rat.const(Fraction(str(e.value)))
        if isinstance(e, ast.Name):
            if e.id in self.env:
                return self.env[e.id]
            if e.id in ("alpha", "phi", "wavelength", "pi"):
                return Rat.sym(e.id)
            raise AnalysisError(f"series: unbound name {e.id}")
        if isinstance(e, ast.Attribute) and dotted(e) in ("math.pi", "np.pi", "torch.pi"):
            return Rat.sym("pi")
        if isinstance(e, ast.UnaryOp) and isinstance(e.op, ast.USub):
            return -self.ev(e.operand)
        if isinstance(e, ast.BinOp):
            if isinstance(e.op, ast.Pow) and isinstance(e.right, ast.Constant) and isinstance(e.right.value, int):
                b, r = self.ev(e.left), Rat.const(1)
                for _ in range(e.right.value):
                    r = r * b
                return r
            l, r = self.ev(e.left), self.ev(e.right)
            if isinstance(e.op, ast.Add):
                return l + r
            if isinstance(e.op, ast.Sub):
                return l - r
            if isinstance(e.op, ast.Mult):
                return l * r
            if isinstance(e.op, ast.Div):
                return l / r
        if isinstance(e, ast.Call):
            cn = call_name(e) or ""
            if cn == self.getter and e.args and isinstance(e.args[0], ast.Constant):
                self._used.append(e.args[0].value)
                return Rat.sym(e.args[0].value)
            if isinstance(e.func, ast.Attribute) and e.func.attr == "square" and not e.args:
                b = self.ev(e.func.value)
                return b * b
            if cn in ("torch.zeros_like", "torch.zeros"):
                return Rat.const(0)
            if cn in ("torch.cos", "torch.sin", "math.cos", "math.sin", "np.cos", "np.sin") and len(e.args) == 1:
                return Rat.sym(self.trig_atom(cn.split(".")[-1], e.args[0]))
        raise AnalysisError(f"series: expression `{unparse(e)[:70]}` not in the recognised family")

    def trig_atom(self, kind: str, arg: ast.AST) -> str:
        a = self.ev(arg)
        if a.d != Poly.const(1):
            raise AnalysisError(f"series: trig argument `{unparse(arg)}` is not polynomial")
        coeffs = {}
        for mono, c in a.n.t.items():
            if len(mono) != 1 or mono[0][1] != 1:
                raise AnalysisError(f"series: trig argument `{unparse(arg)}` is not linear")
            coeffs[mono[0][0]] = c
        m = coeffs.pop("phi", None)
        if m is None:
            raise AnalysisError(f"series: trig argument `{unparse(arg)}` does not contain phi")
        if not coeffs:
            return f"{kind}[{m}:0]"
        if len(coeffs) != 1:
            raise AnalysisError(f"series: trig argument `{unparse(arg)}` has several phase symbols")
        (ph, c), = coeffs.items()
        if c != -m:
            # m·phi − m'·phase with m ≠ m': keep both so that the table comparison reports it
            return f"{kind}[{m}:{ph}*{-c}]"
        return f"{kind}[{m}:{ph}]"

    # ------------------------------------------------------------ statements
    def run(self) -> "SeriesEval":
        self._block(self.fn.body)
        if self.returns is None:
            raise AnalysisError(f"series: {self.fn.name} has no recognised return")
        return self

    def _block(self, body) -> None:
        for st in body:
            if isinstance(st, ast.Expr) and isinstance(st.value, ast.Constant):
                continue
            if isinstance(st, (ast.FunctionDef,)):
                continue
            if isinstance(st, ast.Assign) and len(st.targets) == 1 and isinstance(st.targets[0], ast.Name):
                name = st.targets[0].id
                if name == "coefs":
                    continue
                self.env[name] = self.ev(st.value)
                continue
            if isinstance(st, ast.If):
                g = self._guard_tuple(st.test)
                if g is None or st.orelse:
                    raise AnalysisError(f"series: guard `{unparse(st.test)[:60]}` not of the form any(k in coefs for k in (…))")
                self._used = []
                self._block(st.body)
                self.guards.append((g, list(self._used)))
                continue
            if isinstance(st, ast.Return) and st.value is not None:
                vals = st.value.elts if isinstance(st.value, ast.Tuple) else [st.value]
                self.returns = [self.ev(v) for v in vals]
                return
            raise AnalysisError(f"series: statement `{unparse(st)[:60]}` not in the recognised family")

    @staticmethod
    def _guard_tuple(test: ast.AST):
        if isinstance(test, ast.Call) and call_name(test) == "any" and test.args and isinstance(test.args[0], ast.GeneratorExp):
            g = test.args[0]
            if len(g.generators) == 1 and isinstance(g.generators[0].iter, (ast.Tuple, ast.List)):
                try:
                    return tuple(ast.literal_eval(g.generators[0].iter))
                except Exception:
                    return None
        return None


def d_alpha(p: Poly) -> Poly:
    out = {}
    for mono, c in p.t.items():
        d = dict(mono)
        e = d.get("alpha", 0)
        if e == 0:
            continue
        d["alpha"] = e - 1
        k = tuple(sorted((s, x) for s, x in d.items() if x))
        out[k] = out.get(k, 0) + c * e
    return Poly(out)


def d_phi(p: Poly) -> Poly:
    """∂/∂phi of a polynomial whose phi-dependence sits in cos[m:ph] / sin[m:ph] atoms (degree 1)."""
    out = {}
    for mono, c in p.t.items():
        trig = [(s, x) for s, x in mono if s.startswith(("cos[", "sin["))]
        if not trig:
            continue
        if len(trig) != 1 or trig[0][1] != 1:
            raise AnalysisError("series: product of trig atoms cannot be differentiated by the table rule")
        s = trig[0][0]
        kind, rest = s[:3], s[3:]
        m = Fraction(rest[1:].split(":")[0])
        new = ("sin" if kind == "cos" else "cos") + rest
        factor = -m if kind == "cos" else m
        d = dict(mono)
        del d[s]
        d[new] = 1
        k = tuple(sorted(d.items()))
        out[k] = out.get(k, 0) + c * factor
    return Poly(out)
