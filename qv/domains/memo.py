"""Memoisation-key completeness: a function that stores into a container that outlives the call (module-level, or an
attribute of a class object) must key the entry on every input the stored value depends on; a function that
accumulates into such a container without a key keeps state between calls.

Inputs are tracked at access-path granularity: the parameter `p`, or `p[<constant>]` when the parameter is only ever
read through constant subscripts (a metadata dict)."""
from __future__ import annotations

import ast

from ..core.repo import call_name, definitions, func_params, unparse


def _is_container_value(val: ast.AST) -> bool:
    return isinstance(val, (ast.Dict, ast.List, ast.Set)) or (isinstance(val, ast.Call) and (call_name(val) or "") in
                                                              ("dict", "list", "set", "OrderedDict", "defaultdict", "collections.OrderedDict", "collections.defaultdict"))


def persistent_containers(mod_tree: ast.Module) -> dict[str, ast.AST]:
    """{'NAME' | 'Class.NAME': defining statement} of module-level and class-level mutable containers."""
    out = {}
    for st in mod_tree.body:
        tg = st.targets[0] if isinstance(st, ast.Assign) else (st.target if isinstance(st, ast.AnnAssign) else None)
        if isinstance(tg, ast.Name) and getattr(st, "value", None) is not None and _is_container_value(st.value):
            out[tg.id] = st
        if isinstance(st, ast.ClassDef):
            init = next((f for f in st.body if isinstance(f, ast.FunctionDef) and f.name == "__init__"), None)
            per_instance = set()
            if init is not None:
                for n in ast.walk(init):
                    tgs = n.targets if isinstance(n, ast.Assign) else ([n.target] if isinstance(n, ast.AnnAssign) and n.value is not None else [])
                    for t in tgs:
                        if isinstance(t, ast.Attribute) and isinstance(t.value, ast.Name) and t.value.id == "self":
                            per_instance.add(t.attr)
            for cs in st.body:
                tg = cs.targets[0] if isinstance(cs, ast.Assign) else (cs.target if isinstance(cs, ast.AnnAssign) else None)
                if isinstance(tg, ast.Name) and getattr(cs, "value", None) is not None and _is_container_value(cs.value) and tg.id not in per_instance:
                    out[f"{st.name}.{tg.id}"] = cs  # a class-level container that __init__ does not replace per instance is shared by all instances
    return out


def _container_ref(e: ast.AST, fn: ast.AST, containers: dict, cls_name: str | None) -> str | None:
    if isinstance(e, ast.Name) and e.id in containers and not definitions(fn, e.id):
        return e.id
    if isinstance(e, ast.Attribute) and isinstance(e.value, ast.Name):
        for owner in ([e.value.id] if e.value.id not in ("cls", "self") else ([cls_name] if cls_name else [])):
            if f"{owner}.{e.attr}" in containers:
                return f"{owner}.{e.attr}"
    return None


def _inputs(fn: ast.AST, e: ast.AST, params: set[str]) -> set[str]:
    """Access paths of parameters the expression depends on (through single- and multi-definition locals)."""
    out, seen, stack = set(), set(), [e]
    while stack:
        x = stack.pop()
        for n in ast.walk(x):
            if isinstance(n, ast.Subscript) and isinstance(n.value, ast.Name) and n.value.id in params and isinstance(n.slice, ast.Constant) and not definitions(fn, n.value.id):
                out.add(f"{n.value.id}[{n.slice.value!r}]")
            elif isinstance(n, ast.Name):
                par = getattr(n, "_parent", None)
                if isinstance(par, ast.Subscript) and par.value is n and isinstance(par.slice, ast.Constant) and n.id in params and not definitions(fn, n.id):
                    continue  # counted as the path above
                if n.id in params and not definitions(fn, n.id):
                    out.add(n.id)
                elif n.id not in seen:
                    seen.add(n.id)
                    for d in definitions(fn, n.id):
                        if isinstance(d, ast.AST):
                            stack.append(d)
                        elif hasattr(d, "value") and isinstance(getattr(d, "value"), ast.AST):
                            stack.append(d.value)
    # a whole-parameter dependence subsumes its paths
    return {p for p in out if "[" not in p or p.split("[")[0] not in out}


def memo_findings(mod_tree: ast.Module, functions: list[tuple[str, ast.AST, str | None]]) -> tuple[list[tuple[ast.AST, str, str]], int]:
    """functions: [(qualified name, node, enclosing class name)].  Returns ([(node, function, message)], number of stores examined)."""
    containers = persistent_containers(mod_tree)
    found, n_sites = [], 0
    if not containers:
        return found, 0
    for q, fn, cls_name in functions:
        params = set(func_params(fn))
        for n in ast.walk(fn):
            if isinstance(n, ast.Assign) and isinstance(n.targets[0], ast.Subscript):
                ref = _container_ref(n.targets[0].value, fn, containers, cls_name)
                if ref is None:
                    continue
                n_sites += 1
                dep = _inputs(fn, n.value, params)
                keyed = _inputs(fn, n.targets[0].slice, params)
                missing = sorted(d for d in dep if d not in keyed and d.split("[")[0] not in keyed)
                if missing:
                    found.append((n, q, f"`{ref}[{unparse(n.targets[0].slice)[:40]}]` caches a value that depends on {missing}, which is not part of the key: a later call that "
                                        f"differs only in {missing[0]} silently receives the first call's value"))
            elif isinstance(n, ast.Call) and isinstance(n.func, ast.Attribute) and n.func.attr in ("append", "add", "extend", "insert"):
                ref = _container_ref(n.func.value, fn, containers, cls_name)
                if ref is not None:
                    n_sites += 1
                    found.append((n, q, f"`{unparse(n)[:60]}` accumulates into `{ref}`, which outlives the call: results depend on earlier calls"))
    return found, n_sites
