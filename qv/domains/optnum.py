"""Optional-numeric truthiness: `x or default`, `if x:` / `if not x:` on a value annotated `float | None` /
`int | None` conflates the legal value 0 with "not given"."""
from __future__ import annotations

import ast

from ..core.repo import unparse

CONTAINERS = ("tuple", "list", "dict", "Sequence", "ndarray", "Tensor", "str", "Tuple", "List", "Dict", "set", "Callable", "bool")


def is_optional_numeric(ann) -> bool:
    if ann is None:
        return False
    t = unparse(ann)
    return "None" in t and any(k in t for k in ("float", "int")) and not any(k in t for k in CONTAINERS)


def optional_numeric_names(cls: ast.ClassDef | None, fn: ast.AST) -> tuple[set[str], set[str]]:
    """(parameters of fn, self-fields of cls) annotated as optional numerics."""
    fields = set()
    if cls is not None:
        fields = {s.target.id for s in cls.body if isinstance(s, ast.AnnAssign) and isinstance(s.target, ast.Name) and is_optional_numeric(s.annotation)}
    a = fn.args
    params = {x.arg for x in a.posonlyargs + a.args + a.kwonlyargs if is_optional_numeric(x.annotation)}
    return params, fields


def truthiness_uses(cls: ast.ClassDef | None, fn: ast.AST) -> list[tuple[ast.AST, str]]:
    """[(node, optional name)] where an optional numeric is used as a truth value."""
    params, fields = optional_numeric_names(cls, fn)
    # a parameter that is rebound in the body is no longer known to be the optional numeric
    rebound = {t.id for n in ast.walk(fn) if isinstance(n, (ast.Assign, ast.AugAssign, ast.AnnAssign))
               for t in ast.walk(n.targets[0] if isinstance(n, ast.Assign) else n.target) if isinstance(t, ast.Name)}
    params -= rebound

    def name_of(e):
        if isinstance(e, ast.Name) and e.id in params:
            return e.id
        if isinstance(e, ast.Attribute) and isinstance(e.value, ast.Name) and e.value.id == "self" and e.attr in fields:
            return f"self.{e.attr}"
        return None
    out = []
    for n in ast.walk(fn):
        if isinstance(n, ast.BoolOp):
            # the last operand of `or` / `and` is a value, not a test
            for v in n.values[:-1]:
                if name_of(v):
                    out.append((n, name_of(v)))
        elif isinstance(n, (ast.If, ast.IfExp, ast.While)):
            t = n.test
            if isinstance(t, ast.UnaryOp) and isinstance(t.op, ast.Not):
                t = t.operand
            if name_of(t):
                out.append((n, name_of(t)))
    return out
