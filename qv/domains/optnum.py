"""Optional-numeric truthiness: `x or default`, `if x:` / `if not x:` on a value annotated `float | None` /
`int | None` conflates the legal value 0 with "not given"."""
from __future__ import annotations

import ast

from ..core.repo import unparse

CONTAINERS = ("tuple", "list", "dict", "Sequence", "ndarray", "Tensor", "str", "Tuple", "List", "Dict", "set", "Callable", "bool")


def is_optional_numeric(ann) -> bool:
    if ann is None:
        return False
    t = unparse(ann)
    return "None" in t and any(k in t for k in ("float", "int")) and not any(k in t for k in CONTAINERS)


def optional_numeric_names(cls: ast.ClassDef | None, fn: ast.AST) -> tuple[set[str], set[str]]:
    """(parameters of fn, self-fields of cls) annotated as optional numerics."""
    fields = set()
    if cls is not None:
        fields = {s.target.id for s in cls.body if isinstance(s, ast.AnnAssign) and isinstance(s.target, ast.Name) and is_optional_numeric(s.annotation)}
    a = fn.args
    params = {x.arg for x in a.posonlyargs + a.args + a.kwonlyargs if is_optional_numeric(x.annotation)}
    return params, fields


def truthiness_uses(cls: ast.ClassDef | None, fn: ast.AST) -> list[tuple[ast.AST, str]]:
    """[(node, optional name)] where an optional numeric is used as a truth value."""
    params, fields = optional_numeric_names(cls, fn)
    # a parameter that is rebound in the body is no longer known to be the optional numeric
    rebound = {t.id for n in ast.walk(fn) if isinstance(n, (ast.Assign, ast.AugAssign, ast.AnnAssign))
               for t in ast.walk(n.targets[0] if isinstance(n, ast.Assign) else n.target) if isinstance(t, ast.Name)}
    params -= rebound

    def name_of(e):
        if isinstance(e, ast.Name) and e.id in params:
            return e.id
        if isinstance(e, ast.Attribute) and isinstance(e.value, ast.Name) and e.value.id == "self" and e.attr in fields:
            return f"self.{e.attr}"
        return None
    out = []
    # comprehension / generator filters: `next((a for a in (x, self.y, self.z) if a), default)`
    def seq_names(e):
        """optional names among the elements of a literal tuple/list (directly or through one single-definition local)"""
        if isinstance(e, ast.Name):
            defs = [d.value for d in ast.walk(fn) if isinstance(d, ast.Assign) and len(d.targets) == 1 and isinstance(d.targets[0], ast.Name) and d.targets[0].id == e.id]
            if len(defs) == 1:
                e = defs[0]
        if isinstance(e, (ast.Tuple, ast.List)):
            return [name_of(x) for x in e.elts if name_of(x)]
        return []
    for n in ast.walk(fn):
        if isinstance(n, ast.comprehension) and isinstance(n.target, ast.Name):
            opt = seq_names(n.iter)
            for t in n.ifs:
                tt = t.operand if isinstance(t, ast.UnaryOp) and isinstance(t.op, ast.Not) else t
                if opt and isinstance(tt, ast.Name) and tt.id == n.target.id:
                    out.append((n.iter, opt[0]))
        if isinstance(n, ast.Call) and isinstance(n.func, ast.Name) and n.func.id in ("any", "all", "filter") and n.args:
            arg = n.args[-1]
            if n.func.id == "filter" and not (isinstance(n.args[0], ast.Constant) and n.args[0].value is None):
                continue
            opt = seq_names(arg)
            if opt and n.func.id == "filter":
                out.append((n, opt[0]))
    for n in ast.walk(fn):
        if isinstance(n, ast.BoolOp):
            # the last operand of `or` / `and` is a value, not a test
            for v in n.values[:-1]:
                if name_of(v):
                    out.append((n, name_of(v)))
        elif isinstance(n, (ast.If, ast.IfExp, ast.While)):
            t = n.test
            if isinstance(t, ast.UnaryOp) and isinstance(t.op, ast.Not):
                t = t.operand
            if name_of(t):
                out.append((n, name_of(t)))
    return out
