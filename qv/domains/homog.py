"""Zero-preservation ("homogeneity") abstract interpretation.

Question decided: *does a stored update vanish whenever the designated sources vanish?*  Used for fixed-point clauses
("identical inputs → the measured shifts are zero → the state does not move").

Lattice (per value, at the point where every source is zero):
  Z  identically zero
  H  a function of the sources that is zero when all sources are zero (sums, differences, products with anything finite,
     means / norms / roundings of such values)
  C  equal to a *non-zero constant* when all sources are zero (an H/Z value plus a non-zero literal) — definite offset
  K  the updated state itself (optionally plus H/Z): what a plain re-assignment of the state must be
  U  unknown (any construct outside the table) — never a verdict

The interpreter is flow-ordered over the statements of one function; stores inside compound statements are weak
(joined with the previous value), loops are iterated twice (the lattice has height 3).
"""
from __future__ import annotations

import ast
from typing import Callable, Optional

from ..core.repo import call_name, dotted, unparse

Z, H, C, K, U = "Z", "H", "C", "K", "U"

_ORDER = {Z: 0, H: 1}

# reducers / element-wise maps f with f(0) = 0 (applied to the first argument or the receiver)
ZERO_PRESERVING = {"mean", "sum", "median", "norm", "round", "rint", "abs", "absolute", "array", "asarray", "copy", "float", "int",
                   "astype", "real", "squeeze", "ravel", "flatten", "reshape", "nanmean", "nansum", "cumsum", "negative", "fix", "trunc",
                   "floor", "ceil", "sqrt", "square", "stack", "concatenate", "tolist", "item", "clip_symmetric"}
ZERO_MAKERS = {"zeros", "zeros_like"}


def join(a: str, b: str) -> str:
    if a == b:
        return a
    if {a, b} <= {Z, H}:
        return H
    return U


def add(a: str, b: str, sub: bool = False) -> str:
    if {a, b} <= {Z, H}:
        return Z if a == b == Z else H
    if a == K and b in (Z, H):
        return K
    if b == K and a in (Z, H) and not sub:
        return K
    if (a == C and b in (Z, H)) or (b == C and a in (Z, H)):
        return C
    return U


def mul(a: str, b: str) -> str:
    if Z in (a, b):
        return Z
    if H in (a, b) and K not in (a, b):
        return H  # H · (anything finite) vanishes with the sources
    return U


class Homog:
    def __init__(self, fn: ast.AST, is_source: Callable[[ast.AST], Optional[str]], is_state: Callable[[ast.AST], bool]):
        """is_source(expr) → abstract value for expressions that are sources (or None); is_state(expr) → the expression denotes the
        updated state (a load of it evaluates to K; a store into it is a sink)."""
        self.fn = fn
        self.is_source = is_source
        self.is_state = is_state
        self.env: dict[str, str] = {}
        self.sinks: list[tuple[ast.stmt, str, str]] = []  # (statement, kind 'aug+'|'aug?'|'assign', value)

    # ------------------------------------------------------------------ expressions
    def val(self, e: ast.AST) -> str:
        s = self.is_source(e)
        if s is not None:
            return s
        if self.is_state(e):
            return K
        if isinstance(e, ast.Constant):
            if isinstance(e.value, bool) or not isinstance(e.value, (int, float, complex)):
                return U
            return Z if e.value == 0 else C
        if isinstance(e, ast.Name):
            return self.env.get(e.id, U)
        if isinstance(e, ast.Attribute):
            d = dotted(e)
            if d and d in self.env:
                return self.env[d]
            if e.attr in ("real", "T"):
                return self.val(e.value)
            return U
        if isinstance(e, ast.Subscript):
            return self.val(e.value)
        if isinstance(e, ast.UnaryOp) and isinstance(e.op, (ast.USub, ast.UAdd)):
            return self.val(e.operand)
        if isinstance(e, ast.BinOp):
            a, b = self.val(e.left), self.val(e.right)
            if isinstance(e.op, ast.Add):
                return add(a, b)
            if isinstance(e.op, ast.Sub):
                return add(a, b, sub=True)
            if isinstance(e.op, (ast.Mult, ast.MatMult)):
                if a == C and b == C:
                    return C
                return mul(a, b)
            if isinstance(e.op, (ast.Div, ast.FloorDiv)):
                if a in (Z, H) and b != K:
                    return a
                return U
            return U
        if isinstance(e, (ast.Tuple, ast.List)):
            out = Z
            for x in e.elts:
                v = self.val(x)
                out = v if out == Z else (out if v == Z else join(out, v))
            return out
        if isinstance(e, ast.IfExp):
            return join(self.val(e.body), self.val(e.orelse))
        if isinstance(e, ast.Call):
            name = (call_name(e) or "").split(".")[-1]
            if name in ZERO_MAKERS:
                return Z
            if name in ZERO_PRESERVING:
                recv = e.func.value if isinstance(e.func, ast.Attribute) else None
                root = dotted(recv) if recv is not None else None
                if recv is not None and root not in ("np", "numpy", "torch", "np.linalg", "numpy.linalg", "torch.linalg", "math"):
                    v = self.val(recv)
                elif e.args:
                    v = self.val(e.args[0])
                else:
                    return U
                return v if v in (Z, H) else U
            return U
        return U

    # ------------------------------------------------------------------ statements
    def _store(self, target: ast.AST, v: str, weak: bool, st: ast.stmt, aug: Optional[ast.operator] = None) -> None:
        if isinstance(target, (ast.Tuple, ast.List)):
            for t in target.elts:
                self._store(t, U if v not in (Z, H) else v, weak, st)
            return
        root = target
        through_subscript = False
        while isinstance(root, ast.Subscript):
            root = root.value
            through_subscript = True
        if self.is_state(root) or self.is_state(target):
            if aug is not None:
                self.sinks.append((st, "aug+" if isinstance(aug, (ast.Add, ast.Sub)) else "aug?", v))
            else:
                self.sinks.append((st, "assign", v))
            return
        key = dotted(root)
        if key is None:
            return
        if aug is not None:
            old = self.env.get(key, U)
            if isinstance(aug, (ast.Add, ast.Sub)):
                new = add(old, v, sub=isinstance(aug, ast.Sub))
            elif isinstance(aug, (ast.Mult, ast.MatMult)):
                new = mul(old, v)
            elif isinstance(aug, (ast.Div, ast.FloorDiv)):
                new = old if old in (Z, H) else U
            else:
                new = U
            v = new
        if (weak or through_subscript) and key in self.env:
            # element store / store under a condition: the container may keep old elements
            self.env[key] = join(self.env[key], v)
        else:
            self.env[key] = v

    def _tuple_source(self, st: ast.Assign) -> bool:
        """`a, b = source_call(...)` where is_source knows the element kinds: is_source(TupleElt(call, k))."""
        t = st.targets[0]
        if isinstance(t, (ast.Tuple, ast.List)) and isinstance(st.value, ast.Call):
            kinds = [self.is_source(_Elt(st.value, k)) for k in range(len(t.elts))]
            if any(k is not None for k in kinds):
                for x, k in zip(t.elts, kinds):
                    self._store(x, k if k is not None else U, False, st)
                return True
        return False

    def block(self, body, weak: bool = False) -> None:
        for st in body:
            if isinstance(st, ast.Assign):
                if len(st.targets) == 1 and self._tuple_source(st):
                    continue
                v = self.val(st.value)
                for t in st.targets:
                    self._store(t, v, weak, st)
            elif isinstance(st, ast.AnnAssign) and st.value is not None:
                self._store(st.target, self.val(st.value), weak, st)
            elif isinstance(st, ast.AugAssign):
                self._store(st.target, self.val(st.value), weak, st, aug=st.op)
            elif isinstance(st, ast.If):
                self.block(st.body, True)
                self.block(st.orelse, True)
            elif isinstance(st, (ast.For, ast.While)):
                for _ in range(2):
                    self.block(st.body, True)
                self.block(st.orelse, True)
            elif isinstance(st, ast.With):
                self.block(st.body, weak)
            elif isinstance(st, ast.Try):
                self.block(st.body, True)
                for h in st.handlers:
                    self.block(h.body, True)
                self.block(st.orelse, True)
                self.block(st.finalbody, True)
            # Expr / Return / Raise / Pass …: no binding

    def run(self) -> "Homog":
        self.block(self.fn.body)
        return self


class _Elt(ast.AST):
    """Pseudo-expression: the k-th element of a call result (for tuple-unpacking sources)."""
    _fields = ()

    def __init__(self, call: ast.Call, index: int):
        self.call = call
        self.index = index


TupleElt = _Elt
