"""E2 — codec-schema extractor for quantem.core.io.serialize.

Builds a *writer model* (ordered dispatch arms of `_serialize_value`, container writer, object
writer, array writer) and a *reader model* (dispatch arms of the four reader contexts, key
filters, payload names) from the current source.  All C01/C14 codec rules are set comparisons on
the two models; nothing is executed.
"""
from __future__ import annotations

import ast
from dataclasses import dataclass, field
from typing import Optional

from ..core.repo import (AnalysisError, Module, Repo, call_name, calls_in, dotted, is_const,
                         kwarg, names_in, stmts_in_order, unparse, walk_no_nested_defs)

SER = "quantem.core.io.serialize"


# ------------------------------------------------------------------ generic helpers
def flatten_if_chain(node: ast.If) -> tuple[list[tuple[ast.AST, list[ast.stmt]]], list[ast.stmt]]:
    """if/elif/.../else → ([(test, body), ...], else_body)."""
    arms = []
    cur: ast.AST = node
    while True:
        arms.append((cur.test, cur.body))
        if len(cur.orelse) == 1 and isinstance(cur.orelse[0], ast.If):
            cur = cur.orelse[0]
            continue
        return arms, list(cur.orelse)


def attrs_store_key(target: ast.AST) -> Optional[tuple[str, ast.AST]]:
    """`G.attrs[K]` as a store target → (name of G, key expression)."""
    if isinstance(target, ast.Subscript) and isinstance(target.value, ast.Attribute):
        if target.value.attr == "attrs":
            g = dotted(target.value.value)
            if g is not None:
                return g, target.slice
    return None


@dataclass
class KeyPattern:
    """An attribute key: a constant string, the `name` parameter itself ('{name}'), or an
    f-string pattern such as '{name}.is_path'."""
    text: str  # e.g. "_torch_tensor", "{}", "{}.is_path"

    @property
    def is_const(self) -> bool:
        return "{}" not in self.text

    @property
    def is_user_key(self) -> bool:
        return self.text == "{}"

    def instantiate(self, sample: str) -> str:
        return self.text.replace("{}", sample)

    def __hash__(self):
        return hash(self.text)


def key_pattern(expr: ast.AST, name_params: set[str]) -> Optional[KeyPattern]:
    if isinstance(expr, ast.Constant) and isinstance(expr.value, str):
        return KeyPattern(expr.value)
    if isinstance(expr, ast.Name) and expr.id in name_params:
        return KeyPattern("{}")
    if isinstance(expr, ast.JoinedStr):
        text = ""
        for v in expr.values:
            if isinstance(v, ast.Constant):
                text += str(v.value)
            elif isinstance(v, ast.FormattedValue) and isinstance(v.value, ast.Name) and v.value.id in name_params:
                text += "{}"
            else:
                return None
        return KeyPattern(text)
    if isinstance(expr, ast.BinOp) and isinstance(expr.op, ast.Add):
        l, r = key_pattern(expr.left, name_params), key_pattern(expr.right, name_params)
        if l and r:
            return KeyPattern(l.text + r.text)
    return None


# ------------------------------------------------------------------ writer model
@dataclass
class WriterArm:
    index: int
    test: Optional[ast.AST]  # None for the final else
    body: list[ast.stmt]
    subgroup_var: Optional[str] = None  # local bound to group.require_group(name)
    sub_keys: list[tuple[KeyPattern, ast.AST, ast.stmt]] = field(default_factory=list)  # on subgroup
    parent_keys: list[tuple[KeyPattern, ast.AST, ast.stmt]] = field(default_factory=list)  # on group
    payloads: list[tuple[str, ast.Call]] = field(default_factory=list)  # _write_bytes dataset names
    callees: list[tuple[str, ast.Call]] = field(default_factory=list)  # self._xxx(...) calls
    torch_save_args: list[ast.AST] = field(default_factory=list)
    role: str = "?"
    where: str = ""

    def sub_key_texts(self) -> list[str]:
        return [k.text for k, _, _ in self.sub_keys]


@dataclass
class FuncKeys:
    """Constant attr keys a helper stores on its `group` parameter (callee summary)."""
    keys: list[tuple[KeyPattern, ast.AST, ast.stmt]]


class WriterModel:
    def __init__(self, repo: Repo):
        self.repo = repo
        self.mod, self.fn = repo.func(f"{SER}:AutoSerialize._serialize_value")
        params = [a.arg for a in self.fn.args.args]
        if len(params) < 4:
            raise AnalysisError("_serialize_value: unexpected signature")
        # roles by position: self, value, group, name
        self.p_value, self.p_group, self.p_name = params[1], params[2], params[3]
        chain = [st for st in self.fn.body if isinstance(st, ast.If)
                 and self.p_value in names_in(st.test)]
        if len(chain) != 1:
            raise AnalysisError(
                f"_serialize_value: expected one top-level dispatch chain on '{self.p_value}', "
                f"found {len(chain)}")
        arms, else_body = flatten_if_chain(chain[0])
        self.arms: list[WriterArm] = []
        for i, (test, body) in enumerate(arms):
            self.arms.append(self._arm(i, test, body))
        self.arms.append(self._arm(len(arms), None, else_body))
        # callee summaries
        self.container_mod, self.container_fn = repo.func(f"{SER}:AutoSerialize._serialize_container")
        self.object_mod, self.object_fn = repo.func(f"{SER}:AutoSerialize._recursive_save")
        self.summaries = {
            "_serialize_container": self._summary(self.container_fn),
            "_recursive_save": self._summary(self.object_fn),
        }
        for arm in self.arms:
            arm.role = self._role(arm)

    # -- extraction
    def _arm(self, index: int, test, body) -> WriterArm:
        arm = WriterArm(index, test, body)
        arm.where = self.mod.line(test if test is not None else (body[0] if body else self.fn))
        name_params = {self.p_name}
        fake = ast.Module(body=body, type_ignores=[])
        for st in stmts_in_order(fake):
            if isinstance(st, ast.Assign) and isinstance(st.value, ast.Call):
                cn = call_name(st.value)
                if cn and cn.endswith("require_group") and cn.split(".")[0] == self.p_group:
                    for t in st.targets:
                        if isinstance(t, ast.Name):
                            arm.subgroup_var = t.id
            for tgt in (st.targets if isinstance(st, ast.Assign) else []):
                sk = attrs_store_key(tgt)
                if sk is None:
                    continue
                gname, kexpr = sk
                kp = key_pattern(kexpr, name_params)
                if kp is None:
                    raise AnalysisError(
                        f"_serialize_value arm {index}: attrs key {unparse(kexpr)} not understood")
                if gname == arm.subgroup_var:
                    arm.sub_keys.append((kp, st.value, st))
                elif gname == self.p_group:
                    arm.parent_keys.append((kp, st.value, st))
        for c in calls_in(fake):
            cn = call_name(c) or ""
            if cn in ("self._write_bytes", "AutoSerialize._write_bytes", "cls._write_bytes"):
                if len(c.args) >= 2 and isinstance(c.args[1], ast.Constant):
                    arm.payloads.append((c.args[1].value, c))
                arm.callees.append(("_write_bytes", c))
            elif cn.startswith(("self._", "AutoSerialize._", "cls._")):
                arm.callees.append((cn.split(".", 1)[1], c))
            elif cn == "torch.save":
                if c.args:
                    arm.torch_save_args.append(c.args[0])
            elif cn in ("dill.dumps",):
                arm.callees.append(("dill.dumps", c))
        return arm

    def _summary(self, fn: ast.FunctionDef) -> FuncKeys:
        params = [a.arg for a in fn.args.args]
        group_param = next((p for p in params if p == "group"), None)
        if group_param is None:
            raise AnalysisError(f"{fn.name}: no 'group' parameter")
        keys = []
        for st in stmts_in_order(fn):
            for tgt in (st.targets if isinstance(st, ast.Assign) else []):
                sk = attrs_store_key(tgt)
                if sk and sk[0] == group_param:
                    kp = key_pattern(sk[1], set())
                    if kp is not None:
                        keys.append((kp, st.value, st))
        return FuncKeys(keys)

    def arm_calls_with_subgroup(self, arm: WriterArm) -> list[tuple[str, ast.Call]]:
        out = []
        for cname, c in arm.callees:
            if arm.subgroup_var and any(
                isinstance(a, ast.Name) and a.id == arm.subgroup_var for a in c.args
            ):
                out.append((cname, c))
        return out

    def all_subgroup_keys(self, arm: WriterArm) -> set[str]:
        """Constant keys that end up on the subgroup created by this arm (own stores + callee
        summaries for callees that receive the subgroup)."""
        ks = {k.text for k, _, _ in arm.sub_keys if k.is_const}
        for cname, _ in self.arm_calls_with_subgroup(arm):
            s = self.summaries.get(cname)
            if s:
                ks |= {k.text for k, _, _ in s.keys if k.is_const}
        return ks

    def _role(self, arm: WriterArm) -> str:
        if arm.test is None:
            return "dill" if any(c == "dill.dumps" for c, _ in arm.callees) else "else:?"
        if arm.subgroup_var:
            callee_names = [c for c, _ in self.arm_calls_with_subgroup(arm)]
            own_true = [k.text for k, v, _ in arm.sub_keys if is_const(v, True)]
            if "_recursive_save" in callee_names:
                return "object"
            if "_serialize_container" in callee_names:
                own = [k.text for k, v, _ in arm.sub_keys]
                vals = [v.value for k, v, _ in arm.sub_keys
                        if k.text == "_container_type" and isinstance(v, ast.Constant)]
                if "_container_type" in own and vals:
                    return f"container:{vals[-1]}"
                return "container"
            if own_true:
                return "marker:" + own_true[0]
            return "subgroup:?"
        # parent-attr arms
        callee_names = [c for c, _ in arm.callees]
        if "_write_ndarray" in callee_names:
            return "ndarray"
        if arm.parent_keys:
            pats = {k.text for k, _, _ in arm.parent_keys}
            if "{}.is_path" in pats:
                return "path"
            if pats == {"{}"}:
                v = arm.parent_keys[0][1]
                if isinstance(v, ast.Name) and v.id == self.p_value:
                    return "scalar-attr"
                if (isinstance(v, ast.Call) and isinstance(v.func, ast.Attribute)
                        and v.func.attr == "item" and dotted(v.func.value) == self.p_value
                        and not v.args):
                    return "npscalar-attr"
                return "attr:transformed"
        return "?"


# ------------------------------------------------------------------ reader model
@dataclass
class ReaderArm:
    key: Optional[str]  # marker key dispatched on; None for the else arm
    test: Optional[ast.AST]
    body: list[ast.stmt]
    payload_reads: list[str] = field(default_factory=list)
    calls: list[str] = field(default_factory=list)
    raises: bool = False


@dataclass
class ReaderContext:
    name: str  # 'attribute', 'list|tuple', 'set', 'dict'
    fn_qual: str
    subgroup_var: str
    arms: list[ReaderArm]
    where: str = ""

    def keys(self) -> list[str]:
        return [a.key for a in self.arms if a.key]


def marker_test_key(test: ast.AST, var: str) -> Optional[str]:
    """Recognise the dispatch predicates the readers use on a subgroup's attrs:
       V.attrs.get("K") / V.attrs.get("K", d) [is not None] / "K" in V.attrs / V.attrs["K"]."""
    t = test
    if isinstance(t, ast.Compare) and len(t.ops) == 1:
        if isinstance(t.ops[0], ast.In) and isinstance(t.left, ast.Constant):
            if dotted(t.comparators[0]) == f"{var}.attrs":
                return t.left.value
        if isinstance(t.ops[0], (ast.IsNot, ast.NotEq)) and is_const(t.comparators[0], None):
            return marker_test_key(t.left, var)
        if isinstance(t.ops[0], (ast.Is, ast.Eq)) and is_const(t.comparators[0], True):
            return marker_test_key(t.left, var)
    if isinstance(t, ast.Call):
        cn = call_name(t)
        if cn == f"{var}.attrs.get" and t.args and isinstance(t.args[0], ast.Constant):
            return t.args[0].value
        if cn == "bool" and t.args:
            return marker_test_key(t.args[0], var)
    if isinstance(t, ast.Subscript) and dotted(t.value) == f"{var}.attrs":
        if isinstance(t.slice, ast.Constant):
            return t.slice.value
    return None


def _payload_reads(body: list[ast.stmt], var: str) -> list[str]:
    out = []
    fake = ast.Module(body=body, type_ignores=[])
    for n in ast.walk(fake):
        if isinstance(n, ast.Call):
            cn = call_name(n) or ""
            if cn.endswith(("_read_array_np", "_get_array")) and len(n.args) >= 2:
                if dotted(n.args[0]) == var and isinstance(n.args[1], ast.Constant):
                    out.append(n.args[1].value)
        if isinstance(n, ast.Subscript) and dotted(n.value) == var and isinstance(n.slice, ast.Constant):
            if isinstance(n.slice.value, str):
                out.append(n.slice.value)
    return out


def _reader_arms(chain: ast.If, var: str) -> list[ReaderArm]:
    arms, else_body = flatten_if_chain(chain)
    out = []
    for test, body in arms:
        key = marker_test_key(test, var)
        fake = ast.Module(body=body, type_ignores=[])
        out.append(ReaderArm(
            key=key, test=test, body=body,
            payload_reads=_payload_reads(body, var),
            calls=[call_name(c) or "?" for c in calls_in(fake)],
            raises=any(isinstance(n, ast.Raise) for n in ast.walk(fake)),
        ))
    fake = ast.Module(body=else_body, type_ignores=[])
    out.append(ReaderArm(None, None, else_body,
                         raises=any(isinstance(n, ast.Raise) for n in ast.walk(fake))))
    return out


def _find_dispatch_chains(region: list[ast.stmt]) -> list[tuple[ast.If, str]]:
    """If-chains whose first test is a marker test on some variable's attrs, with that var."""
    out = []
    fake = ast.Module(body=region, type_ignores=[])
    for n in walk_no_nested_defs(fake):
        if isinstance(n, ast.If):
            # only chain heads (not an elif of another chain)
            from ..core.repo import parent
            p = parent(n)
            if isinstance(p, ast.If) and p.orelse and p.orelse[0] is n and len(p.orelse) == 1:
                continue
            for v in sorted({x.split(".")[0] for x in _attr_vars(n.test)}):
                if marker_test_key(n.test, v) is not None:
                    arms, _ = flatten_if_chain(n)
                    if len(arms) >= 3:
                        out.append((n, v))
                    break
    return out


def _attr_vars(test: ast.AST) -> set[str]:
    out = set()
    for n in ast.walk(test):
        if isinstance(n, ast.Attribute) and n.attr == "attrs":
            d = dotted(n.value)
            if d:
                out.add(d)
    return out


class ReaderModel:
    def __init__(self, repo: Repo):
        self.repo = repo
        self.mod, self.load_fn = repo.func(f"{SER}:AutoSerialize._recursive_load")
        _, self.cont_fn = repo.func(f"{SER}:AutoSerialize._deserialize_container")
        self.contexts: list[ReaderContext] = []
        # attribute-level context
        chains = _find_dispatch_chains(self.load_fn.body)
        if len(chains) != 1:
            raise AnalysisError(f"_recursive_load: expected 1 subgroup dispatch chain, found {len(chains)}")
        ch, var = chains[0]
        self.contexts.append(ReaderContext("attribute", "_recursive_load", var, _reader_arms(ch, var),
                                           self.mod.line(ch)))
        # container contexts: the ctype chain
        self.ctype_var, self.ctype_chain = self._ctype_chain()
        self.ctype_arms: list[tuple[set[str], list[ast.stmt], ast.AST]] = []
        arms, else_body = flatten_if_chain(self.ctype_chain)
        for test, body in arms:
            vals = self._ctype_values(test)
            if vals is None:
                raise AnalysisError(f"_deserialize_container: ctype test {unparse(test)} not understood")
            self.ctype_arms.append((vals, body, test))
            chains = _find_dispatch_chains(body)
            if len(chains) != 1:
                raise AnalysisError(
                    f"_deserialize_container[{'|'.join(sorted(vals))}]: expected 1 item dispatch "
                    f"chain, found {len(chains)}")
            ch, var = chains[0]
            self.contexts.append(ReaderContext("|".join(sorted(vals)), "_deserialize_container", var,
                                               _reader_arms(ch, var), self.mod.line(ch)))
        self.ctype_else = else_body

    def _ctype_chain(self):
        for st in self.cont_fn.body:
            if isinstance(st, ast.If):
                for v in names_in(st.test):
                    if self._ctype_values(st.test, v) is not None:
                        # confirm var derives from attrs.get("_container_type")
                        return v, st
        raise AnalysisError("_deserialize_container: container-type dispatch chain not found")

    def _ctype_values(self, test: ast.AST, var: Optional[str] = None) -> Optional[set[str]]:
        var = var or getattr(self, "ctype_var", None)
        if isinstance(test, ast.Compare) and len(test.ops) == 1 and isinstance(test.left, ast.Name):
            if var is not None and test.left.id != var:
                return None
            c = test.comparators[0]
            if isinstance(test.ops[0], ast.Eq) and isinstance(c, ast.Constant) and isinstance(c.value, str):
                return {c.value}
            if isinstance(test.ops[0], ast.In) and isinstance(c, (ast.Tuple, ast.List, ast.Set)):
                vals = set()
                for e in c.elts:
                    if not (isinstance(e, ast.Constant) and isinstance(e.value, str)):
                        return None
                    vals.add(e.value)
                return vals
        return None

    def context(self, name: str) -> ReaderContext:
        for c in self.contexts:
            if c.name == name:
                return c
        raise AnalysisError(f"reader context {name} not found")


# ------------------------------------------------------------------ key-filter evaluation
def eval_key_filter(test: ast.AST, var: str, key: str) -> Optional[bool]:
    """Evaluate a filter predicate over a string variable `var` for the concrete key `key`.
    Supports ==, !=, in/not in literal collections, .startswith/.endswith(const or tuple),
    and/or/not.  Returns None when the predicate is not understood."""
    if isinstance(test, ast.BoolOp):
        vals = [eval_key_filter(v, var, key) for v in test.values]
        if isinstance(test.op, ast.Or):
            if any(v is True for v in vals):
                return True
            return None if any(v is None for v in vals) else False
        if any(v is False for v in vals):
            return False
        return None if any(v is None for v in vals) else True
    if isinstance(test, ast.UnaryOp) and isinstance(test.op, ast.Not):
        v = eval_key_filter(test.operand, var, key)
        return None if v is None else (not v)
    if isinstance(test, ast.Compare) and len(test.ops) == 1:
        l, op, r = test.left, test.ops[0], test.comparators[0]
        if isinstance(l, ast.Name) and l.id == var:
            try:
                rv = ast.literal_eval(r)
            except Exception:
                return None
            if isinstance(op, ast.Eq):
                return key == rv
            if isinstance(op, ast.NotEq):
                return key != rv
            if isinstance(op, ast.In):
                return key in rv
            if isinstance(op, ast.NotIn):
                return key not in rv
        if isinstance(r, ast.Name) and r.id == var and isinstance(op, (ast.Eq, ast.NotEq)):
            try:
                lv = ast.literal_eval(l)
            except Exception:
                return None
            return (key == lv) if isinstance(op, ast.Eq) else (key != lv)
        return None
    if isinstance(test, ast.Call) and isinstance(test.func, ast.Attribute):
        if isinstance(test.func.value, ast.Name) and test.func.value.id == var and test.args:
            try:
                a = ast.literal_eval(test.args[0])
            except Exception:
                return None
            if test.func.attr == "startswith":
                return key.startswith(a)
            if test.func.attr == "endswith":
                return key.endswith(a)
    return None
