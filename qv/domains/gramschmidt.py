"""Role-based abstract interpretation of a Gram–Schmidt + norm-restore + sort routine.

Nothing here keys on a local's spelling: roles are discovered from definitions
  stack parameter  P   – the function's first non-self parameter
  basis list       L   – the local initialised to `[]` that receives `.append(...)` in the loop
  running vector   v   – the local bound to `P[i]` in the outer loop (i = the loop index)
  norms            N   – a local bound to sqrt(sum(|P|², dim=(-2,-1)))  (index-aligned with P)
and the tail of the function is evaluated over the abstract values

  Stack(order, scaled)   a (modes, r, c) stack: order ∈ {orig, sorted}, scaled = norms restored
  Norms(order)           per-mode norms
  Key(kind, of)          a per-mode sort key: kind ∈ {intensity, norms, amplitude, other}
  Order(key, desc)       argsort result
  Part(stack, part, order)  real/imag/whole gather of a stack with an order tensor
"""
from __future__ import annotations

import ast
from dataclasses import dataclass
from typing import Optional

from ..core.repo import AnalysisError, call_name, definitions, dotted, func_params, is_const, kwarg, unparse, walk_no_nested_defs


# ---------------------------------------------------------------------------------------------------------------
def factors(e: ast.AST) -> list[ast.AST]:
    if isinstance(e, ast.BinOp) and isinstance(e.op, ast.Mult):
        return factors(e.left) + factors(e.right)
    return [e]


def strip_conj(e: ast.AST) -> tuple[ast.AST, bool]:
    if isinstance(e, ast.Call) and isinstance(e.func, ast.Attribute) and e.func.attr in ("conj", "conjugate") and not e.args \
            and not (call_name(e) or "").startswith(("torch.", "np.")):
        inner, c = strip_conj(e.func.value)
        return inner, not c
    if isinstance(e, ast.Call) and (call_name(e) or "") in ("torch.conj", "np.conj", "np.conjugate") and len(e.args) == 1:
        inner, c = strip_conj(e.args[0])
        return inner, not c
    return e, False


def sum_arg(e: ast.AST) -> Optional[tuple[ast.AST, Optional[ast.AST]]]:
    """(summand, dim) if e is torch.sum(x[, dim]) / x.sum([dim])."""
    if isinstance(e, ast.Call):
        cn = call_name(e) or ""
        if cn in ("torch.sum", "np.sum") and e.args:
            return e.args[0], (kwarg(e, "dim") or kwarg(e, "axis") or (e.args[1] if len(e.args) > 1 else None))
        if isinstance(e.func, ast.Attribute) and e.func.attr == "sum" and not cn.startswith(("torch.", "np.")):
            return e.func.value, (kwarg(e, "dim") or kwarg(e, "axis") or (e.args[0] if e.args else None))
    return None


def abs_of(e: ast.AST) -> Optional[ast.AST]:
    if isinstance(e, ast.Call):
        cn = call_name(e) or ""
        if cn in ("torch.abs", "np.abs", "abs") and len(e.args) == 1:
            return e.args[0]
        if isinstance(e.func, ast.Attribute) and e.func.attr == "abs" and not e.args and not cn.startswith(("torch.", "np.")):
            return e.func.value
    return None


def square_of(e: ast.AST) -> Optional[ast.AST]:
    if isinstance(e, ast.Call) and isinstance(e.func, ast.Attribute) and e.func.attr == "square" and not e.args \
            and not (call_name(e) or "").startswith(("torch.", "np.")):
        return e.func.value
    if isinstance(e, ast.Call) and (call_name(e) or "") in ("torch.square", "np.square") and len(e.args) == 1:
        return e.args[0]
    if isinstance(e, ast.BinOp) and isinstance(e.op, ast.Pow) and is_const(e.right, 2):
        return e.left
    return None


def abs2_of(e: ast.AST) -> Optional[ast.AST]:
    """x if e is |x|² in one of the repo's spellings."""
    sq = square_of(e)
    if sq is not None:
        a = abs_of(sq)
        if a is not None:
            return a
    if isinstance(e, ast.BinOp) and isinstance(e.op, ast.Add):
        parts = {}
        for side in (e.left, e.right):
            sq = square_of(side)
            if isinstance(sq, ast.Attribute) and sq.attr in ("real", "imag"):
                parts[sq.attr] = sq.value
        if set(parts) == {"real", "imag"} and unparse(parts["real"]) == unparse(parts["imag"]):
            return parts["real"]
    if isinstance(e, ast.BinOp) and isinstance(e.op, ast.Mult):
        l, lc = strip_conj(e.left)
        r, rc = strip_conj(e.right)
        if lc != rc and unparse(l) == unparse(r):
            return l
    if isinstance(e, ast.Attribute) and e.attr == "real":
        return abs2_of(e.value)
    return None


def sqrt_of(e: ast.AST) -> Optional[ast.AST]:
    if isinstance(e, ast.Call):
        cn = call_name(e) or ""
        if cn in ("torch.sqrt", "np.sqrt", "math.sqrt") and len(e.args) == 1:
            return e.args[0]
        if isinstance(e.func, ast.Attribute) and e.func.attr == "sqrt" and not e.args:
            return e.func.value
    if isinstance(e, ast.BinOp) and isinstance(e.op, ast.Pow) and is_const(e.right, 0.5):
        return e.left
    return None


def _is_last2(dim: Optional[ast.AST]) -> bool:
    if dim is None:
        return False
    try:
        v = ast.literal_eval(dim)
    except Exception:
        return False
    return sorted(v) in ([-2, -1], [1, 2]) if isinstance(v, (tuple, list)) else False


def strip_shape_ops(e: ast.AST) -> ast.AST:
    """drop .view/.reshape/.to/[..., None, None]-style broadcasting helpers"""
    while True:
        if isinstance(e, ast.Call) and isinstance(e.func, ast.Attribute) and e.func.attr in ("view", "reshape", "to", "unsqueeze", "squeeze", "flatten", "clamp_min") \
                and not (call_name(e) or "").startswith(("torch.", "np.")):
            e = e.func.value
            continue
        if isinstance(e, ast.Subscript):
            sl = e.slice.elts if isinstance(e.slice, ast.Tuple) else [e.slice]
            if all(is_const(x, None) or isinstance(x, ast.Slice) and x.lower is None and x.upper is None or is_const(x, ...) for x in sl):
                e = e.value
                continue
        return e


# ---------------------------------------------------------------------------------------------------------------
@dataclass(frozen=True)
class Stack:
    order: str
    scaled: bool
    misaligned: bool = False


@dataclass(frozen=True)
class Norms:
    order: str


@dataclass(frozen=True)
class Key:
    kind: str
    of: object


@dataclass(frozen=True)
class Order:
    key: Key
    desc: bool


@dataclass(frozen=True)
class Part:
    stack: Stack
    part: str
    order: Order


class GramSchmidt:
    """Facts about one Gram–Schmidt routine; `problems` lists definite deviations, AnalysisError is raised when the shape is not recognised."""

    def __init__(self, fn: ast.AST):
        self.fn = fn
        self.facts: dict[str, tuple[bool, str, ast.AST]] = {}
        ps = [p for p in func_params(fn) if p != "self"]
        if not ps:
            raise AnalysisError("Gram–Schmidt: no stack parameter")
        self.P = ps[0]
        self._loop()
        self._tail()

    def fact(self, key: str, ok: bool, detail: str, node: ast.AST) -> None:
        self.facts[key] = (ok, detail, node)

    # -- loop ------------------------------------------------------------------------------------------------
    def _loop(self) -> None:
        fn = self.fn
        outer = [s for s in fn.body if isinstance(s, ast.For)]
        if len(outer) != 1:
            raise AnalysisError(f"Gram–Schmidt: expected one top-level loop, found {len(outer)}")
        outer = outer[0]
        self.outer = outer
        if not isinstance(outer.target, ast.Name):
            raise AnalysisError("Gram–Schmidt: outer loop index is not a name")
        i = outer.target.id
        # the outer loop covers every mode of P
        it = outer.iter
        n_ok = False
        if isinstance(it, ast.Call) and call_name(it) == "range" and len(it.args) == 1:
            a = it.args[0]
            if isinstance(a, ast.Name):
                dd = [d for d in definitions(fn, a.id) if isinstance(d, ast.AST)]
                a = dd[0] if len(dd) == 1 else a
            n_ok = unparse(a) in (f"{self.P}.shape[0]", f"len({self.P})", f"{self.P}.size(0)")
        self.fact("outer", n_ok, f"outer loop iterates `{unparse(it)}`", outer)
        # running vector
        vs = [s.targets[0].id for s in outer.body if isinstance(s, ast.Assign) and isinstance(s.targets[0], ast.Name)
              and isinstance(s.value, ast.Subscript) and unparse(s.value.value) == self.P and unparse(s.value.slice) == i]
        if len(vs) != 1:
            raise AnalysisError(f"Gram–Schmidt: running vector `<v> = {self.P}[{i}]` not found")
        v = self.v = vs[0]
        # basis list
        apps = [c for c in ast.walk(outer) if isinstance(c, ast.Call) and isinstance(c.func, ast.Attribute) and c.func.attr == "append"
                and isinstance(c.func.value, ast.Name) and len(c.args) == 1]
        if len(apps) != 1:
            raise AnalysisError(f"Gram–Schmidt: expected one `.append(…)` in the loop, found {len(apps)}")
        L = self.L = apps[0].func.value.id
        init = [d for d in definitions(fn, L) if isinstance(d, ast.List) and not d.elts]
        if not init:
            raise AnalysisError(f"Gram–Schmidt: basis list `{L}` is not initialised to []")
        # inner loop over all accepted modes
        inner = [s for s in outer.body if isinstance(s, ast.For)]
        if len(inner) != 1 or not isinstance(inner[0].target, ast.Name):
            raise AnalysisError("Gram–Schmidt: inner projection loop not found")
        inner = inner[0]
        j = inner.target.id
        all_ok = unparse(inner.iter) in (f"range(len({L}))", f"range(0, len({L}))")
        self.fact("all_previous", all_ok, f"inner loop iterates `{unparse(inner.iter)}`", inner)
        # the update of v in the inner loop
        local = {}
        upd = None
        for s in inner.body:
            if isinstance(s, ast.Assign) and isinstance(s.targets[0], ast.Name):
                if s.targets[0].id == v:
                    upd = s.value
                else:
                    local[s.targets[0].id] = s.value
            elif isinstance(s, ast.AugAssign) and isinstance(s.target, ast.Name) and s.target.id == v and isinstance(s.op, ast.Sub):
                upd = ast.BinOp(left=ast.Name(id=v, ctx=ast.Load()), op=ast.Sub(), right=s.value)
        if upd is None:
            raise AnalysisError(f"Gram–Schmidt: the inner loop never updates the running vector `{v}`")

        def inline(e):
            while isinstance(e, ast.Name) and e.id in local:
                e = local[e.id]
            return e
        sub_ok = isinstance(upd, ast.BinOp) and isinstance(upd.op, ast.Sub) and isinstance(upd.left, ast.Name) and upd.left.id == v
        self.fact("subtract", sub_ok, f"`{v} = {unparse(upd)}`", inner)
        proj = inline(upd.right) if sub_ok else None
        pj_ok, why = False, "no projection term"
        if proj is not None:
            fs = [inline(f) for f in factors(proj)]
            fs = [g for f in fs for g in factors(f)]
            basis = f"{L}[{j}]"
            plain = [f for f in fs if unparse(f) == basis]
            sums = [sum_arg(f) for f in fs if sum_arg(f) is not None]
            others = [f for f in fs if unparse(f) != basis and sum_arg(f) is None]
            if len(plain) == 1 and len(sums) == 1 and not others and sums[0][1] is None:
                inner_f = [strip_conj(inline(x)) for x in factors(inline(sums[0][0]))]
                names = sorted((unparse(x), c) for x, c in inner_f)
                pj_ok = names == sorted([(basis, True), (v, False)])
                why = f"⟨·,·⟩ factors {names}"
            else:
                why = f"factors {[unparse(f)[:40] for f in fs]}"
        self.fact("projection", pj_ok, f"projection `{unparse(proj)[:90] if proj is not None else '?'}`: {why}", inner)
        # normalisation and append
        after = [s for s in outer.body if getattr(s, "lineno", 0) > inner.lineno]
        loc2 = {s.targets[0].id: s.value for s in after if isinstance(s, ast.Assign) and isinstance(s.targets[0], ast.Name)}
        arg = apps[0].args[0]
        while isinstance(arg, ast.Name) and arg.id in loc2:
            arg = loc2[arg.id]
        nm_ok, why = False, unparse(arg)
        if isinstance(arg, ast.BinOp) and isinstance(arg.op, ast.Div) and unparse(arg.left) == v:
            den = arg.right
            while isinstance(den, ast.Name) and den.id in loc2:
                den = loc2[den.id]
            den = strip_shape_ops(den)
            sq = sqrt_of(den)
            sa = sum_arg(sq) if sq is not None else None
            if sa is not None and sa[1] is None:
                a2 = abs2_of(sa[0])
                nm_ok = a2 is not None and unparse(a2) == v
            why = f"{v} / `{unparse(den)[:70]}`"
        self.fact("normalise", nm_ok, why, apps[0])

    # -- tail ------------------------------------------------------------------------------------------------
    def _tail(self) -> None:
        fn, P, L = self.fn, self.P, self.L
        env: dict[str, object] = {}
        # norms: locals bound (anywhere before the tail) to sqrt(sum(|P|², dim=(-2,-1)))
        for s in fn.body:
            if isinstance(s, ast.Assign) and isinstance(s.targets[0], ast.Name) and s.lineno < self.outer.lineno:
                v = self._norms_of_param(s.value)
                if v is not None:
                    env[s.targets[0].id] = v
        self.norm_names = sorted(env)
        self.fact("norms", bool(env), f"per-mode norms of `{P}` over the last two axes: {sorted(env) or 'not found'}", fn)
        tail = [s for s in fn.body if s.lineno > self.outer.lineno]
        ret = None
        self.misaligned: list[ast.AST] = []
        self.bad_gather: list[ast.AST] = []
        for s in tail:
            if isinstance(s, ast.Assign) and len(s.targets) == 1 and isinstance(s.targets[0], ast.Name):
                env[s.targets[0].id] = self._ev(s.value, env)
            elif isinstance(s, ast.AugAssign) and isinstance(s.target, ast.Name):
                env[s.target.id] = self._ev(ast.BinOp(left=ast.Name(id=s.target.id, ctx=ast.Load()), op=s.op, right=s.value), env)
            elif isinstance(s, ast.Return):
                ret = self._ev(s.value, env) if s.value is not None else None
                self.ret_node = s
            elif isinstance(s, ast.Expr) and isinstance(s.value, ast.Constant):
                continue
            else:
                raise AnalysisError(f"Gram–Schmidt: statement `{unparse(s)[:60]}` after the loop is not part of the recognised tail")
        if not isinstance(ret, Stack):
            raise AnalysisError(f"Gram–Schmidt: the returned value is not recognised as the mode stack (abstract value {ret!r})")
        self.ret = ret
        self.order = self._last_order
        self.fact("aligned", not ret.misaligned and not self.misaligned, "norms and stack share one index order wherever they are multiplied"
                  if not self.misaligned else f"`{unparse(self.misaligned[0])[:80]}` multiplies a stack and norms that are in different index orders", self.ret_node)
        self.fact("restored", ret.scaled, "the returned stack carries the restored norms" if ret.scaled else "the returned stack is left unit-normalised (norms never restored)", self.ret_node)
        self.fact("sorted", ret.order == "sorted", f"returned stack order: {ret.order}", self.ret_node)
        o = self._last_order
        key_ok = o is not None and o.desc and (o.key.kind == "norms" and o.key.of == Norms("orig") or
                                               o.key.kind == "intensity" and isinstance(o.key.of, Stack) and o.key.of.scaled and o.key.of.order == "orig" and not o.key.of.misaligned)
        self.fact("key", key_ok, f"sort key: {o.key.kind if o else None} of {o.key.of if o else None}, descending={o.desc if o else None}", self.ret_node)
        self.fact("one_order", not self.bad_gather, "real and imaginary parts are gathered from one stack with one order tensor" if not self.bad_gather
                  else f"`{unparse(self.bad_gather[0])[:80]}` recombines parts gathered from different stacks/orders", self.ret_node)

    _last_order: Optional[Order] = None

    def _norms_of_param(self, e: ast.AST) -> Optional[Norms]:
        e = strip_shape_ops(e)
        sq = sqrt_of(e)
        if sq is not None:
            sa = sum_arg(sq)
            if sa is not None and _is_last2(sa[1]):
                a2 = abs2_of(sa[0])
                if a2 is not None and unparse(a2) == self.P:
                    return Norms("orig")
        if isinstance(e, ast.Call) and (call_name(e) or "") in ("torch.norm", "torch.linalg.norm", "torch.linalg.vector_norm") and e.args and unparse(e.args[0]) == self.P \
                and _is_last2(kwarg(e, "dim")):
            return Norms("orig")
        return None

    def _ev(self, e: ast.AST, env: dict) -> object:
        raw = e
        e = strip_shape_ops(e)
        if isinstance(e, ast.Name):
            return env.get(e.id)
        if isinstance(e, ast.Call):
            cn = call_name(e) or ""
            if cn == "torch.stack" and e.args and unparse(e.args[0]) == self.L and (kwarg(e, "dim") is None or is_const(kwarg(e, "dim"), 0)) and len(e.args) == 1:
                return Stack("orig", False)
            if cn == "torch.argsort" or (isinstance(e.func, ast.Attribute) and e.func.attr == "argsort" and not cn.startswith("torch.")):
                k = self._ev(e.args[0] if cn == "torch.argsort" else e.func.value, env)
                if isinstance(k, Norms):
                    k = Key("norms", k)
                if not isinstance(k, Key):
                    k = Key("other", unparse(e)[:60])
                d = kwarg(e, "descending")
                o = Order(k, is_const(d, True))
                self._last_order = o
                return o
            if cn == "torch.complex" and len(e.args) == 2:
                a, b = self._ev(e.args[0], env), self._ev(e.args[1], env)
                if isinstance(a, Part) and isinstance(b, Part):
                    if not (a.part == "real" and b.part == "imag" and a.stack == b.stack and a.order == b.order):
                        self.bad_gather.append(raw)
                    return Stack("sorted", a.stack.scaled, a.stack.misaligned)
                return None
            sa = sum_arg(e)
            if sa is not None:
                summand = sa[0]
                a2 = abs2_of(summand)
                if a2 is not None:
                    src = self._ev(a2, env)
                    if isinstance(src, Stack) and _is_last2(sa[1]):
                        return Key("intensity", src)
                ab = abs_of(summand)
                if ab is not None:
                    src = self._ev(ab, env)
                    if isinstance(src, Stack):
                        return Key("amplitude", src)
                return Key("other", unparse(e)[:60])
            sq = square_of(e)
            if sq is not None:
                k = self._ev(sq, env)
                if isinstance(k, Norms):
                    return Key("norms", k)  # monotone in the norms
            return None
        if isinstance(e, ast.BinOp) and isinstance(e.op, ast.Mult):
            a, b = self._ev(e.left, env), self._ev(e.right, env)
            if isinstance(b, Stack) and isinstance(a, Norms):
                a, b = b, a
            if isinstance(a, Stack) and isinstance(b, Norms):
                bad = a.order != b.order
                if bad:
                    self.misaligned.append(raw)
                return Stack(a.order, True, a.misaligned or bad)
            return None
        if isinstance(e, ast.Subscript):
            base = e.value
            part = "whole"
            if isinstance(base, ast.Attribute) and base.attr in ("real", "imag"):
                part, base = base.attr, base.value
            b = self._ev(base, env)
            o = self._ev(e.slice, env)
            if isinstance(o, Order):
                if isinstance(b, Stack):
                    if part == "whole":
                        return Stack("sorted", b.scaled, b.misaligned)
                    return Part(b, part, o)
                if isinstance(b, Norms):
                    return Norms("sorted")
            return None
        return None
