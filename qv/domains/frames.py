"""Centring typestate of detector-plane arrays: Centred (DC at n//2, the frame of measured data and of fftshift-ed predictions) vs Corner (FFT order).

  fft2/fftn(·)            → Corner
  fftshift : Corner → Centred          ifftshift : Centred → Corner
  fftshift(Centred), ifftshift(Corner) → Broken   (s∘s is the identity only on even-length axes)
  element-wise ⊙ of two framed values needs equal frames; the result keeps it
  ifft2/ifftn(·) needs Corner

Flow-sensitive over one function body; `if` arms are interpreted separately (a test on a parameter with a known constant value selects its arm).
Every transition / pairing whose operand frames are known is an *event* (node, kind, ok, detail); unknown frames produce no event.
"""
from __future__ import annotations

import ast
from typing import Callable, Optional

from ..core.repo import call_name, kwarg, unparse

CENTRED, CORNER = "Centred", "Corner"
ELEMENTWISE = {"exp", "abs", "sqrt", "angle", "sum", "square", "conj", "real", "clone", "to", "float", "mean", "where", "nan_to_num", "clamp", "pow", "log", "maximum", "minimum"}


def _broken(f) -> bool:
    return isinstance(f, str) and f.startswith("Broken")


class Frames:
    def __init__(self, fn: ast.AST, seeds: dict[str, str], call_frame: Optional[Callable[[ast.Call], Optional[str]]] = None, consts: Optional[dict] = None):
        self.fn, self.call_frame, self.consts = fn, call_frame, consts or {}
        self.env = dict(seeds)
        self.events: list[tuple[ast.AST, str, bool, str]] = []
        self.returns: list[Optional[str]] = []
        self._seen = set()

    def _event(self, node, kind, ok, detail):
        if (id(node), kind) not in self._seen:
            self._seen.add((id(node), kind))
            self.events.append((node, kind, ok, detail))

    def ev(self, e: ast.AST, env: dict) -> Optional[str]:
        if isinstance(e, ast.Name):
            return env.get(e.id)
        if isinstance(e, ast.Subscript):
            return self.ev(e.value, env)
        if isinstance(e, ast.UnaryOp):
            return self.ev(e.operand, env)
        if isinstance(e, ast.BinOp):
            l, r = self.ev(e.left, env), self.ev(e.right, env)
            if l is not None and r is not None and not _broken(l) and not _broken(r):
                ok = l == r
                self._event(e, "pair", ok, f"`{unparse(e.left)[:40]}` is {l}, `{unparse(e.right)[:40]}` is {r}")
                return l if ok else f"Broken({l}⊙{r})"
            return l if l is not None else r
        if isinstance(e, ast.Call):
            last = (call_name(e) or "").split(".")[-1]
            arg0 = e.args[0] if e.args else None
            if last in ("fftshift", "ifftshift") and arg0 is not None:
                f = self.ev(arg0, env)
                if f is None or _broken(f):
                    return f
                want, to = (CORNER, CENTRED) if last == "fftshift" else (CENTRED, CORNER)
                ok = f == want
                self._event(e, "shift", ok, f"{last} applied to a {f} value")
                return to if ok else f"Broken({last} of {f})"
            if last in ("fft2", "fftn", "fft"):
                return CORNER
            if last in ("ifft2", "ifftn", "ifft") and arg0 is not None:
                f = self.ev(arg0, env)
                if f is not None and not _broken(f):
                    self._event(e, "inverse-transform", f == CORNER, f"{last} applied to a {f} spectrum")
                return None
            if self.call_frame is not None:
                f = self.call_frame(e)
                if f is not None:
                    return f
            if last in ELEMENTWISE:
                if isinstance(e.func, ast.Attribute) and not (call_name(e) or "").startswith(("torch.", "np.", "xp.", "math.")):
                    return self.ev(e.func.value, env)
                return self.ev(arg0, env) if arg0 is not None else None
            return None
        return None

    def _const_test(self, t: ast.AST):
        neg = False
        if isinstance(t, ast.UnaryOp) and isinstance(t.op, ast.Not):
            t, neg = t.operand, True
        if isinstance(t, ast.Name) and t.id in self.consts:
            return bool(self.consts[t.id]) != neg
        return None

    def block(self, body, env: dict) -> Optional[dict]:
        """Returns the environment after the block, or None when every path returned."""
        for st in body:
            if isinstance(st, ast.Assign):
                f = self.ev(st.value, env)
                for t in st.targets:
                    if isinstance(t, ast.Name):
                        env[t.id] = f
            elif isinstance(st, ast.AugAssign) and isinstance(st.target, ast.Name):
                f = self.ev(ast.BinOp(left=st.target, op=st.op, right=st.value), env)
                env[st.target.id] = f
            elif isinstance(st, ast.Return):
                self.returns.append(self.ev(st.value, env) if st.value is not None else None)
                return None
            elif isinstance(st, ast.If):
                c = self._const_test(st.test)
                arms = [st.body] if c is True else ([st.orelse] if c is False else [st.body, st.orelse])
                outs = [self.block(a, dict(env)) for a in arms]
                live = [o for o in outs if o is not None]
                if not live:
                    return None
                merged = {}
                for k in set().union(*live):
                    vals = {o.get(k) for o in live}
                    merged[k] = vals.pop() if len(vals) == 1 else None
                env = merged
            elif isinstance(st, (ast.For, ast.While, ast.With)):
                r = self.block(st.body, env)
                env = r if r is not None else env
            elif isinstance(st, ast.Expr):
                self.ev(st.value, env)
        return env

    def run(self) -> "Frames":
        self.block(self.fn.body, self.env)
        return self
