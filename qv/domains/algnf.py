"""E8 — rational-function normal form over AST arithmetic (own multivariate polynomials over
Fractions; no solver, no CAS).

`Rat.from_ast(expr, env)` translates names, numeric constants, + − * /, integer powers and unary
minus into a canonical quotient of polynomials; anything else becomes an opaque atom named by
its normalised source text (so `np.floor(x / 2)` is an atom; identities about it must be given as
explicit rewrite axioms).  Identities are decided by cross-multiplication.
"""
from __future__ import annotations

import ast
from fractions import Fraction
from typing import Callable, Optional

from ..core.repo import unparse

Mono = tuple  # sorted tuple of (symbol, exponent)


class Poly:
    __slots__ = ("t",)

    def __init__(self, terms: Optional[dict] = None):
        self.t: dict[Mono, Fraction] = {k: v for k, v in (terms or {}).items() if v != 0}

    @staticmethod
    def const(c) -> "Poly":
        return Poly({(): Fraction(c)})

    @staticmethod
    def sym(name: str) -> "Poly":
        return Poly({((name, 1),): Fraction(1)})

    def __add__(self, o: "Poly") -> "Poly":
        t = dict(self.t)
        for k, v in o.t.items():
            t[k] = t.get(k, 0) + v
        return Poly(t)

    def __neg__(self) -> "Poly":
        return Poly({k: -v for k, v in self.t.items()})

    def __sub__(self, o: "Poly") -> "Poly":
        return self + (-o)

    def __mul__(self, o: "Poly") -> "Poly":
        t: dict[Mono, Fraction] = {}
        for k1, v1 in self.t.items():
            for k2, v2 in o.t.items():
                d = dict(k1)
                for s, e in k2:
                    d[s] = d.get(s, 0) + e
                k = tuple(sorted((s, e) for s, e in d.items() if e))
                t[k] = t.get(k, 0) + v1 * v2
        return Poly(t)

    def __pow__(self, n: int) -> "Poly":
        r = Poly.const(1)
        for _ in range(n):
            r = r * self
        return r

    def is_zero(self) -> bool:
        return not self.t

    def __eq__(self, o) -> bool:
        return isinstance(o, Poly) and self.t == o.t

    def symbols(self) -> set[str]:
        return {s for k in self.t for s, _ in k}

    def subs(self, name: str, repl: "Rat") -> "Rat":
        out = Rat(Poly(), Poly.const(1))
        for k, v in self.t.items():
            term = Rat(Poly.const(v), Poly.const(1))
            for s, e in k:
                base = repl if s == name else Rat(Poly.sym(s), Poly.const(1))
                for _ in range(e):
                    term = term * base
            out = out + term
        return out

    def __repr__(self) -> str:
        if not self.t:
            return "0"
        parts = []
        for k, v in sorted(self.t.items()):
            m = "*".join(f"{s}^{e}" if e != 1 else s for s, e in k)
            parts.append(f"{v}" + (f"*{m}" if m else ""))
        return " + ".join(parts)


class Rat:
    __slots__ = ("n", "d")

    def __init__(self, n: Poly, d: Poly):
        self.n, self.d = n, d

    @staticmethod
    def const(c) -> "Rat":
        return Rat(Poly.const(c), Poly.const(1))

    @staticmethod
    def sym(name: str) -> "Rat":
        return Rat(Poly.sym(name), Poly.const(1))

    def __add__(self, o: "Rat") -> "Rat":
        return Rat(self.n * o.d + o.n * self.d, self.d * o.d)

    def __sub__(self, o: "Rat") -> "Rat":
        return Rat(self.n * o.d - o.n * self.d, self.d * o.d)

    def __mul__(self, o: "Rat") -> "Rat":
        return Rat(self.n * o.n, self.d * o.d)

    def __truediv__(self, o: "Rat") -> "Rat":
        return Rat(self.n * o.d, self.d * o.n)

    def __neg__(self) -> "Rat":
        return Rat(-self.n, self.d)

    def equals(self, o: "Rat") -> bool:
        return (self.n * o.d - o.n * self.d).is_zero()

    def is_zero(self) -> bool:
        return self.n.is_zero()

    def subs(self, name: str, repl: "Rat") -> "Rat":
        return self.n.subs(name, repl) / self.d.subs(name, repl)

    def symbols(self) -> set[str]:
        return self.n.symbols() | self.d.symbols()

    def __repr__(self) -> str:
        return f"({self.n}) / ({self.d})" if self.d != Poly.const(1) else f"{self.n}"


class NotArithmetic(Exception):
    pass


def from_ast(e: ast.AST, env: Optional[dict] = None, atom: Optional[Callable[[ast.AST], Optional[str]]] = None) -> Rat:
    """env: name/source-text → Rat (substitution); atom: callback naming opaque sub-expressions
    (return None to refuse → NotArithmetic)."""
    env = env or {}
    txt = unparse(e)
    if txt in env:
        return env[txt]
    if isinstance(e, ast.Constant) and isinstance(e.value, (int, float)) and not isinstance(e.value, bool):
        return Rat.const(Fraction(str(e.value)) if isinstance(e.value, float) else e.value)
    if isinstance(e, ast.Name):
        return env.get(e.id, Rat.sym(e.id))
    if isinstance(e, ast.UnaryOp) and isinstance(e.op, ast.USub):
        return -from_ast(e.operand, env, atom)
    if isinstance(e, ast.UnaryOp) and isinstance(e.op, ast.UAdd):
        return from_ast(e.operand, env, atom)
    if isinstance(e, ast.BinOp):
        if isinstance(e.op, ast.Pow):
            if isinstance(e.right, ast.Constant) and isinstance(e.right.value, int) and 0 <= e.right.value <= 8:
                b = from_ast(e.left, env, atom)
                r = Rat.const(1)
                for _ in range(e.right.value):
                    r = r * b
                return r
        elif isinstance(e.op, (ast.Add, ast.Sub, ast.Mult, ast.Div)):
            l, r = from_ast(e.left, env, atom), from_ast(e.right, env, atom)
            return {ast.Add: l.__add__, ast.Sub: l.__sub__, ast.Mult: l.__mul__, ast.Div: l.__truediv__}[type(e.op)](r)
    if isinstance(e, ast.Call) and unparse(e.func) in ("float", "int") and len(e.args) == 1 and atom is None:
        return from_ast(e.args[0], env, atom)
    name = atom(e) if atom else f"⟨{txt}⟩"
    if name is None:
        raise NotArithmetic(txt)
    return env.get(name, Rat.sym(name))
