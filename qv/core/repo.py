"""E1 — loader, symbol index, class hierarchy (MRO by name), resolution helpers.

Reads /repo's *current working tree* (or $QV_REPO) with `ast` only.  Nothing here imports
or executes quantem.
"""
from __future__ import annotations

import ast
import hashlib
import os
from dataclasses import dataclass, field
from typing import Iterator, Optional


class AnalysisError(Exception):
    """The analysis cannot be carried out (anchor vanished, idiom not recognised, ...).

    Mapped to exit code 2 by the launcher: never a pass, never a property alarm."""


class AnchorMissing(AnalysisError):
    pass


def repo_root() -> str:
    return os.environ.get("QV_REPO", "/repo")


SRC_SUBDIR = os.path.join("src", "quantem")


@dataclass
class Module:
    name: str  # e.g. quantem.core.io.serialize
    path: str  # absolute
    rel: str  # relative to repo root
    source: str
    tree: ast.Module
    # import table: local name -> dotted target ("numpy", "quantem.core.io.serialize.AutoSerialize")
    imports: dict = field(default_factory=dict)

    def line(self, node: ast.AST) -> str:
        return f"{self.rel}:{getattr(node, 'lineno', 0)}"


def _set_parents(tree: ast.AST) -> None:
    for parent in ast.walk(tree):
        for child in ast.iter_child_nodes(parent):
            child._parent = parent  # type: ignore[attr-defined]


def parent(node: ast.AST) -> Optional[ast.AST]:
    return getattr(node, "_parent", None)


def enclosing(node: ast.AST, kinds) -> Optional[ast.AST]:
    p = parent(node)
    while p is not None and not isinstance(p, kinds):
        p = parent(p)
    return p


def enclosing_function(node: ast.AST):
    return enclosing(node, (ast.FunctionDef, ast.AsyncFunctionDef, ast.Lambda))


def enclosing_stmt(node: ast.AST) -> ast.stmt:
    n = node
    while n is not None and not isinstance(n, ast.stmt):
        n = parent(n)
    return n  # type: ignore[return-value]


class Repo:
    def __init__(self, root: Optional[str] = None):
        self.root = root or repo_root()
        self.src = os.path.join(self.root, SRC_SUBDIR)
        if not os.path.isdir(self.src):
            raise AnchorMissing(f"source directory {self.src} not found")
        self.modules: dict[str, Module] = {}
        self.inlined: list[str] = []  # call sites at which a helper that is not in the recorded table was inlined (qv/core/inline.py)
        self.alpha_normalised: list[str] = []  # functions whose locals were renamed back to the recorded spelling (alpha-equivalent)
        self._load()

    # ---------------------------------------------------------------- loading
    def _load(self) -> None:
        for dirpath, dirnames, filenames in os.walk(self.src):
            dirnames[:] = sorted(d for d in dirnames if d != "__pycache__")
            for fn in sorted(filenames):
                if not fn.endswith(".py"):
                    continue
                path = os.path.join(dirpath, fn)
                rel = os.path.relpath(path, self.root)
                modrel = os.path.relpath(path, os.path.join(self.root, "src"))[:-3]
                parts = modrel.split(os.sep)
                if parts[-1] == "__init__":
                    parts = parts[:-1]
                name = ".".join(parts)
                with open(path, "r", encoding="utf-8") as fh:
                    source = fh.read()
                try:
                    tree = ast.parse(source, filename=path)
                except SyntaxError as exc:  # the tree must at least parse
                    raise AnalysisError(f"cannot parse {rel}: {exc}")
                from .alpha import normalise_module, pinned_table
                from .inline import inline_module
                if pinned_table().get("__modules__", {}).get(name) != hashlib.sha256(source.encode()).hexdigest()[:20]:
                    # only modules whose text differs from the recorded one can contain new helpers or renamed locals
                    from .alpha import canonicalise_module
                    self.inlined.extend(f"{name}:{q}" for q in inline_module(name, tree))
                    self.alpha_normalised.extend(f"{name}:{q}" for q in canonicalise_module(name, tree))
                    self.alpha_normalised.extend(f"{name}:{q}" for q in normalise_module(name, tree))
                _set_parents(tree)
                mod = Module(name=name, path=path, rel=rel, source=source, tree=tree)
                self._index_imports(mod, is_pkg=fn == "__init__.py")
                self.modules[name] = mod

    def _index_imports(self, mod: Module, is_pkg: bool) -> None:
        pkg_parts = mod.name.split(".") if is_pkg else mod.name.split(".")[:-1]
        for node in ast.walk(mod.tree):
            if isinstance(node, ast.Import):
                for a in node.names:
                    local = a.asname or a.name.split(".")[0]
                    mod.imports[local] = a.name if a.asname else a.name.split(".")[0]
            elif isinstance(node, ast.ImportFrom):
                if node.level:
                    base = pkg_parts[: len(pkg_parts) - (node.level - 1)]
                    target = ".".join(base + ([node.module] if node.module else []))
                else:
                    target = node.module or ""
                for a in node.names:
                    mod.imports[a.asname or a.name] = f"{target}.{a.name}"

    # ---------------------------------------------------------------- digest
    def digest(self, modnames=None) -> str:
        h = hashlib.sha256()
        for name in sorted(modnames or self.modules):
            m = self.modules.get(name)
            if m is not None:
                h.update(name.encode())
                h.update(m.source.encode())
        return h.hexdigest()[:16]

    # ---------------------------------------------------------------- lookup
    def module(self, name: str) -> Module:
        if name.startswith("q."):
            name = "quantem." + name[2:]
        m = self.modules.get(name)
        if m is None:
            raise AnchorMissing(f"module {name} not found")
        return m

    @staticmethod
    def _children_defs(node) -> Iterator[ast.AST]:
        """Definitions directly nested in `node`, looking through if/try/with at any depth
        but not into other defs."""
        stack = list(getattr(node, "body", []))
        for extra in ("orelse", "finalbody", "handlers"):
            stack += list(getattr(node, extra, []) or [])
        while stack:
            n = stack.pop(0)
            if isinstance(n, (ast.FunctionDef, ast.AsyncFunctionDef, ast.ClassDef)):
                yield n
            elif isinstance(n, (ast.If, ast.Try, ast.With, ast.For, ast.While, ast.ExceptHandler)):
                stack = (
                    list(getattr(n, "body", []))
                    + list(getattr(n, "orelse", []) or [])
                    + list(getattr(n, "finalbody", []) or [])
                    + list(getattr(n, "handlers", []) or [])
                    + stack
                )

    def lookup(self, qual: str, kinds=(ast.FunctionDef, ast.AsyncFunctionDef, ast.ClassDef)):
        """qual = 'quantem.mod.sub:Class.method.inner' → (Module, node).  Property setters are
        addressed as 'Class.name@setter', getters as 'Class.name' (first def) or '@getter'."""
        modname, _, path = qual.partition(":")
        mod = self.module(modname)
        node: ast.AST = mod.tree
        if not path:
            return mod, node
        for part in path.split("."):
            want = None
            if "@" in part:
                part, want = part.split("@", 1)
            cands = [d for d in self._children_defs(node) if d.name == part]
            real = [d for d in cands if not any((dotted(x) or "").split(".")[-1] == "overload"
                                                for x in getattr(d, "decorator_list", []))]
            cands = real or cands
            if want == "setter":
                cands = [
                    d
                    for d in cands
                    if any(
                        isinstance(x, ast.Attribute) and x.attr == "setter"
                        for x in getattr(d, "decorator_list", [])
                    )
                ]
            elif want == "getter" or (want is None and len(cands) > 1):
                non_setters = [
                    d
                    for d in cands
                    if not any(
                        isinstance(x, ast.Attribute) and x.attr in ("setter", "deleter")
                        for x in getattr(d, "decorator_list", [])
                    )
                ]
                cands = non_setters or cands
            if not cands:
                raise AnchorMissing(f"anchor {qual} not found (no '{part}')")
            node = cands[0]
        if not isinstance(node, kinds):
            raise AnchorMissing(f"anchor {qual} has unexpected kind {type(node).__name__}")
        return mod, node

    def func(self, qual: str) -> tuple[Module, ast.FunctionDef]:
        return self.lookup(qual, (ast.FunctionDef, ast.AsyncFunctionDef))  # type: ignore

    def cls(self, qual: str) -> tuple[Module, ast.ClassDef]:
        return self.lookup(qual, (ast.ClassDef,))  # type: ignore

    def has(self, qual: str) -> bool:
        try:
            self.lookup(qual)
            return True
        except AnchorMissing:
            return False

    def module_assign(self, modname: str, name: str) -> tuple[Module, ast.AST]:
        """Value expression of a module-level assignment `name = <expr>` (last one wins)."""
        mod = self.module(modname)
        found = None
        for st in mod.tree.body:
            if isinstance(st, ast.Assign):
                for t in st.targets:
                    if isinstance(t, ast.Name) and t.id == name:
                        found = st.value
            elif isinstance(st, ast.AnnAssign) and isinstance(st.target, ast.Name):
                if st.target.id == name and st.value is not None:
                    found = st.value
        if found is None:
            raise AnchorMissing(f"module-level assignment {modname}:{name} not found")
        return mod, found

    # ---------------------------------------------------------------- classes
    def all_classes(self) -> Iterator[tuple[Module, ast.ClassDef]]:
        for mod in self.modules.values():
            for node in ast.walk(mod.tree):
                if isinstance(node, ast.ClassDef):
                    yield mod, node

    def resolve_name(self, mod: Module, name: str) -> Optional[tuple[Module, ast.AST]]:
        """Resolve a (possibly dotted) name used in `mod` to a definition inside quantem."""
        head, _, rest = name.partition(".")
        # local definition?
        for d in self._children_defs(mod.tree):
            if d.name == head:
                node: ast.AST = d
                for part in rest.split(".") if rest else []:
                    nxt = [c for c in self._children_defs(node) if c.name == part]
                    if not nxt:
                        return None
                    node = nxt[0]
                return mod, node
        target = mod.imports.get(head)
        if target is None:
            return None
        full = target + ("." + rest if rest else "")
        return self.resolve_dotted(full)

    def resolve_dotted(self, full: str, _depth: int = 0) -> Optional[tuple[Module, ast.AST]]:
        if not full.startswith("quantem") or _depth > 6:
            return None
        parts = full.split(".")
        for i in range(len(parts), 0, -1):
            modname = ".".join(parts[:i])
            m = self.modules.get(modname)
            if m is None:
                continue
            rest = parts[i:]
            if not rest:
                return m, m.tree
            node: ast.AST = m.tree
            ok = True
            for j, part in enumerate(rest):
                nxt = [c for c in self._children_defs(node) if c.name == part]
                if nxt:
                    node = nxt[0]
                    continue
                # re-exported through an import in that module (e.g. package __init__)
                if node is m.tree and part in m.imports:
                    tgt = m.imports[part] + ("." + ".".join(rest[j + 1 :]) if rest[j + 1 :] else "")
                    return self.resolve_dotted(tgt, _depth + 1)
                ok = False
                break
            if ok:
                return m, node
            return None
        return None

    def bases(self, mod: Module, cls: ast.ClassDef) -> list[tuple[Module, ast.ClassDef]]:
        out = []
        for b in cls.bases:
            name = dotted(b)
            if name is None:
                continue
            r = self.resolve_name(mod, name)
            if r and isinstance(r[1], ast.ClassDef):
                out.append(r)  # type: ignore[arg-type]
        return out

    def mro(self, mod: Module, cls: ast.ClassDef) -> list[tuple[Module, ast.ClassDef]]:
        """C3-free approximation: depth-first, left-to-right, duplicates keep the LAST position
        (good enough for the single/mixin inheritance used by quantem)."""
        order: list[tuple[Module, ast.ClassDef]] = []

        def visit(m, c, seen):
            if id(c) in seen:
                return
            seen = seen | {id(c)}
            order.append((m, c))
            for bm, bc in self.bases(m, c):
                visit(bm, bc, seen)

        visit(mod, cls, frozenset())
        # keep last occurrence
        out, seen_ids = [], set()
        for m, c in reversed(order):
            if id(c) not in seen_ids:
                seen_ids.add(id(c))
                out.append((m, c))
        out.reverse()
        return out

    def external_base_names(self, mod: Module, cls: ast.ClassDef) -> set[str]:
        """Dotted names of all bases along the MRO that do not resolve inside quantem."""
        names = set()
        for m, c in self.mro(mod, cls):
            for b in c.bases:
                name = dotted(b)
                if name is None:
                    continue
                r = self.resolve_name(m, name)
                if not (r and isinstance(r[1], ast.ClassDef)):
                    head = name.split(".")[0]
                    names.add(m.imports.get(head, head) + name[len(head) :])
        return names

    def resolve_method(self, mod: Module, cls: ast.ClassDef, name: str, want=None):
        for m, c in self.mro(mod, cls):
            for d in c.body:
                if isinstance(d, (ast.FunctionDef, ast.AsyncFunctionDef)) and d.name == name:
                    is_setter = any(
                        isinstance(x, ast.Attribute) and x.attr == "setter"
                        for x in d.decorator_list
                    )
                    if want == "setter" and not is_setter:
                        continue
                    if want != "setter" and is_setter:
                        continue
                    return m, c, d
        return None

    def subclasses(self, base_mod: Module, base: ast.ClassDef):
        for m, c in self.all_classes():
            if c is base:
                continue
            if any(bc is base for _, bc in self.mro(m, c)):
                yield m, c


# --------------------------------------------------------------------- AST utils
def is_referenced(repo: "Repo", fn: ast.AST) -> bool:
    """Is the function used anywhere in the package?  Public names count as used (callers outside the package); a PRIVATE function or method
    (leading underscore) that no module mentions outside its own definition is dead code: whatever it does, no behaviour depends on it."""
    name = getattr(fn, "name", "")
    if not name.startswith("_") or (name.startswith("__") and name.endswith("__")):
        return True
    own = {id(x) for x in ast.walk(fn)}
    # a helper the inliner dissolved into its callers is used (its call sites no longer mention it): "<module>:<caller> ← <helper>[ (expression)]"
    if any(rec.split(" ← ")[-1].split(" ")[0] == name for rec in repo.inlined if " ← " in rec):
        return True
    for m in repo.modules.values():
        for x in ast.walk(m.tree):
            if id(x) in own:
                continue
            if (isinstance(x, ast.Name) and x.id == name) or (isinstance(x, ast.Attribute) and x.attr == name) or (isinstance(x, ast.Constant) and x.value == name):
                return True
            if isinstance(x, ast.alias) and x.name == name:
                return True
    return False


def dotted(node: ast.AST) -> Optional[str]:
    """'a.b.c' for Name/Attribute chains; None otherwise."""
    parts = []
    while isinstance(node, ast.Attribute):
        parts.append(node.attr)
        node = node.value
    if isinstance(node, ast.Name):
        parts.append(node.id)
        return ".".join(reversed(parts))
    return None


def call_name(call: ast.Call) -> Optional[str]:
    return dotted(call.func)


def last_attr(node: ast.AST) -> Optional[str]:
    if isinstance(node, ast.Attribute):
        return node.attr
    if isinstance(node, ast.Name):
        return node.id
    return None


def const(node: ast.AST):
    """Literal value of a Constant / negative number / tuple/list of such, else raises ValueError."""
    return ast.literal_eval(node)


def is_const(node: ast.AST, value=...) -> bool:
    if not isinstance(node, ast.Constant):
        return False
    return value is ... or (node.value == value and type(node.value) is type(value))


def walk_no_nested_defs(node: ast.AST) -> Iterator[ast.AST]:
    """ast.walk that does not descend into nested function/class definitions (but yields them)."""
    stack = [node]
    first = True
    while stack:
        n = stack.pop()
        yield n
        if not first and isinstance(n, (ast.FunctionDef, ast.AsyncFunctionDef, ast.ClassDef, ast.Lambda)):
            continue
        first = False
        stack.extend(reversed(list(ast.iter_child_nodes(n))))


def calls_in(node: ast.AST, nested: bool = True) -> Iterator[ast.Call]:
    it = ast.walk(node) if nested else walk_no_nested_defs(node)
    for n in it:
        if isinstance(n, ast.Call):
            yield n


def names_in(node: ast.AST) -> set[str]:
    return {n.id for n in ast.walk(node) if isinstance(n, ast.Name)}


def attrs_in(node: ast.AST) -> set[str]:
    out = set()
    for n in ast.walk(node):
        d = dotted(n) if isinstance(n, ast.Attribute) else None
        if d:
            out.add(d)
    return out


def unparse(node: ast.AST) -> str:
    try:
        return ast.unparse(node)
    except Exception:  # pragma: no cover
        return f"<{type(node).__name__}>"


def norm(node: ast.AST) -> str:
    """Normalised source text of an expression (whitespace/paren/quote independent)."""
    return unparse(node)


def kwarg(call: ast.Call, name: str) -> Optional[ast.AST]:
    for k in call.keywords:
        if k.arg == name:
            return k.value
    return None


def arg(call: ast.Call, index: int, name: Optional[str] = None) -> Optional[ast.AST]:
    if index < len(call.args) and not any(isinstance(a, ast.Starred) for a in call.args[: index + 1]):
        return call.args[index]
    if name is not None:
        return kwarg(call, name)
    return None


def func_params(fn: ast.FunctionDef) -> list[str]:
    a = fn.args
    return [x.arg for x in a.posonlyargs + a.args + a.kwonlyargs] + (
        [a.vararg.arg] if a.vararg else []
    ) + ([a.kwarg.arg] if a.kwarg else [])


def param_default(fn: ast.FunctionDef, name: str) -> Optional[ast.AST]:
    a = fn.args
    pos = a.posonlyargs + a.args
    defaults = [None] * (len(pos) - len(a.defaults)) + list(a.defaults)
    for p, d in zip(pos, defaults):
        if p.arg == name:
            return d
    for p, d in zip(a.kwonlyargs, a.kw_defaults):
        if p.arg == name:
            return d
    return None


def assigned_names(target: ast.AST) -> list[str]:
    out = []
    for n in ast.walk(target):
        if isinstance(n, ast.Name) and isinstance(n.ctx, ast.Store):
            out.append(n.id)
    return out


def stmt_assigns(st: ast.stmt) -> list[tuple[ast.AST, Optional[ast.AST]]]:
    """(target, value) pairs of an assignment statement (Assign / AnnAssign / AugAssign)."""
    if isinstance(st, ast.Assign):
        return [(t, st.value) for t in st.targets]
    if isinstance(st, ast.AnnAssign) and st.value is not None:
        return [(st.target, st.value)]
    if isinstance(st, ast.AugAssign):
        return [(st.target, st.value)]
    return []


def definitions(fn: ast.AST, name: str, nested: bool = False) -> list[ast.AST]:
    """All value expressions assigned to local `name` in fn (flow-insensitive).  Tuple
    destructuring yields ('tuple', value, index) entries wrapped in ast.Subscript-like tuples."""
    cache = getattr(fn, "_qv_defs", None)
    if cache is None:
        cache = {}
        try:
            fn._qv_defs = cache  # type: ignore[attr-defined]
        except Exception:
            pass
    ck = (name, nested)
    if ck in cache:
        return cache[ck]
    out: list = []
    cache[ck] = out
    it = ast.walk(fn) if nested else walk_no_nested_defs(fn)
    for n in it:
        if isinstance(n, (ast.Assign, ast.AnnAssign)):
            targets = n.targets if isinstance(n, ast.Assign) else [n.target]
            value = n.value
            if value is None:
                continue
            for t in targets:
                if isinstance(t, ast.Name) and t.id == name:
                    out.append(value)
                elif isinstance(t, (ast.Tuple, ast.List)):
                    for i, e in enumerate(t.elts):
                        if isinstance(e, ast.Name) and e.id == name:
                            if isinstance(value, (ast.Tuple, ast.List)) and len(value.elts) == len(t.elts):
                                out.append(value.elts[i])
                            else:
                                out.append(TupleItem(value, i))
        elif isinstance(n, ast.AugAssign) and isinstance(n.target, ast.Name) and n.target.id == name:
            out.append(AugValue(n.op, n.value))
        elif isinstance(n, (ast.For, ast.comprehension)):
            tgt = n.target
            for i, e in enumerate(tgt.elts if isinstance(tgt, (ast.Tuple, ast.List)) else [tgt]):
                if isinstance(e, ast.Name) and e.id == name:
                    out.append(IterItem(n.iter, i if isinstance(tgt, (ast.Tuple, ast.List)) else None))
        elif isinstance(n, ast.NamedExpr) and isinstance(n.target, ast.Name) and n.target.id == name:
            out.append(n.value)
        elif isinstance(n, ast.withitem) and n.optional_vars is not None:
            if isinstance(n.optional_vars, ast.Name) and n.optional_vars.id == name:
                out.append(WithItem(n.context_expr))
    return out


class TupleItem:
    """`name` is element `index` of the destructured `value`."""

    def __init__(self, value: ast.AST, index: int):
        self.value, self.index = value, index

    def __repr__(self):
        return f"TupleItem({unparse(self.value)}, {self.index})"


class AugValue:
    def __init__(self, op, value):
        self.op, self.value = op, value

    def __repr__(self):
        return f"AugValue({type(self.op).__name__}, {unparse(self.value)})"


class IterItem:
    def __init__(self, iter_, index):
        self.iter, self.index = iter_, index

    def __repr__(self):
        return f"IterItem({unparse(self.iter)}, {self.index})"


class WithItem:
    def __init__(self, ctx):
        self.ctx = ctx

    def __repr__(self):
        return f"WithItem({unparse(self.ctx)})"


def single_definition(fn: ast.AST, name: str):
    defs = definitions(fn, name)
    if len(defs) != 1:
        return None
    return defs[0]


def stmts_in_order(fn: ast.AST) -> list[ast.stmt]:
    """All statements of a function in source order (pre-order), excluding nested defs' bodies."""
    out = []

    def rec(body):
        for st in body:
            out.append(st)
            if isinstance(st, (ast.FunctionDef, ast.AsyncFunctionDef, ast.ClassDef)):
                continue
            for fld in ("body", "orelse", "finalbody"):
                rec(getattr(st, fld, []) or [])
            for h in getattr(st, "handlers", []) or []:
                rec(h.body)

    rec(fn.body)
    return out


def inline_self_calls(repo: "Repo", cls_q: str, e: ast.AST, depth: int = 0) -> ast.AST:
    """Expression `e` (fresh copy) with calls `self.h(args…)` replaced by the single return expression of method h of class `cls_q`
    (parameters substituted), when h is a straight-line `return <expr>` helper.  Used to look through extracted one-line helpers."""
    e = ast.parse(unparse(e), mode="eval").body
    if depth > 3:
        return e

    class T(ast.NodeTransformer):
        def visit_Call(self, c):
            self.generic_visit(c)
            if isinstance(c.func, ast.Attribute) and isinstance(c.func.value, ast.Name) and c.func.value.id in ("self", "cls") and not c.keywords and repo.has(f"{cls_q}.{c.func.attr}"):
                _, h = repo.func(f"{cls_q}.{c.func.attr}")
                body = [st for st in h.body if not (isinstance(st, ast.Expr) and isinstance(st.value, ast.Constant))]
                ps = [a.arg for a in h.args.args if a.arg not in ("self", "cls")]
                if len(body) == 1 and isinstance(body[0], ast.Return) and body[0].value is not None and len(ps) == len(c.args):
                    sub = dict(zip(ps, c.args))
                    r = ast.parse(unparse(body[0].value), mode="eval").body

                    class S(ast.NodeTransformer):
                        def visit_Name(self, n):
                            return ast.parse(unparse(sub[n.id]), mode="eval").body if n.id in sub else n
                    return inline_self_calls(repo, cls_q, S().visit(r), depth + 1)
            return c
    return T().visit(e)


_STRUCTURAL_CALLS = {"dict", "zip", "list", "tuple", "enumerate", "reversed", "iter", "next", "sorted"}


def raw_flow_from(fn: ast.AST, expr, param: str, _seen=None) -> Optional[bool]:
    """Does `expr` carry the caller's `param` *unchanged* — reached only through structure-preserving steps (names, tuple
    unpacking, subscripts, starring, dict/zip/list/tuple/enumerate, iteration) on every definition?
    True  : every definition chain is structural and at least one reaches `param`  (a definite "passed through unchanged");
    False : structural throughout but `param` is not reached;
    None  : some step computes (conditional, boolean operator, comparison, arithmetic, other calls, a None constant …) —
            nothing is claimed."""
    seen = _seen if _seen is not None else set()
    if isinstance(expr, TupleItem):
        return raw_flow_from(fn, expr.value, param, seen)
    if isinstance(expr, IterItem):
        return raw_flow_from(fn, expr.iter, param, seen)
    if isinstance(expr, (AugValue, WithItem)) or not isinstance(expr, ast.AST):
        return None
    if isinstance(expr, ast.Name):
        if expr.id in seen:
            return expr.id == param
        seen.add(expr.id)
        res = [raw_flow_from(fn, d, param, seen) for d in definitions(fn, expr.id, nested=True)]
        if expr.id == param:
            res.append(True)                                        # the caller's value is one of its definitions
        if any(r is None for r in res):
            return None
        return any(res)
    if isinstance(expr, ast.Constant):
        return None if expr.value is None else False
    if isinstance(expr, ast.Starred):
        return raw_flow_from(fn, expr.value, param, seen)
    if isinstance(expr, ast.Subscript):
        return raw_flow_from(fn, expr.value, param, seen)          # the index selects, it does not transform
    if isinstance(expr, (ast.Tuple, ast.List)):
        res = [raw_flow_from(fn, e, param, seen) for e in expr.elts]
        return None if any(r is None for r in res) else any(res)
    if isinstance(expr, ast.Call) and (call_name(expr) or "") in _STRUCTURAL_CALLS and not expr.keywords:
        res = [raw_flow_from(fn, a, param, set(seen)) for a in expr.args]
        if call_name(expr) == "zip" and any(r is True for r in res):
            return True                                             # zip pairs its arguments, it transforms none of them
        return None if any(r is None for r in res) else any(res)
    return None
