"""Which local-variable spellings of the analysed repository a recorded obligation depends on.

Rules match repository code partly through strings (`definitions(fn, "cc")`, `unparse(x) == "G1 * G2.conj()"`).
Such a rule is *keyed* on the spelling of locals: after a behaviour-preserving rename it no longer
recognises the idiom.  qv.main.withhold_unrecognised therefore demotes a violation to an analysis error
(exit 2, "idiom not recognised") when a local the deciding rule code is keyed on has vanished from the
function it was keyed to.  This module computes, for the check.decide/violated call that recorded an
obligation, the backward slice of the *rule module's own code* that computed it, and the identifiers in
the matching strings of that slice.  (tools/gen_keyed_locals.py freezes, on the pinned tree, which of
those identifiers are locals of which repository function.)
"""
from __future__ import annotations

import ast
import re

IDENT = re.compile(r"(?<![A-Za-z0-9_.])([A-Za-z_][A-Za-z0-9_]*)")
PROSE_TABLES = {"titles", "EXPLANATION", "MANIFEST", "TITLES"}


def matching_strings(tree: ast.AST, ranges: list | None = None) -> set[str]:
    """String constants a rule module *matches* repository code against (comparisons, membership tests,
    definitions(...) look-ups, literal tables) — not prose — on the given inclusive line ranges."""
    out = set()

    def consts(n):
        for x in ast.walk(n):
            if isinstance(x, ast.Constant) and isinstance(x.value, str):
                out.add(x.value)
            if isinstance(x, ast.JoinedStr):
                for v in x.values:
                    if isinstance(v, ast.Constant) and isinstance(v.value, str):
                        out.add(v.value)
    for n in ast.walk(tree):
        ln = getattr(n, "lineno", None)
        if ln is None and isinstance(n, ast.comprehension):
            ln = getattr(n.iter, "lineno", None)
        if ranges is not None and (ln is None or not any(a <= ln <= b for a, b in ranges)):
            continue
        if isinstance(n, ast.Compare):
            consts(n)
        elif isinstance(n, ast.Call):
            f = n.func
            name = f.id if isinstance(f, ast.Name) else (f.attr if isinstance(f, ast.Attribute) else "")
            if name in ("definitions", "single_definition", "startswith", "endswith", "count", "find", "index", "get", "KAT", "search", "match",
                        "fullmatch", "findall", "compile"):
                consts(n)
        elif isinstance(n, ast.Assign) and isinstance(n.targets[0], ast.Name) and n.targets[0].id not in PROSE_TABLES \
                and isinstance(n.value, (ast.Dict, ast.List, ast.Tuple, ast.Set)):
            consts(n.value)
        elif isinstance(n, (ast.For, ast.comprehension)) and isinstance(n.iter, (ast.Tuple, ast.List, ast.Set, ast.Dict)):
            consts(n.iter)
    return out


# ---------------------------------------------------------------------------------------------------------------
class _Stmt:
    __slots__ = ("node", "lo", "hi", "blocks", "defs", "uses", "cond")

    def __init__(self, node, lo, hi, blocks, defs, uses, cond):
        self.node, self.lo, self.hi, self.blocks, self.defs, self.uses, self.cond = node, lo, hi, blocks, defs, uses, cond


def _names(node, ctx):
    out = set()
    bound_in_comp = set()
    for x in ast.walk(node):
        if isinstance(x, ast.comprehension):
            for t in ast.walk(x.target):
                if isinstance(t, ast.Name):
                    bound_in_comp.add(t.id)
    for x in ast.walk(node):
        if isinstance(x, ast.Name) and isinstance(x.ctx, ctx):
            out.add(x.id)
    return out - bound_in_comp if ctx is ast.Load else out - bound_in_comp


def _collect(fn: ast.AST) -> list[_Stmt]:
    """Flatten fn's body: one entry per simple statement and per compound-statement header."""
    out: list[_Stmt] = []

    def rec(body, blocks, cond):
        for st in body:
            if isinstance(st, (ast.FunctionDef, ast.AsyncFunctionDef, ast.ClassDef)):
                out.append(_Stmt(st, st.lineno, st.end_lineno or st.lineno, blocks, {st.name}, set(), cond))
                continue
            if isinstance(st, (ast.For, ast.AsyncFor)):
                hdr_hi = max(st.lineno, st.body[0].lineno - 1)
                out.append(_Stmt(st, st.lineno, hdr_hi, blocks, _names(st.target, ast.Store), _names(st.iter, ast.Load), cond))
                rec(st.body, blocks + [id(st)], True)
                rec(st.orelse, blocks + [id(st)], True)
            elif isinstance(st, (ast.If, ast.While)):
                hdr_hi = max(st.lineno, st.body[0].lineno - 1)
                out.append(_Stmt(st, st.lineno, hdr_hi, blocks, _names(st.test, ast.Store), _names(st.test, ast.Load), cond))
                rec(st.body, blocks + [id(st)], True)
                rec(st.orelse, blocks + [id(st)], True)
            elif isinstance(st, (ast.With, ast.AsyncWith)):
                d, u = set(), set()
                for it in st.items:
                    u |= _names(it.context_expr, ast.Load)
                    if it.optional_vars is not None:
                        d |= _names(it.optional_vars, ast.Store)
                out.append(_Stmt(st, st.lineno, max(st.lineno, st.body[0].lineno - 1), blocks, d, u, cond))
                rec(st.body, blocks + [id(st)], cond)
            elif isinstance(st, ast.Try):
                rec(st.body, blocks + [id(st)], True)
                for h in st.handlers:
                    rec(h.body, blocks + [id(st)], True)
                rec(st.orelse, blocks + [id(st)], True)
                rec(st.finalbody, blocks + [id(st)], cond)
            else:
                d = _names(st, ast.Store)
                u = _names(st, ast.Load)
                if isinstance(st, ast.AugAssign):
                    u |= _names(st.target, ast.Store)
                # x.append(...) / x[k] = ... / x.update(...) mutate x
                for c in ast.walk(st):
                    if isinstance(c, ast.Call) and isinstance(c.func, ast.Attribute) and isinstance(c.func.value, ast.Name) \
                            and c.func.attr in ("append", "extend", "add", "update", "setdefault", "insert"):
                        d.add(c.func.value.id)
                    if isinstance(c, ast.Subscript) and isinstance(c.ctx, ast.Store) and isinstance(c.value, ast.Name):
                        d.add(c.value.id)
                out.append(_Stmt(st, st.lineno, st.end_lineno or st.lineno, blocks, d, u, cond))
    rec(fn.body, [], False)
    return out


def _slice(fn: ast.AST, line: int) -> tuple[list[tuple[int, int]], set[str]]:
    """(line ranges, called helper names) of the backward slice of the statement at `line` in `fn`."""
    stmts = _collect(fn)
    rec = None
    for s in stmts:
        if s.lo <= line <= s.hi and (rec is None or s.lo >= rec.lo):
            rec = s
    if rec is None:
        return [(fn.lineno, fn.end_lineno or fn.lineno)], set()
    by_id = {id(s.node): s for s in stmts}
    included: dict[int, _Stmt] = {}
    work: list[tuple[str, _Stmt]] = []

    def include(s: _Stmt):
        if id(s) in included:
            return
        included[id(s)] = s
        for nm in s.uses:
            work.append((nm, s))
        for b in s.blocks:  # control dependence: headers of the enclosing compound statements
            hdr = by_id.get(b)
            if hdr is not None:
                include(hdr)
    include(rec)
    params = {a.arg for a in fn.args.posonlyargs + fn.args.args + fn.args.kwonlyargs}
    seen = set()
    while work:
        nm, user = work.pop()
        if (nm, id(user)) in seen or nm in params and not any(nm in s.defs for s in stmts):
            continue
        seen.add((nm, id(user)))
        cands = [s for s in stmts if nm in s.defs and (s.lo < user.lo or (set(s.blocks) & set(user.blocks) and s is not user))]
        before = sorted([s for s in cands if s.lo < user.lo], key=lambda s: s.lo, reverse=True)
        loop_carried = [s for s in cands if s.lo >= user.lo]  # later definitions inside a shared loop body
        for s in before:
            include(s)
            killing = isinstance(s.node, (ast.Assign, ast.AnnAssign)) and all(b in user.blocks for b in s.blocks) \
                and any(isinstance(t, ast.Name) and t.id == nm for t in (s.node.targets if isinstance(s.node, ast.Assign) else [s.node.target]))
            if killing:
                break
        for s in loop_carried:
            if any(isinstance(by_id[b].node, (ast.For, ast.While)) for b in set(s.blocks) & set(user.blocks) if b in by_id):
                include(s)
    helpers = set()
    ranges = []
    for s in included.values():
        ranges.append((s.lo, s.hi))
        for c in ast.walk(s.node) if not isinstance(s.node, (ast.For, ast.If, ast.While, ast.With, ast.FunctionDef, ast.ClassDef)) else _header_nodes(s.node):
            if isinstance(c, ast.Call):
                if isinstance(c.func, ast.Name):
                    helpers.add(c.func.id)
                elif isinstance(c.func, ast.Attribute) and isinstance(c.func.value, ast.Name):
                    helpers.add(c.func.value.id)
        if isinstance(s.node, (ast.FunctionDef, ast.ClassDef)):
            for c in ast.walk(s.node):
                if isinstance(c, ast.Call) and isinstance(c.func, ast.Name):
                    helpers.add(c.func.id)
    return ranges, helpers


def _header_nodes(st):
    if isinstance(st, (ast.For, ast.AsyncFor)):
        yield from ast.walk(st.iter)
    elif isinstance(st, (ast.If, ast.While)):
        yield from ast.walk(st.test)
    elif isinstance(st, (ast.With, ast.AsyncWith)):
        for it in st.items:
            yield from ast.walk(it.context_expr)


_PARSE: dict = {}


def _parsed(fname: str):
    if fname not in _PARSE:
        with open(fname, "r", encoding="utf-8") as fh:
            _PARSE[fname] = ast.parse(fh.read())
    return _PARSE[fname]


def slice_idents(frames: list[tuple[str, int]]) -> set[str] | None:
    """Identifiers in the matching strings of the rule code that computed an obligation.  `frames` is the
    recording call stack restricted to rule/domain modules, innermost first."""
    out: set[str] = set()
    if not frames:
        return None
    # functions that are themselves on the recording stack are sliced precisely by their own frame — never wholesale as a helper
    on_stack = set()
    for fname, line in frames:
        try:
            for n in ast.walk(_parsed(fname)):
                if isinstance(n, (ast.FunctionDef, ast.AsyncFunctionDef)) and n.lineno <= line <= (n.end_lineno or n.lineno):
                    on_stack.add(n.name)
        except Exception:
            return None
    for fname, line in frames:
        try:
            tree = _parsed(fname)
        except Exception:
            return None
        fn = None
        for n in ast.walk(tree):
            if isinstance(n, (ast.FunctionDef, ast.AsyncFunctionDef)) and n.lineno <= line <= (n.end_lineno or n.lineno):
                if fn is None or n.lineno >= fn.lineno:
                    fn = n
        if fn is None:
            continue
        ranges, helpers = _slice(fn, line)
        strs = matching_strings(fn, ranges)
        # module-level helper functions/classes called from the slice: their whole bodies (transitively)
        top = {n.name: n for n in tree.body if isinstance(n, (ast.FunctionDef, ast.AsyncFunctionDef, ast.ClassDef))}
        todo, done = [h for h in helpers if h in top and h not in on_stack], set(on_stack)
        while todo:
            h = todo.pop()
            if h in done:
                continue
            done.add(h)
            strs |= matching_strings(top[h])
            for c in ast.walk(top[h]):
                if isinstance(c, ast.Call) and isinstance(c.func, ast.Name) and c.func.id in top and c.func.id not in done:
                    todo.append(c.func.id)
        for sv in strs:
            out |= set(IDENT.findall(sv))
    return out


_CODEISH = re.compile(r"[()\[\]]|\s[-+*/@%]=?\s|\s=\s|\*\*")  # call / index / operator / assignment syntax (a dotted name alone is a role, not a text)


def textual_matches(frames: list[tuple[str, int]]) -> list[str]:
    """Expression/statement TEXTS of repository code that the rule code deciding an obligation compares against (`unparse(x) == "a - b"`,
    `"x = f(y)" in text`, expected-sequence tables).  A verdict that hinges on such a comparison is *textual*: a mismatch shows that the
    code is written differently, not that it behaves differently."""
    out: list[str] = []
    for fname, line in frames:
        try:
            tree = _parsed(fname)
        except Exception:
            continue
        fn = None
        for n in ast.walk(tree):
            if isinstance(n, (ast.FunctionDef, ast.AsyncFunctionDef)) and n.lineno <= line <= (n.end_lineno or n.lineno):
                if fn is None or n.lineno >= fn.lineno:
                    fn = n
        if fn is None:
            continue
        ranges, _helpers = _slice(fn, line)
        for n in ast.walk(fn):
            ln = getattr(n, "lineno", None)
            if ln is None or not any(a <= ln <= b for a, b in ranges):
                continue
            consts = []
            if isinstance(n, ast.Compare):
                consts = [x for x in ast.walk(n) if isinstance(x, (ast.Constant, ast.JoinedStr))]
            elif isinstance(n, ast.Assign) and isinstance(n.targets[0], ast.Name) and n.targets[0].id in ("want", "chain", "expected", "want_sig"):
                consts = [x for x in ast.walk(n.value) if isinstance(x, (ast.Constant, ast.JoinedStr))]
            for c in consts:
                if isinstance(c, ast.Constant) and isinstance(c.value, str):
                    txt = c.value
                elif isinstance(c, ast.JoinedStr):
                    txt = "".join(v.value if isinstance(v, ast.Constant) and isinstance(v.value, str) else "§" for v in c.values)
                else:
                    continue
                if len(txt) >= 6 and _CODEISH.search(txt) and not txt.startswith(("quantem.", "C0", "C1", "C2")) and " " not in txt.strip()[:0]:
                    # prose (messages) lives in check.* call arguments, which are not Compare nodes; keys like '_autoserialize' have no code syntax
                    out.append(txt)
    return out
