"""Inlining of helpers that did not exist when the rules were written.

"Extract helper" is the most common behaviour-preserving refactoring: a block of an analysed function moves into a new private
function / method / closure and is replaced by a call.  The rules (effects, CFG paths, idioms) are intra-procedural with summaries for the
helpers they know, so a *new* helper is opaque to them.  This pre-pass undoes the extraction on the parsed tree: a call to a function that
is not in the recorded table (qv/rules/pinned_shapes.json) — and only such a call — is replaced by the callee's body when that is a
semantics-preserving substitution under the conditions below; otherwise the call is left alone (and the rules treat it as before).

Conditions (all checked; failing any → no inlining at that site):
  * callee: module-level function, method of the same class (called on self / cls / the class name) or closure of the calling function;
    not async, not a generator unless used by `yield from`, no decorators other than staticmethod/classmethod, no *args/**kwargs,
    no global/nonlocal, not recursive, not itself containing nested defs/lambdas that capture its locals;
  * call site: a whole statement `h(…)`, `t = h(…)`, `return h(…)`, `yield from h(…)`; or — for callees whose body is a single
    `return <expr>` — any expression position;
  * arguments bind by position/keyword with defaults filled in; a parameter the callee never rebinds that receives a name / attribute /
    constant is substituted directly, other arguments are evaluated once, in order, into fresh temporaries before the body;
  * `return`: only as the last statement of the body, or as the last statement of an `if` without `else` ("guard clause", rewritten into
    if/else nesting).  A return anywhere else (loops, try, with) → not inlinable;
  * callee locals and temporaries get a unique suffix.

The pass runs before alpha-normalisation and before any rule; the helper definitions stay in the tree (rules may still look them up).
"""
from __future__ import annotations

import ast
import copy
import hashlib
import os

from .alpha import clone, locals_of, pinned_table

SUFFIX = "__inl"


def _fresh(node: ast.AST) -> ast.AST:
    return clone(node)


def _has_return_elsewhere(body: list[ast.stmt]) -> bool:
    """True if a Return occurs in a position other than: last statement of body, or last statement of a guard `if` (no else) at this level."""
    def ok_block(stmts, tail_allowed):
        for i, st in enumerate(stmts):
            last = i == len(stmts) - 1
            if isinstance(st, ast.Return):
                if not (last and tail_allowed):
                    return False
            elif isinstance(st, ast.If):
                guard = bool(st.body) and isinstance(st.body[-1], ast.Return) and not st.orelse
                if guard:
                    if not ok_block(st.body, True):
                        return False
                else:
                    # returns in both arms are fine only when the if is the last statement
                    if not ok_block(st.body, last and tail_allowed) or not ok_block(st.orelse, last and tail_allowed):
                        return False
            elif isinstance(st, (ast.FunctionDef, ast.AsyncFunctionDef, ast.ClassDef)):
                continue
            else:
                if any(isinstance(x, ast.Return) for x in ast.walk(st)):
                    return False
        return True
    return not ok_block(body, True)


def _convert_returns(body: list[ast.stmt], sink) -> list[ast.stmt]:
    """Rewrite returns: `sink(expr_or_None)` gives the statements that replace `return expr` (assignment to the target, or nothing);
    guard clauses become if/else nesting."""
    out: list[ast.stmt] = []
    for i, st in enumerate(body):
        if isinstance(st, ast.Return):
            out += sink(st.value)
            return out
        if isinstance(st, ast.If):
            guard = bool(st.body) and isinstance(st.body[-1], ast.Return) and not st.orelse
            if guard:
                new_if = ast.If(test=st.test, body=_convert_returns(st.body, sink) or [ast.Pass()], orelse=_convert_returns(body[i + 1:], sink))
                ast.copy_location(new_if, st)
                out.append(new_if)
                return out
            if any(isinstance(x, ast.Return) for x in ast.walk(st)):
                new_if = ast.If(test=st.test, body=_convert_returns(st.body, sink) or [ast.Pass()], orelse=_convert_returns(st.orelse, sink))
                ast.copy_location(new_if, st)
                out.append(new_if)
                continue
        out.append(st)
    out += sink(None) if body and not isinstance(body[-1], (ast.Return, ast.If)) else []
    return out


class _Subst(ast.NodeTransformer):
    def __init__(self, exprs: dict, renames: dict):
        self.exprs, self.renames = exprs, renames

    def visit_Name(self, n):
        if n.id in self.exprs and isinstance(n.ctx, ast.Load):
            return _fresh(self.exprs[n.id])
        if n.id in self.renames:
            n.id = self.renames[n.id]
        return n

    def visit_ExceptHandler(self, n):
        if n.name in self.renames:
            n.name = self.renames[n.name]
        self.generic_visit(n)
        return n


def _simple_arg(e: ast.AST) -> bool:
    while isinstance(e, ast.Attribute):
        e = e.value
    return isinstance(e, (ast.Name, ast.Constant))


def _inlinable(fn: ast.AST) -> bool:
    if not isinstance(fn, ast.FunctionDef):
        return False
    if any(not (isinstance(d, ast.Name) and d.id in ("staticmethod", "classmethod")) for d in fn.decorator_list):
        return False
    a = fn.args
    if a.vararg or a.posonlyargs:
        return False
    if a.kwarg:
        # **kwargs is accepted when the callee only forwards it (`g(…, **kwargs)`): the forwarding sites receive the caller's keywords
        kw = a.kwarg.arg
        fwd = {id(k.value) for x in ast.walk(fn) if isinstance(x, ast.Call) for k in x.keywords if k.arg is None and isinstance(k.value, ast.Name) and k.value.id == kw}
        if any(isinstance(x, ast.Name) and x.id == kw and id(x) not in fwd for x in ast.walk(fn)):
            return False
    for x in ast.walk(fn):
        if isinstance(x, (ast.Global, ast.Nonlocal, ast.AsyncFunctionDef, ast.Await, ast.Lambda, ast.ClassDef)):
            return False
        if isinstance(x, ast.FunctionDef) and x is not fn:
            return False
        if isinstance(x, ast.Call) and isinstance(x.func, ast.Name) and x.func.id == fn.name:
            return False
        if isinstance(x, ast.Call) and isinstance(x.func, ast.Attribute) and x.func.attr == fn.name and isinstance(x.func.value, ast.Name) and x.func.value.id in ("self", "cls"):
            return False
    return True


def _bind(fn: ast.FunctionDef, call: ast.Call, drop_first: bool):
    params = [p.arg for p in fn.args.args] + [p.arg for p in fn.args.kwonlyargs]
    pos = [p.arg for p in fn.args.args]
    if drop_first and pos:
        pos = pos[1:]
    kwname = fn.args.kwarg.arg if fn.args.kwarg else None
    if any(isinstance(x, ast.Starred) for x in call.args) or len(call.args) > len(pos):
        return None
    if any(k.arg is None for k in call.keywords) and (kwname is None or not all(isinstance(k.value, ast.Name) for k in call.keywords if k.arg is None)):
        return None
    bound = {}
    forward = []
    for p, a in zip(pos, call.args):
        bound[p] = a
    for k in call.keywords:
        if k.arg is None or (k.arg not in params and kwname is not None):
            if k.arg is not None and not _simple_arg(k.value):
                return None
            forward.append(k)
            continue
        if k.arg not in params or k.arg in bound:
            return None
        bound[k.arg] = k.value
    fn._qv_forward = forward  # type: ignore[attr-defined]
    defaults = dict(zip([p.arg for p in fn.args.args][len(fn.args.args) - len(fn.args.defaults):], fn.args.defaults))
    defaults.update({p.arg: d for p, d in zip(fn.args.kwonlyargs, fn.args.kw_defaults) if d is not None})
    order = pos + [p.arg for p in fn.args.kwonlyargs]
    for p in order:
        if p not in bound:
            if p not in defaults:
                return None
            bound[p] = defaults[p]
    return [(p, bound[p]) for p in order]


class Inliner:
    def __init__(self, modname: str, tree: ast.Module):
        self.modname, self.tree = modname, tree
        self.table = pinned_table()
        self.known_module = any(k.startswith(modname + ":") for k in self.table)
        self.count = 0
        self.done: list[str] = []

    # ------------------------------------------------------------------ which functions are new
    def _is_new(self, qual: str) -> bool:
        return self.known_module and f"{self.modname}:{qual}" not in self.table

    def _closure_is_new(self, parent_qual: str, name: str) -> bool:
        e = self.table.get(f"{self.modname}:{parent_qual}")
        if not e or "stmts" not in e:
            return False
        return hashlib.sha256(("def:" + name).encode()).hexdigest()[:12] not in e["stmts"]

    # ------------------------------------------------------------------ resolution
    def _resolve(self, call: ast.Call, cls: ast.ClassDef | None, fn: ast.FunctionDef, fn_qual: str):
        """(callee node, drop_first_param, self_expr) or None"""
        f = call.func
        if isinstance(f, ast.Name):
            for st in ast.walk(fn):  # closure of the calling function
                if isinstance(st, ast.FunctionDef) and st is not fn and st.name == f.id and self._closure_is_new(fn_qual, st.name):
                    return st, False, None
            for st in self.tree.body:
                if isinstance(st, ast.FunctionDef) and st.name == f.id and self._is_new(st.name):
                    return st, False, None
        if isinstance(f, ast.Attribute) and isinstance(f.value, ast.Name) and cls is not None and f.value.id in ("self", "cls", cls.name):
            # the class itself, then its base classes defined in the same module (a helper extracted into the common base); an override in between wins
            chain_, seen_ = [cls], {cls.name}
            k_ = 0
            while k_ < len(chain_):
                for b_ in chain_[k_].bases:
                    bn_ = b_.id if isinstance(b_, ast.Name) else None
                    if bn_ and bn_ not in seen_:
                        seen_.add(bn_)
                        chain_.extend(c_ for c_ in self.tree.body if isinstance(c_, ast.ClassDef) and c_.name == bn_)
                k_ += 1
            for owner_ in chain_[1:]:
                hit_ = next((st for st in owner_.body if isinstance(st, ast.FunctionDef) and st.name == f.attr), None)
                if hit_ is not None and not any(isinstance(st, ast.FunctionDef) and st.name == f.attr for c_ in chain_[:chain_.index(owner_)] for st in c_.body):
                    if self._is_new(f"{owner_.name}.{hit_.name}") and f.value.id != cls.name:
                        static = any(isinstance(d, ast.Name) and d.id == "staticmethod" for d in hit_.decorator_list)
                        return (hit_, False, None) if static else (hit_, True, f.value)
                    break
            for st in cls.body:
                if isinstance(st, ast.FunctionDef) and st.name == f.attr and self._is_new(f"{cls.name}.{st.name}"):
                    static = any(isinstance(d, ast.Name) and d.id == "staticmethod" for d in st.decorator_list)
                    if static:
                        return st, False, None
                    if f.value.id == cls.name:
                        return None  # unbound call of an instance method: leave alone
                    return st, True, f.value
        return None

    # ------------------------------------------------------------------ inlining one call
    def _prepare(self, callee: ast.FunctionDef, call: ast.Call, drop_first: bool, self_expr, target_name: str | None = None):
        if not _inlinable(callee):
            return None
        binding = _bind(callee, call, drop_first)
        if binding is None:
            return None
        self.count += 1
        suf = f"{SUFFIX}{self.count}"
        loc = locals_of(callee)
        rebound = {t.id for n in ast.walk(callee) for t in ast.walk(n) if isinstance(t, ast.Name) and isinstance(t.ctx, (ast.Store, ast.Del))}
        exprs, renames, pre = {}, {n: n + suf for n in loc}, []
        if drop_first and callee.args.args:
            first = callee.args.args[0].arg
            if first in rebound:
                return None
            exprs[first] = self_expr
        for p, a in binding:
            if p not in rebound and _simple_arg(a):
                exprs[p] = a
            elif target_name is not None and isinstance(a, ast.Name) and a.id == target_name and target_name not in loc and not any(
                    isinstance(b2, ast.Name) and b2.id == target_name for q2, b2 in binding if q2 != p):
                # `t = h(t, …)`: the callee's rebindings of this parameter ARE the caller's rebindings of t (t is overwritten by the call anyway)
                renames[p] = target_name
            else:
                renames[p] = p + suf
                tgt = ast.Name(id=p + suf, ctx=ast.Store())
                asg = ast.Assign(targets=[tgt], value=_fresh(a))
                ast.copy_location(asg, call)
                pre.append(asg)
        body = [_fresh(st) for st in callee.body if not (isinstance(st, ast.Expr) and isinstance(st.value, ast.Constant) and isinstance(st.value.value, str))]
        sub = _Subst(exprs, renames)
        body = [sub.visit(st) for st in body]
        if callee.args.kwarg:
            kw, forward = callee.args.kwarg.arg, getattr(callee, "_qv_forward", [])
            for st in body:
                for x in ast.walk(st):
                    if isinstance(x, ast.Call):
                        new = []
                        for k in x.keywords:
                            if k.arg is None and isinstance(k.value, ast.Name) and k.value.id in (kw, renames.get(kw)):
                                new.extend(_fresh(f) for f in forward)
                            else:
                                new.append(k)
                        x.keywords = new
        return pre, body

    def _inline_stmt(self, st: ast.stmt, cls, fn, fn_qual):
        """list of replacement statements, or None"""
        call, kind, target = None, None, None
        if isinstance(st, ast.Expr) and isinstance(st.value, ast.Call):
            call, kind = st.value, "stmt"
        elif isinstance(st, ast.Expr) and isinstance(st.value, ast.YieldFrom) and isinstance(st.value.value, ast.Call):
            call, kind = st.value.value, "yieldfrom"
        elif isinstance(st, ast.Assign) and len(st.targets) == 1 and isinstance(st.value, ast.Call):
            call, kind, target = st.value, "assign", st.targets[0]
        elif isinstance(st, ast.Return) and isinstance(st.value, ast.Call):
            call, kind = st.value, "return"
        if call is None and isinstance(st, (ast.Assign, ast.Return)) and st.value is not None:
            # `t = h(…).T` / `return h(…)[0]`: the call is the FIRST thing the statement evaluates (head of an attribute / constant-subscript chain), so it can be
            # hoisted into a temporary without changing the order of evaluation:  tmp = h(…);  t = tmp.T
            chain, head = [], st.value
            while isinstance(head, (ast.Attribute, ast.Subscript)) and (isinstance(head, ast.Attribute) or isinstance(head.slice, ast.Constant)):
                chain.append(head)
                head = head.value
            if chain and isinstance(head, ast.Call) and self._resolve(head, cls, fn, fn_qual) is not None and (not isinstance(st, ast.Assign) or len(st.targets) == 1):
                self.count += 1
                tmp = f"hoisted{SUFFIX}{self.count}"
                first = ast.Assign(targets=[ast.Name(id=tmp, ctx=ast.Store())], value=head)
                ast.copy_location(first, st)
                chain[-1].value = ast.Name(id=tmp, ctx=ast.Load())
                inner = self._inline_stmt(first, cls, fn, fn_qual)
                if inner is None:
                    chain[-1].value = head          # undo
                    return None
                for n_ in inner + [st]:
                    ast.fix_missing_locations(n_)
                return inner + [st]
        if call is None:
            return None
        res = self._resolve(call, cls, fn, fn_qual)
        if res is None:
            return None
        callee, drop_first, self_expr = res
        is_gen = any(isinstance(x, (ast.Yield, ast.YieldFrom)) for x in ast.walk(callee))
        if is_gen != (kind == "yieldfrom"):
            return None
        if kind in ("stmt", "assign", "yieldfrom") and _has_return_elsewhere(callee.body):
            return None
        tname = target.id if kind == "assign" and isinstance(target, ast.Name) and not self._in_try(fn, st) else None
        prep = self._prepare(callee, call, drop_first, self_expr, tname)
        if prep is None:
            return None
        pre, body = prep
        if kind == "return":
            new = pre + body  # the callee's returns are the caller's returns
            if not (body and isinstance(body[-1], (ast.Return, ast.Raise, ast.If))):
                r = ast.Return(value=None)
                ast.copy_location(r, st)
                new.append(r)
        elif kind in ("stmt", "yieldfrom"):
            if kind == "yieldfrom" and any(isinstance(x, ast.Return) and x.value is not None for b in body for x in ast.walk(b)):
                return None
            new = pre + _convert_returns(body, lambda v: [])
        else:
            def sink(v, _t=target, _st=st):
                a = ast.Assign(targets=[_fresh(_t)], value=_fresh(v) if v is not None else ast.Constant(value=None))
                ast.copy_location(a, _st)
                return [a]
            new = pre + _convert_returns(body, sink)
            # drop `t = t`
            new = [n for n in new if not (isinstance(n, ast.Assign) and len(n.targets) == 1 and isinstance(n.targets[0], ast.Name) and isinstance(n.value, ast.Name)
                                          and n.targets[0].id == n.value.id)]
        for n in new:
            ast.fix_missing_locations(n)
        self.done.append(f"{fn_qual} ← {callee.name}")
        return new or [ast.Pass()]

    @staticmethod
    def _in_try(fn, st) -> bool:
        for t in ast.walk(fn):
            if isinstance(t, ast.Try) and any(x is st for b in (t.body,) for s2 in b for x in ast.walk(s2)):
                return True
        return False

    # ------------------------------------------------------------------ expression-level (single `return expr` helpers)
    def _inline_exprs(self, fn, cls, fn_qual):
        outer = self

        class T(ast.NodeTransformer):
            def visit_FunctionDef(self, n):
                return n if n is not fn else self.generic_visit(n)

            def visit_Call(self, c):
                self.generic_visit(c)
                res = outer._resolve(c, cls, fn, fn_qual)
                if res is None:
                    return c
                callee, drop_first, self_expr = res
                body = [st for st in callee.body if not (isinstance(st, ast.Expr) and isinstance(st.value, ast.Constant))]
                if len(body) != 1 or not isinstance(body[0], ast.Return) or body[0].value is None or not _inlinable(callee):
                    return c
                binding = _bind(callee, c, drop_first)
                if binding is None:
                    return c
                # every parameter is used at most once or receives a simple argument (no duplicated evaluation)
                uses = {}
                for x in ast.walk(body[0].value):
                    if isinstance(x, ast.Name):
                        uses[x.id] = uses.get(x.id, 0) + 1
                exprs = {}
                for p, a in binding:
                    if uses.get(p, 0) > 1 and not _simple_arg(a):
                        return c
                    exprs[p] = a
                if drop_first and callee.args.args:
                    exprs[callee.args.args[0].arg] = self_expr
                outer.done.append(f"{fn_qual} ← {callee.name} (expression)")
                new = _Subst(exprs, {}).visit(_fresh(body[0].value))
                ast.copy_location(new, c)
                ast.fix_missing_locations(new)
                return new
        T().visit(fn)

    # ------------------------------------------------------------------ driver
    def _process_block(self, body: list[ast.stmt], cls, fn, fn_qual, depth=0) -> list[ast.stmt]:
        out = []
        for st in body:
            rep = self._inline_stmt(st, cls, fn, fn_qual) if depth < 3 else None
            if rep is not None:
                out += self._process_block(rep, cls, fn, fn_qual, depth + 1)
                continue
            for fld in ("body", "orelse", "finalbody"):
                blk = getattr(st, fld, None)
                if isinstance(blk, list) and blk and isinstance(blk[0], ast.stmt) and not isinstance(st, (ast.FunctionDef, ast.AsyncFunctionDef, ast.ClassDef)):
                    setattr(st, fld, self._process_block(blk, cls, fn, fn_qual, depth))
            for h in getattr(st, "handlers", []) or []:
                h.body = self._process_block(h.body, cls, fn, fn_qual, depth)
            out.append(st)
        return out

    def run(self) -> list[str]:
        if not self.known_module or os.environ.get("QV_NO_INLINE"):
            return []
        targets = []
        for st in self.tree.body:
            if isinstance(st, ast.FunctionDef):
                targets.append((st, None, st.name))
            elif isinstance(st, ast.ClassDef):
                targets += [(f, st, f"{st.name}.{f.name}") for f in st.body if isinstance(f, ast.FunctionDef)]
        for fn, cls, qual in targets:
            if self._is_new(qual):
                continue  # new helpers themselves are left as they are (they are inlined into their callers)
            for _round in range(2):
                before = len(self.done)
                self._inline_exprs(fn, cls, qual)
                fn.body = self._process_block(fn.body, cls, fn, qual)
                # closures of fn: process their bodies too (a new helper may be called from a pre-existing closure)
                for sub in [x for x in ast.walk(fn) if isinstance(x, ast.FunctionDef) and x is not fn]:
                    sub.body = self._process_block(sub.body, cls, fn, qual)
                if len(self.done) == before:
                    break
            # a closure that was inlined everywhere and is no longer referenced is dropped (its body now lives in the caller)
            for sub in [x for x in ast.walk(fn) if isinstance(x, ast.FunctionDef) and x is not fn and self._closure_is_new(qual, x.name)]:
                refs = [n for n in ast.walk(fn) if isinstance(n, ast.Name) and n.id == sub.name and isinstance(n.ctx, ast.Load)]
                if not refs:
                    for owner in ast.walk(fn):
                        for fld in ("body", "orelse", "finalbody"):
                            blk = getattr(owner, fld, None)
                            if isinstance(blk, list) and sub in blk:
                                blk.remove(sub)
                                if not blk:
                                    blk.append(ast.Pass())
        if self.done:
            ast.fix_missing_locations(self.tree)
        return self.done


def inline_module(modname: str, tree: ast.Module) -> list[str]:
    return Inliner(modname, tree).run()
