"""Obligation bookkeeping, known findings, evidence and exit codes.

Three outcomes: 0 (all obligations held; known findings printed), 1 (VIOLATION), 2
(ANALYSIS-ERROR: anchor missing, floor not met, idiom not recognised, crash).
"""
from __future__ import annotations

import hashlib
import json
import os
import sys
import time
from dataclasses import dataclass, field
from typing import Any, Optional

from .repo import AnalysisError

VERIF_ROOT = os.path.dirname(os.path.dirname(os.path.dirname(os.path.abspath(__file__))))
EVIDENCE_DIR = os.path.join(VERIF_ROOT, "evidence")
KNOWN_FINDINGS = os.path.join(VERIF_ROOT, "known_findings.json")


@dataclass
class Obligation:
    rule: str
    construct: str  # stable key: qualified names + roles, never line numbers
    verdict: str  # 'holds' | 'violated' | 'known-finding' | 'advisory'
    detail: str = ""
    where: str = ""  # file:line at the time of the run (diagnostic only)
    facts: dict = field(default_factory=dict)
    nontrivial: bool = True
    src: tuple = ()  # (rule-module file, line) of the check.* call that recorded it
    definite: bool = False

    def as_sample(self) -> dict:
        d = {"rule": self.rule, "construct": self.construct, "verdict": self.verdict}
        if self.detail:
            d["detail"] = self.detail
        if self.where:
            d["where"] = self.where
        if self.facts:
            d["facts"] = self.facts
        return d


def load_known_findings() -> list[dict]:
    if not os.path.exists(KNOWN_FINDINGS):
        return []
    with open(KNOWN_FINDINGS, "r", encoding="utf-8") as fh:
        data = json.load(fh)
    if data.get("version") != 1 or not isinstance(data.get("entries"), list):
        raise AnalysisError("known_findings.json: unexpected format")
    for e in data["entries"]:
        if e.get("status") not in ("known", "fixed"):
            raise AnalysisError(f"known_findings.json: bad status in {e}")
        for k in ("property", "rule", "construct"):
            if k not in e:
                raise AnalysisError(f"known_findings.json: entry lacks '{k}': {e}")
    return data["entries"]


class Check:
    def __init__(self, pid: str, tier: str = "quick", explanation: str = ""):
        self.pid = pid
        self.tier = tier
        self.explanation = explanation
        self.obligations: list[Obligation] = []
        self.notes: list[str] = []
        self.floors: dict[str, dict] = {}
        self.assumptions: list[str] = []
        self.functions_analysed: list[str] = []
        self.extra: dict[str, Any] = {}
        self.errors: list[str] = []
        self.t0 = time.time()
        self.seed = int(os.environ.get("VERIF_SEED", "0") or 0)
        self.known = [e for e in load_known_findings() if e["property"] == pid]

    # ------------------------------------------------------------ recording
    def analysed(self, *quals: str) -> None:
        for q in quals:
            if q not in self.functions_analysed:
                self.functions_analysed.append(q)

    def holds(self, rule: str, construct: str, detail: str = "", where: str = "", nontrivial=True, **facts):
        self.obligations.append(Obligation(rule, construct, "holds", detail, where, facts, nontrivial))

    @staticmethod
    def _caller(depth: int = 2) -> tuple:
        """Recording call stack restricted to rule/domain modules, innermost first: ((file, line), …)."""
        out = []
        try:
            f = sys._getframe(depth)
            while f is not None:
                fn = f.f_code.co_filename.replace(os.sep, "/")
                if "/qv/rules/" in fn or "/qv/domains/" in fn:
                    out.append((f.f_code.co_filename, f.f_lineno))
                f = f.f_back
        except Exception:
            pass
        return tuple(out)

    def violated(self, rule: str, construct: str, detail: str = "", where: str = "", _src: tuple = (), definite: bool = False, **facts):
        """definite=True: the verdict comes from a semantic analysis (kinds, CFG paths, normal forms, provenance) even though the rule code around it
        also matches expression texts — exempt from the textual gate of qv.main.withhold_unrecognised."""
        ob = Obligation(rule, construct, "violated", detail, where, facts, True, _src or self._caller())
        ob.definite = definite
        self.obligations.append(ob)

    def decide(self, ok: bool, rule: str, construct: str, detail: str = "", where: str = "",
               fail_detail: Optional[str] = None, definite: bool = False, **facts) -> bool:
        if ok:
            self.holds(rule, construct, detail, where, **facts)
        else:
            self.violated(rule, construct, fail_detail or detail, where, _src=self._caller(), definite=definite, **facts)
        return ok

    def advisory(self, rule: str, construct: str, detail: str = "", where: str = "", **facts):
        self.obligations.append(Obligation(rule, construct, "advisory", detail, where, facts, False))

    def note(self, text: str) -> None:
        self.notes.append(text)

    def assume(self, text: str) -> None:
        if text not in self.assumptions:
            self.assumptions.append(text)

    def floor(self, name: str, found: int, minimum: int) -> None:
        """Fail closed when a rule matches fewer instances than were confirmed by hand."""
        self.floors[name] = {"found": found, "floor": minimum}
        if found < minimum:
            self.errors.append(
                f"floor '{name}': found {found} instance(s), hand-confirmed minimum is {minimum} "
                f"(the rule would pass vacuously)"
            )

    def error(self, text: str) -> None:
        self.errors.append(text)

    # ------------------------------------------------------------ finishing
    def _replay_path(self, ob: Obligation) -> str:
        h = hashlib.sha256(f"{ob.rule}|{ob.construct}".encode()).hexdigest()[:10]
        d = os.environ.get("QV_REPLAY_DIR") or os.path.join(EVIDENCE_DIR, "replay")
        os.makedirs(d, exist_ok=True)
        path = os.path.join(d, f"{self.pid}-{ob.rule}-{h}.json")
        with open(path, "w", encoding="utf-8") as fh:
            json.dump(
                {"property": self.pid, "rule": ob.rule, "construct": ob.construct,
                 "where": ob.where, "detail": ob.detail, "facts": ob.facts,
                 "repo": os.environ.get("QV_REPO", "/repo"),
                 "replay_cmd": f"./check {self.pid} --replay {path}"},
                fh, indent=1, sort_keys=True, default=str)
        return path

    def finish(self, write_evidence: bool = True) -> int:
        known_keys = {(e["rule"], e["construct"]): e for e in self.known if e["status"] == "known"}
        violations: list[Obligation] = []
        known_hit: list[Obligation] = []
        for ob in self.obligations:
            if ob.verdict != "violated":
                continue
            if (ob.rule, ob.construct) in known_keys:
                ob.verdict = "known-finding"
                known_hit.append(ob)
            else:
                violations.append(ob)
        stale_known = [
            k for k in known_keys
            if not any((o.rule, o.construct) == k for o in known_hit)
        ]
        out = []
        code = 0
        if self.errors:
            code = 2
            for e in self.errors:
                out.append(f"ANALYSIS-ERROR property={self.pid} {e}")
        for ob in known_hit:
            e = known_keys[(ob.rule, ob.construct)]
            out.append(
                f"KNOWN-FINDING: property={self.pid} rule={ob.rule} {ob.construct} — "
                f"{e.get('what_fails', ob.detail)}"
            )
        for k in stale_known:
            # a listed finding that no longer fires is not an error: the defect may have been
            # repaired.  It is reported so that the file can be updated.
            out.append(f"NOTE property={self.pid} listed known finding no longer fires: {k[0]} {k[1]}")
        if violations:
            # a definite violation is reported as such even when another rule could not be evaluated
            code = 1
        for ob in violations:
            rp = self._replay_path(ob)
            out.append(
                f"VIOLATION property={self.pid} replay={rp}\n"
                f"    rule={ob.rule} construct={ob.construct}\n"
                f"    at {ob.where or '?'}: {ob.detail}"
            )
        n_ob = len([o for o in self.obligations if o.verdict != "advisory"])
        n_ok = len([o for o in self.obligations if o.verdict == "holds"])
        out.append(
            f"[{self.pid}] tier={self.tier} obligations={n_ob} held={n_ok} "
            f"known-findings={len(known_hit)} violations={len(violations)} "
            f"analysis-errors={len(self.errors)} functions={len(self.functions_analysed)} "
            f"wall={time.time() - self.t0:.2f}s"
        )
        print("\n".join(out))
        sys.stdout.flush()
        rj = os.environ.get("QV_RESULT_JSON")
        if rj:
            with open(rj, "w", encoding="utf-8") as fh:
                json.dump({"property": self.pid, "exit": code,
                           "violated": [[o.rule, o.construct, o.where, o.detail[:300]] for o in violations],
                           "known": [[o.rule, o.construct] for o in known_hit],
                           "errors": self.errors, "functions_analysed": self.functions_analysed}, fh)
        if write_evidence and not os.environ.get("QV_NO_EVIDENCE"):
            self.write_evidence(violations, known_hit)
        return code

    def write_evidence(self, violations, known_hit) -> None:
        os.makedirs(EVIDENCE_DIR, exist_ok=True)
        real = [o for o in self.obligations if o.verdict != "advisory"]
        distinct = {(o.rule, o.construct) for o in real if o.nontrivial}
        rules = sorted({o.rule for o in self.obligations})
        # samples: every violated / known / advisory obligation plus up to 3 per rule of the rest
        samples = [o.as_sample() for o in self.obligations if o.verdict != "holds"]
        per_rule: dict[str, int] = {}
        for o in self.obligations:
            if o.verdict == "holds" and per_rule.get(o.rule, 0) < 4:
                per_rule[o.rule] = per_rule.get(o.rule, 0) + 1
                samples.append(o.as_sample())
        ev = {
            "property_id": self.pid,
            "tier": self.tier,
            "seed": self.seed,
            "level": "other",
            "wall_s": round(time.time() - self.t0, 3),
            "violations": len(violations),
            "coverage": {
                "explanation": self.explanation or f"static analysis rules {', '.join(rules)}",
                "evaluations": len(real),
                "distinct_nontrivial": len(distinct),
                "rule": "one evaluation per (rule, construct) obligation extracted from the "
                        "current source; non-trivial = the construct carries a real obligation "
                        "(not an inventory/advisory entry); distinct by (rule, construct key)",
                "samples": samples,
                "obligations": len(real),
                "discharged": len([o for o in real if o.verdict == "holds"]),
                "rules": rules,
                "functions_analysed": self.functions_analysed,
                "floors": self.floors,
                "known_findings": [o.as_sample() for o in known_hit],
                "analysis_errors": self.errors,
                "notes": self.notes,
                "exhaustive": True,
                **self.extra,
            },
            "assumptions": self.assumptions
            + ["CPython ast parses the tree as the interpreter would",
               "semantics tables for numpy/torch/zarr/os calls named in the rules are correct"],
        }
        path = os.path.join(EVIDENCE_DIR, f"{self.pid}.json")
        with open(path, "w", encoding="utf-8") as fh:
            json.dump(ev, fh, indent=1, default=str)
            fh.write("\n")


class SubCheck:
    """Run (part of) another property's rule code on behalf of this property: obligations are recorded under
    `rule` (this property's rule id) and only kept when `keep(construct, where)` is true.  Floors, notes and
    analysed functions are forwarded; analysis errors of the borrowed rules are errors of this check too."""

    def __init__(self, check: Check, rule: str, keep=None):
        self._c, self._rule, self._keep = check, rule, keep or (lambda construct, where: True)
        self.pid, self.tier, self.extra = check.pid, check.tier, {}

    def _ok(self, construct, where):
        try:
            return bool(self._keep(construct, where))
        except Exception:
            return True

    def analysed(self, *quals):
        self._c.analysed(*quals)

    def holds(self, rule, construct, detail="", where="", nontrivial=True, **facts):
        if self._ok(construct, where):
            self._c.holds(self._rule, construct, detail, where, nontrivial, **facts)

    def violated(self, rule, construct, detail="", where="", _src=(), definite=False, **facts):
        if self._ok(construct, where):
            self._c.violated(self._rule, construct, detail, where, _src=_src or Check._caller(), definite=definite, **facts)

    def decide(self, ok, rule, construct, detail="", where="", fail_detail=None, definite=False, **facts):
        if not self._ok(construct, where):
            return ok
        if ok:
            self._c.holds(self._rule, construct, detail, where, **facts)
        else:
            self._c.violated(self._rule, construct, fail_detail or detail, where, _src=Check._caller(), definite=definite, **facts)
        return ok

    def advisory(self, *a, **k):
        pass

    def note(self, text):
        pass

    def assume(self, text):
        self._c.assume(text)

    def floor(self, name, found, minimum):
        self._c.floor(f"{self._rule}: {name}", found, minimum)

    def error(self, text):
        self._c.error(text)
