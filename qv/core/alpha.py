"""Alpha-normalisation of local variable names.

Some rule instances recognise an idiom through the spelling of a local (§9.2 of DESIGN.md).  A function whose
body is *alpha-equivalent* to the version the rules were written against — identical abstract syntax once every
local is replaced by the index of its first occurrence — differs from it only in the names of its locals, which
cannot change behaviour.  For such a function the loader renames the locals, in the parsed tree only, back to the
spellings the rules know; the analysis then sees exactly the function it was written for (line numbers are those of
the current file).  A function that is not alpha-equivalent to its recorded shape is left untouched: the rules then
either recognise it by role or the keyed-locals guard answers "idiom not recognised" (exit 2).

qv/rules/pinned_shapes.json (tools/gen_keyed_locals.py) holds, per function the rules key on, the digest of the
index-normalised syntax and the ordered list of local names.  The digest is used for nothing but this equivalence
test — never for a verdict.
"""
from __future__ import annotations

import ast
import builtins
import hashlib
import json
import keyword
import os

BUILTINS = set(dir(builtins)) | set(keyword.kwlist)
TABLE = os.path.join(os.path.dirname(os.path.dirname(os.path.abspath(__file__))), "rules", "pinned_shapes.json")


def locals_of(fn: ast.AST) -> set[str]:
    """Names bound inside fn (any nesting level of comprehensions / loops / nested defs), excluding fn's own parameters,
    nested functions' parameters, global/nonlocal/imported names, builtins and __dunder__ names."""
    a = fn.args
    params = {x.arg for x in a.posonlyargs + a.args + a.kwonlyargs}
    if a.vararg:
        params.add(a.vararg.arg)
    if a.kwarg:
        params.add(a.kwarg.arg)
    declared, bound, nested_params = set(), set(), set()

    def walk(node):
        for ch in ast.iter_child_nodes(node):
            if isinstance(ch, (ast.Global, ast.Nonlocal)):
                declared.update(ch.names)
            if isinstance(ch, (ast.FunctionDef, ast.AsyncFunctionDef, ast.Lambda)):
                aa = ch.args
                for x in aa.posonlyargs + aa.args + aa.kwonlyargs:
                    nested_params.add(x.arg)
                if aa.vararg:
                    nested_params.add(aa.vararg.arg)
                if aa.kwarg:
                    nested_params.add(aa.kwarg.arg)
                walk(ch)
                continue
            if isinstance(ch, ast.ClassDef):
                continue
            if isinstance(ch, ast.Name) and isinstance(ch.ctx, ast.Store):
                bound.add(ch.id)
            if isinstance(ch, ast.ExceptHandler) and ch.name:
                bound.add(ch.name)
            if isinstance(ch, (ast.Import, ast.ImportFrom)):
                for al in ch.names:
                    declared.add((al.asname or al.name).split(".")[0])
            walk(ch)
    walk(fn)
    return {n for n in bound if n not in params and n not in declared and n not in nested_params
            and n not in BUILTINS and not (n.startswith("__") and n.endswith("__"))}


def shape_of(fn: ast.AST) -> tuple[str, list[str]]:
    """(digest of the syntax with locals replaced by first-occurrence indices, locals in order of first occurrence)."""
    loc = locals_of(fn)
    order: list[str] = []
    index: dict[str, int] = {}
    parts: list[str] = []

    def name_token(nm: str) -> str:
        if nm in loc:
            if nm not in index:
                index[nm] = len(order)
                order.append(nm)
            return f"§{index[nm]}"
        return nm

    def ser(node) -> None:
        if isinstance(node, ast.AST):
            if isinstance(node, ast.ClassDef) and node is not fn:
                parts.append("<class>")
                parts.append(ast.dump(node))
                return
            parts.append(type(node).__name__)
            parts.append("(")
            for field, value in ast.iter_fields(node):
                if field in ("ctx", "type_comment", "lineno", "col_offset", "end_lineno", "end_col_offset", "kind"):
                    continue
                if value is None or value == []:
                    continue  # absent optional parts (and fields newer interpreters add, e.g. type_params) do not count
                if isinstance(node, ast.Name) and field == "id":
                    parts.append(name_token(value))
                elif isinstance(node, ast.ExceptHandler) and field == "name" and value:
                    parts.append(name_token(value))
                elif isinstance(node, (ast.FunctionDef, ast.AsyncFunctionDef)) and node is fn and field in ("name", "decorator_list", "returns"):
                    continue
                elif isinstance(node, ast.Expr) and isinstance(node.value, ast.Constant) and isinstance(node.value.value, str):
                    parts.append("<doc>")  # docstrings / string statements do not matter
                    break
                else:
                    parts.append(field + "=")
                    ser(value)
                parts.append(",")
            parts.append(")")
        elif isinstance(node, list):
            parts.append("[")
            for x in node:
                ser(x)
                parts.append(",")
            parts.append("]")
        else:
            parts.append(repr(node))
    ser(fn)
    return hashlib.sha256("".join(parts).encode()).hexdigest()[:20], order


class _Renamer(ast.NodeTransformer):
    def __init__(self, mapping):
        self.mapping = mapping

    def visit_Name(self, node):
        if node.id in self.mapping:
            node.id = self.mapping[node.id]
        return node

    def visit_ExceptHandler(self, node):
        if node.name in self.mapping:
            node.name = self.mapping[node.name]
        self.generic_visit(node)
        return node

    def visit_ClassDef(self, node):
        return node


_TABLE_CACHE = None


def pinned_table() -> dict:
    global _TABLE_CACHE
    if _TABLE_CACHE is None:
        try:
            with open(TABLE, "r", encoding="utf-8") as fh:
                _TABLE_CACHE = json.load(fh)
        except Exception:
            _TABLE_CACHE = {}
    return _TABLE_CACHE


def top_functions(tree: ast.AST, prefix=()):
    for ch in ast.iter_child_nodes(tree):
        if isinstance(ch, (ast.FunctionDef, ast.AsyncFunctionDef)):
            yield ".".join(prefix + (ch.name,)), ch
        elif isinstance(ch, ast.ClassDef):
            yield from top_functions(ch, prefix + (ch.name,))
        elif isinstance(ch, (ast.If, ast.Try, ast.With)):
            yield from top_functions(ch, prefix)


def normalise_module(modname: str, tree: ast.AST) -> list[str]:
    """Rename, in place, the locals of every recorded function of this module that is alpha-equivalent to its recorded shape
    but spelled differently.  Returns the qualified names that were normalised."""
    if os.environ.get("QV_NO_ALPHA"):
        return []
    table = pinned_table()
    done = []
    for q, fn in top_functions(tree):
        e = table.get(f"{modname}:{q}")
        if not e:
            continue
        digest, order = shape_of(fn)
        if digest != e["digest"] or order == e["locals"] or len(order) != len(e["locals"]) or not order:
            continue
        mapping = {cur: pin for cur, pin in zip(order, e["locals"]) if cur != pin}
        # two-phase rename so that swaps (a→b, b→a) are handled
        tmp = {cur: f"\x00{i}" for i, cur in enumerate(mapping)}
        _Renamer(tmp).visit(fn)
        _Renamer({tmp[cur]: pin for cur, pin in mapping.items()}).visit(fn)
        done.append(q)
    return done


def statement_digests(fn: ast.AST) -> list[str]:
    """One digest per simple statement and per compound-statement header of fn (nested defs included), with every local of fn
    anonymised: the multiset is insensitive to renames, formatting and statement order, and changes by one entry per edited statement."""
    loc = locals_of(fn) if isinstance(fn, (ast.FunctionDef, ast.AsyncFunctionDef)) else set()
    out: list[str] = []

    def ser(node, parts):
        if isinstance(node, ast.AST):
            parts.append(type(node).__name__ + "(")
            for field, value in ast.iter_fields(node):
                if field in ("ctx", "type_comment", "kind") or value is None or value == []:
                    continue
                if isinstance(node, ast.Name) and field == "id":
                    parts.append("§" if value in loc else value)
                elif isinstance(node, ast.ExceptHandler) and field == "name":
                    parts.append("§")
                else:
                    parts.append(field + "=")
                    ser(value, parts)
                parts.append(",")
            parts.append(")")
        elif isinstance(node, list):
            for x in node:
                ser(x, parts)
                parts.append(";")
        else:
            parts.append(repr(node))

    def header(st):
        hd = []
        for field, value in ast.iter_fields(st):
            if field in ("body", "orelse", "finalbody", "handlers", "type_comment"):
                continue
            hd.append(field + "=")
            ser(value, hd)
        return type(st).__name__ + ":" + "".join(hd)

    def rec(body):
        for st in body:
            if isinstance(st, ast.Expr) and isinstance(st.value, ast.Constant) and isinstance(st.value.value, str):
                continue  # docstrings
            if isinstance(st, (ast.FunctionDef, ast.AsyncFunctionDef)):
                out.append(hashlib.sha256(("def:" + st.name).encode()).hexdigest()[:12])
                rec(st.body)
            elif isinstance(st, (ast.If, ast.For, ast.AsyncFor, ast.While, ast.With, ast.AsyncWith, ast.Try, ast.ClassDef)):
                if not isinstance(st, (ast.Try, ast.ClassDef)):
                    out.append(hashlib.sha256(header(st).encode()).hexdigest()[:12])
                for fld in ("body", "orelse", "finalbody"):
                    rec(getattr(st, fld, []) or [])
                for h in getattr(st, "handlers", []) or []:
                    out.append(hashlib.sha256(("except:" + (ast.dump(h.type) if h.type is not None else "")).encode()).hexdigest()[:12])
                    rec(h.body)
            else:
                parts: list[str] = []
                ser(st, parts)
                out.append(hashlib.sha256("".join(parts).encode()).hexdigest()[:12])
    rec(fn.body)
    return out


def edit_distance(pinned: list[str], current: list[str]) -> int:
    """number of statements that differ between two statement multisets (a modified statement counts once)"""
    from collections import Counter
    a, b = Counter(pinned), Counter(current)
    removed = sum((a - b).values())
    added = sum((b - a).values())
    return max(removed, added)


# ---------------------------------------------------------------------------------------------------------------------------------
# Canonical equivalence: a function whose CANONICAL form equals the recorded canonical form differs from the recorded function only by
# spellings that cannot change behaviour; the loader then analyses the recorded spelling (parsed from the recorded source) in its place.
# The canonical form applies, besides the anonymisation of locals:
#   not (a is b) → a is not b, not (a in b) → a not in b, not (a == b) → a != b (and the reverses);  constant-on-the-left comparisons flipped
#   (1 == x → x == 1, 0 < n → n > 0);  operands of `*` ordered (exact for numbers, arrays and sequence repetition);  operands of `+` ordered only
#   when one operand is a numeric constant or a product/quotient/power (numeric context — never for possible sequence/str concatenation);
#   operands of `and`/`or` are NOT reordered (short-circuit);  np.newaxis → None;  range(0, n) → range(n);
#   function form → method form for a fixed table of reductions / elementwise functions (np.sum(x, …) → x.sum(…), torch.abs(x) → x.abs(), …)
#   and x ** 2 / np.square(x) → x.square();  `if not c: A else: B` / `if a != b: A else: B` → the positive test with swapped arms (also for conditional
#   expressions);  a local bound once and used once, in the very next statement, is substituted into that statement (named intermediate ≡ inline).
_TO_METHOD = {"sum", "mean", "abs", "sqrt", "exp", "conj", "angle", "square", "max", "min", "prod", "clip", "clamp", "round", "floor", "ceil", "flatten", "ravel", "reshape",
              "argmax", "argmin", "argsort", "cumsum", "all", "any", "std", "var", "transpose", "squeeze", "unsqueeze", "cos", "sin", "tan", "log", "log1p", "expm1", "roll", "flip",
              "real", "imag", "clone", "detach", "sign", "sgn", "floor_divide", "remainder", "nonzero", "cumprod", "amax", "amin", "isfinite", "isnan"}
_LIB_PREFIXES = ("np.", "numpy.", "torch.", "xp.", "cp.")


def _dotted(n):
    parts = []
    while isinstance(n, ast.Attribute):
        parts.append(n.attr)
        n = n.value
    if isinstance(n, ast.Name):
        parts.append(n.id)
        return ".".join(reversed(parts))
    return None


def clone(node):
    """Structural copy of a syntax tree: fields and positions only (the analyses hang parent links and caches on nodes; copy.deepcopy
    would follow them through the whole module)."""
    if isinstance(node, list):
        return [clone(x) for x in node]
    if not isinstance(node, ast.AST):
        return node
    new = type(node)()
    for f in node._fields:
        if hasattr(node, f):
            setattr(new, f, clone(getattr(node, f)))
    for a in ("lineno", "col_offset", "end_lineno", "end_col_offset"):
        if hasattr(node, a):
            setattr(new, a, getattr(node, a))
    return new


_ARRAY_ATTRS = {"shape", "dtype", "ndim", "device", "flatten", "ravel", "reshape", "astype", "view", "permute", "transpose", "squeeze",
                "unsqueeze", "sum", "mean", "abs", "square", "sqrt", "exp", "cos", "sin", "conj", "real", "imag", "float", "double", "long",
                "to", "clone", "detach", "cpu", "numpy", "min", "max", "argmax", "argmin", "argsort", "cumsum", "prod", "norm", "angle",
                "fill_", "zero_", "numel", "nelement", "dim", "expand", "repeat", "roll", "flip", "clamp", "clip", "round", "floor", "ceil",
                "item", "tolist", "nonzero", "any", "all", "T", "mT", "is_complex", "type"}


def _array_names(fn) -> set:
    """Names with syntactic evidence of being numbers / arrays / tensors: bound from a numpy/torch/math call or an array method, used
    with an array attribute (`x.shape`, `x.flatten()`), or indexed with a tuple (`x[:, None]` — lists and strings cannot be)."""
    out = set()
    for n in ast.walk(fn):
        if isinstance(n, ast.Assign) and isinstance(n.value, ast.Call):
            d = _dotted(n.value.func)
            if (d and d.startswith(_LIB_PREFIXES + ("math.",)) and d.split(".")[-1] not in ("where", "nonzero", "meshgrid", "unravel_index", "broadcast_arrays", "split", "load", "save")) \
                    or (isinstance(n.value.func, ast.Attribute) and n.value.func.attr in _ARRAY_ATTRS - {"tolist", "type", "item"}):
                for t in n.targets:
                    if isinstance(t, ast.Name):
                        out.add(t.id)
        elif isinstance(n, ast.Attribute) and isinstance(n.value, ast.Name) and n.attr in _ARRAY_ATTRS - {"type", "T", "min", "max", "sum", "item", "any", "all", "round", "to", "real", "imag"}:
            out.add(n.value.id)
        elif isinstance(n, ast.Subscript) and isinstance(n.value, ast.Name) and isinstance(n.slice, ast.Tuple):
            out.add(n.value.id)
    return out


class _Canon(ast.NodeTransformer):
    def visit_BoolOp(self, n):
        self.generic_visit(n)
        # isinstance(x, A) or isinstance(x, B)  →  isinstance(x, (A, B))   (x a plain name / attribute path: evaluated without effects)
        if isinstance(n.op, ast.Or):
            vals, i = list(n.values), 0
            while i + 1 < len(vals):
                a, b = vals[i], vals[i + 1]
                if all(isinstance(c, ast.Call) and _dotted(c.func) == "isinstance" and len(c.args) == 2 and not c.keywords
                       and _dotted(c.args[0]) for c in (a, b)) and _dotted(a.args[0]) == _dotted(b.args[0]):
                    tys = []
                    for c in (a, b):
                        tys.extend(c.args[1].elts if isinstance(c.args[1], ast.Tuple) else [c.args[1]])
                    vals[i:i + 2] = [ast.Call(func=a.func, args=[a.args[0], ast.Tuple(elts=tys, ctx=ast.Load())], keywords=[])]
                    continue
                i += 1
            if len(vals) == 1:
                return vals[0]
            n.values = vals
        return n

    def visit_UnaryOp(self, n):
        self.generic_visit(n)
        # De Morgan: not (A or B) → not A and not B (same short-circuit order, same bool result)
        if isinstance(n.op, ast.Not) and isinstance(n.operand, ast.BoolOp):
            inner = [self.visit_UnaryOp(ast.UnaryOp(op=ast.Not(), operand=v)) for v in n.operand.values]
            return self.visit_BoolOp(ast.BoolOp(op=ast.And() if isinstance(n.operand.op, ast.Or) else ast.Or(), values=inner))
        if isinstance(n.op, ast.Not) and isinstance(n.operand, ast.Compare) and len(n.operand.ops) == 1:
            flip = {ast.Is: ast.IsNot, ast.IsNot: ast.Is, ast.In: ast.NotIn, ast.NotIn: ast.In, ast.Eq: ast.NotEq, ast.NotEq: ast.Eq}
            t = type(n.operand.ops[0])
            if t in flip:
                return ast.Compare(left=n.operand.left, ops=[flip[t]()], comparators=n.operand.comparators)
        return n

    def visit_Compare(self, n):
        self.generic_visit(n)
        if len(n.ops) == 1 and isinstance(n.left, ast.Constant) and not isinstance(n.comparators[0], ast.Constant):
            mirror = {ast.Eq: ast.Eq, ast.NotEq: ast.NotEq, ast.Lt: ast.Gt, ast.Gt: ast.Lt, ast.LtE: ast.GtE, ast.GtE: ast.LtE}
            t = type(n.ops[0])
            if t in mirror:
                return ast.Compare(left=n.comparators[0], ops=[mirror[t]()], comparators=[n.left])
        return n

    @staticmethod
    def _numericish(e):
        return (isinstance(e, ast.Constant) and isinstance(e.value, (int, float, complex)) and not isinstance(e.value, bool)) or \
            (isinstance(e, ast.BinOp) and isinstance(e.op, (ast.Mult, ast.Div, ast.Pow, ast.FloorDiv, ast.Mod))) or \
            (isinstance(e, ast.UnaryOp) and isinstance(e.op, ast.USub))

    numeric: set = frozenset()

    def _array_evident(self, e):
        """syntactic evidence that e is a number / array / tensor (so that `+` on it is commutative): see _array_names"""
        if self._numericish(e):
            return True
        if isinstance(e, ast.BinOp) and isinstance(e.op, (ast.Sub, ast.MatMult)):
            return True
        if isinstance(e, ast.BinOp) and isinstance(e.op, ast.Add):
            return self._array_evident(e.left) and self._array_evident(e.right)
        if isinstance(e, ast.Call):
            d = _dotted(e.func)
            if d and (d.startswith(_LIB_PREFIXES + ("math.",)) or d in ("abs", "float", "int", "len")):
                return True
            return isinstance(e.func, ast.Attribute) and e.func.attr in _ARRAY_ATTRS
        if isinstance(e, ast.Attribute) and e.attr in ("real", "imag", "T"):
            return True
        r = e
        while isinstance(r, ast.Subscript):
            r = r.value
        return isinstance(r, ast.Name) and r.id in self.numeric

    def visit_BinOp(self, n):
        self.generic_visit(n)
        if isinstance(n.op, ast.Pow) and isinstance(n.right, ast.Constant) and n.right.value == 2 and isinstance(n.right.value, int):
            return ast.Call(func=ast.Attribute(value=n.left, attr="square", ctx=ast.Load()), args=[], keywords=[])
        plus = isinstance(n.op, ast.Add) and (((self._numericish(n.left) or self._numericish(n.right))
                                               and not any(isinstance(x, (ast.List, ast.Tuple, ast.JoinedStr)) or (isinstance(x, ast.Constant) and isinstance(x.value, (str, bytes)))
                                                           for x in (n.left, n.right)))
                                              or (self._array_evident(n.left) and self._array_evident(n.right)))
        # `&` and `^` commute for every operand kind that supports them (ints, bools, arrays, tensors, sets, key views); `|` does not (dict merge)
        if isinstance(n.op, (ast.Mult, ast.BitAnd, ast.BitXor)) or plus:
            a, b = ast.dump(n.left), ast.dump(n.right)
            if b < a:
                n.left, n.right = n.right, n.left
        return n

    def visit_Attribute(self, n):
        self.generic_visit(n)
        if n.attr == "newaxis" and isinstance(n.value, ast.Name) and n.value.id in ("np", "numpy", "torch", "xp"):
            return ast.Constant(value=None)
        return n

    def visit_Subscript(self, n):
        self.generic_visit(n)
        # x[a, :] ≡ x[a] and x[a, ...] ≡ x[a] on arrays / tensors (a tuple index is array indexing by construction)
        if isinstance(n.slice, ast.Tuple) and len(n.slice.elts) >= 2:
            elts = list(n.slice.elts)

            def full(e):
                return (isinstance(e, ast.Slice) and e.lower is None and e.upper is None and e.step is None) or \
                    (isinstance(e, ast.Constant) and e.value is Ellipsis)
            while len(elts) > 1 and full(elts[-1]):
                elts.pop()
            if len(elts) != len(n.slice.elts):
                n.slice = elts[0] if len(elts) == 1 and not isinstance(elts[0], ast.Starred) else ast.Tuple(elts=elts, ctx=ast.Load())
        return n

    def visit_Call(self, n):
        self.generic_visit(n)
        d = _dotted(n.func)
        if d == "range" and len(n.args) == 2 and isinstance(n.args[0], ast.Constant) and n.args[0].value == 0 and not n.keywords:
            n.args = n.args[1:]
        if d and d.startswith(_LIB_PREFIXES) and d.count(".") == 1 and d.split(".")[1] in _TO_METHOD and n.args \
                and not isinstance(n.args[0], (ast.List, ast.Tuple, ast.ListComp, ast.GeneratorExp, ast.Constant)):
            return ast.Call(func=ast.Attribute(value=n.args[0], attr=d.split(".")[1], ctx=ast.Load()), args=n.args[1:], keywords=n.keywords)
        return n

    _NEG = {ast.NotEq: ast.Eq, ast.IsNot: ast.Is, ast.NotIn: ast.In}

    def _positive_test(self, t):
        """(test', flipped?) with a negated test turned into its positive form"""
        if isinstance(t, ast.UnaryOp) and isinstance(t.op, ast.Not):
            return t.operand, True
        if isinstance(t, ast.Compare) and len(t.ops) == 1 and type(t.ops[0]) in self._NEG:
            return ast.Compare(left=t.left, ops=[self._NEG[type(t.ops[0])]()], comparators=t.comparators), True
        return t, False

    def visit_If(self, n):
        self.generic_visit(n)
        if n.orelse and not (len(n.orelse) == 1 and isinstance(n.orelse[0], ast.If)) and not (len(n.body) == 1 and isinstance(n.body[0], ast.If) and n.body[0].orelse):
            t, flipped = self._positive_test(n.test)
            if flipped:
                n.test, n.body, n.orelse = t, n.orelse, n.body
        return n

    def visit_IfExp(self, n):
        self.generic_visit(n)
        t, flipped = self._positive_test(n.test)
        if flipped:
            n.test, n.body, n.orelse = t, n.orelse, n.body
        return n

    def _inline_single_use(self, body: list) -> list:
        """`t = e` immediately followed by the only use of t (t bound exactly once in the function): substitute and drop the assignment."""
        out = list(body)
        i = 0
        while i + 1 < len(out):
            s1, s2 = out[i], out[i + 1]
            if isinstance(s1, ast.Assign) and len(s1.targets) == 1 and isinstance(s1.targets[0], ast.Name) and s1.targets[0].id in self.single_use \
                    and not isinstance(s2, (ast.FunctionDef, ast.AsyncFunctionDef, ast.ClassDef, ast.For, ast.While, ast.Try, ast.With)):
                t = s1.targets[0].id
                header = s2.test if isinstance(s2, ast.If) else s2
                uses = [x for x in ast.walk(header) if isinstance(x, ast.Name) and x.id == t and isinstance(x.ctx, ast.Load)]
                if len(uses) == 1:
                    val = s1.value

                    class R(ast.NodeTransformer):
                        def visit_Name(self, x):
                            return val if (x.id == t and isinstance(x.ctx, ast.Load)) else x
                    if isinstance(s2, ast.If):
                        s2.test = R().visit(s2.test)
                    else:
                        out[i + 1] = R().visit(s2)
                    del out[i]
                    i = max(i - 1, 0)
                    continue
            i += 1
        return out

    _PURE = (ast.Name, ast.Attribute, ast.Subscript, ast.Constant, ast.BinOp, ast.UnaryOp, ast.Tuple, ast.Slice, ast.Load,
             ast.operator, ast.unaryop)

    def _inline_pure_shared(self, body: list) -> list:
        """`t = e` with e call-free (names, attributes, subscripts, constants, arithmetic), t bound exactly once, every read of t in the
        following statements of the same block, nothing e reads rebound / stored into / called upon in between: substitute every read."""
        import copy
        out = list(body)
        i = 0
        while i < len(out):
            s1 = out[i]
            if isinstance(s1, ast.Assign) and len(s1.targets) == 1 and isinstance(s1.targets[0], ast.Name) and s1.targets[0].id in self.shared \
                    and all(isinstance(x, self._PURE) for x in ast.walk(s1.value)):
                t = s1.targets[0].id
                rest = out[i + 1:]
                roots = {x.id for x in ast.walk(s1.value) if isinstance(x, ast.Name)}
                n_loads = 0
                blocked = False
                for st in rest:
                    for x in ast.walk(st):
                        if isinstance(x, ast.Name) and x.id == t and isinstance(x.ctx, ast.Load):
                            n_loads += 1
                        elif isinstance(x, ast.Name) and x.id in roots and isinstance(x.ctx, (ast.Store, ast.Del)):
                            blocked = True
                        elif isinstance(x, (ast.Attribute, ast.Subscript)) and isinstance(x.ctx, (ast.Store, ast.Del)):
                            r = x
                            while isinstance(r, (ast.Attribute, ast.Subscript)):
                                r = r.value
                            if isinstance(r, ast.Name) and r.id in roots:
                                blocked = True
                        elif isinstance(x, ast.Call):
                            r = x.func
                            while isinstance(r, (ast.Attribute, ast.Subscript)):
                                r = r.value
                            if (isinstance(r, ast.Name) and r.id in roots and isinstance(x.func, ast.Attribute)) or \
                                    any(isinstance(a, ast.Name) and a.id in roots for a in x.args):
                                blocked = True
                        elif isinstance(x, (ast.FunctionDef, ast.AsyncFunctionDef, ast.Lambda, ast.ClassDef, ast.AugAssign)):
                            blocked = blocked or any(isinstance(y, ast.Name) and y.id == t for y in ast.walk(x))
                if not blocked and n_loads == self.loads[t] and n_loads >= 1:
                    val = s1.value

                    class R(ast.NodeTransformer):
                        def visit_Name(self, x):
                            return clone(val) if (x.id == t and isinstance(x.ctx, ast.Load)) else x
                    out[i + 1:] = [R().visit(st) for st in rest]
                    del out[i]
                    continue
            i += 1
        return out

    # ------------------------------------------------------------------ statement-level synonyms
    @staticmethod
    def _terminates(body):
        return bool(body) and isinstance(body[-1], (ast.Return, ast.Raise, ast.Continue, ast.Break))

    def _neg(self, t):
        """canonical negation of a test"""
        flip = {ast.Is: ast.IsNot, ast.IsNot: ast.Is, ast.In: ast.NotIn, ast.NotIn: ast.In, ast.Eq: ast.NotEq, ast.NotEq: ast.Eq}
        if isinstance(t, ast.UnaryOp) and isinstance(t.op, ast.Not):
            return t.operand
        if isinstance(t, ast.Compare) and len(t.ops) == 1 and type(t.ops[0]) in flip:
            return ast.Compare(left=t.left, ops=[flip[type(t.ops[0])]()], comparators=t.comparators)
        return ast.UnaryOp(op=ast.Not(), operand=t)

    _MUTATORS = {"append", "extend", "insert", "pop", "remove", "clear", "sort", "reverse", "add", "update", "discard", "popitem", "setdefault", "resize", "fill", "put"}

    def _mutates(self, stmts, seq) -> bool:
        """does the loop body change the sequence it iterates (element iteration and index iteration then differ)?"""
        sd = ast.dump(seq)
        for z in stmts:
            for y in ast.walk(z):
                if isinstance(y, ast.Call) and isinstance(y.func, ast.Attribute) and ast.dump(y.func.value) == sd and (y.func.attr in self._MUTATORS or y.func.attr.endswith("_")):
                    return True
                if isinstance(y, (ast.Subscript, ast.Attribute)) and isinstance(y.ctx, (ast.Store, ast.Del)) and ast.dump(y.value) == sd:
                    return True
                if isinstance(y, ast.AugAssign) and ast.dump(y.target) == sd:
                    return True
        return False

    def _block(self, body: list, fn_loads_after) -> list:
        """One block, already canonical inside.  Each rewrite is an equivalence of Python programs under the stated condition."""
        out = []
        for st in body:
            # (a) if c: t = a  else: t = b   ≡   t = a if c else b        (both arms a single assignment to the same plain name)
            if isinstance(st, ast.If) and len(st.body) == 1 and len(st.orelse) == 1 and all(
                    isinstance(x, ast.Assign) and len(x.targets) == 1 and isinstance(x.targets[0], ast.Name) for x in (st.body[0], st.orelse[0])) \
                    and st.body[0].targets[0].id == st.orelse[0].targets[0].id:
                st = ast.Assign(targets=[ast.Name(id=st.body[0].targets[0].id, ctx=ast.Store())],
                                value=ast.IfExp(test=st.test, body=st.body[0].value, orelse=st.orelse[0].value), lineno=st.lineno)
            # (a') if c: return a  else: return b   ≡   return a if c else b ; also `if c: return a` followed by `return b` (handled after (f))
            # (g1) if a: (if b: X)  ≡  if a and b: X        (no else on either)
            while isinstance(st, ast.If) and not st.orelse and len(st.body) == 1 and isinstance(st.body[0], ast.If) and not st.body[0].orelse:
                inner = st.body[0]
                vals = (st.test.values if isinstance(st.test, ast.BoolOp) and isinstance(st.test.op, ast.And) else [st.test]) + \
                       (inner.test.values if isinstance(inner.test, ast.BoolOp) and isinstance(inner.test.op, ast.And) else [inner.test])
                st = ast.If(test=ast.BoolOp(op=ast.And(), values=list(vals)), body=inner.body, orelse=[], lineno=st.lineno)
            # (g2) if a: X  elif b: X   ≡   if a or b: X           (identical arms; same short-circuit order)
            while isinstance(st, ast.If) and len(st.orelse) == 1 and isinstance(st.orelse[0], ast.If) and \
                    [ast.dump(x) for x in st.body] == [ast.dump(x) for x in st.orelse[0].body]:
                nxt = st.orelse[0]
                vals = (st.test.values if isinstance(st.test, ast.BoolOp) and isinstance(st.test.op, ast.Or) else [st.test]) + \
                       (nxt.test.values if isinstance(nxt.test, ast.BoolOp) and isinstance(nxt.test.op, ast.Or) else [nxt.test])
                st = ast.If(test=ast.BoolOp(op=ast.Or(), values=list(vals)), body=st.body, orelse=nxt.orelse, lineno=st.lineno)
            # (f) an arm that always leaves (return / raise / continue / break) makes `else` redundant: the other arm follows the statement
            if isinstance(st, ast.If) and st.orelse:
                if self._terminates(st.body):
                    out.append(ast.If(test=st.test, body=st.body, orelse=[], lineno=st.lineno))
                    out.extend(self._block(st.orelse, fn_loads_after))
                    continue
                if self._terminates(st.orelse):
                    out.append(ast.If(test=self._neg(st.test), body=st.orelse, orelse=[], lineno=st.lineno))
                    out.extend(self._block(st.body, fn_loads_after))
                    continue
            # (b) a, b = x, y  ≡  a = x; b = y     when no right-hand side after the first reads an earlier target (plain names only)
            #     targets: plain names, or PRIVATE attributes of a plain name (`self._fields`: a plain slot by the repository's convention, no property setter)
            def _tgt_ok(t):
                return isinstance(t, ast.Name) or (isinstance(t, ast.Attribute) and isinstance(t.value, ast.Name) and t.attr.startswith("_") and not t.attr.startswith("__"))
            if isinstance(st, ast.Assign) and len(st.targets) == 1 and isinstance(st.targets[0], ast.Tuple) and isinstance(st.value, ast.Tuple) \
                    and len(st.targets[0].elts) == len(st.value.elts) and all(_tgt_ok(t) for t in st.targets[0].elts):
                names = [_dotted(t) for t in st.targets[0].elts]

                def _reads(v, nm):
                    return any((_dotted(x) == nm) for x in ast.walk(v) if isinstance(x, (ast.Name, ast.Attribute))) or \
                        ("." in nm and any(isinstance(x, ast.Call) for x in ast.walk(v)) and any(isinstance(x, ast.Name) and x.id == nm.split(".")[0] for x in ast.walk(v))
                         and any(isinstance(x, ast.Call) and isinstance(x.func, ast.Attribute) and _dotted(x.func.value) == nm.split(".")[0] for x in ast.walk(v)))
                indep = all(not any(_reads(v, nm) for nm in names[:k]) for k, v in enumerate(st.value.elts))
                if indep and len(set(names)) == len(names):
                    for t, v in zip(st.targets[0].elts, st.value.elts):
                        t2 = clone(t)
                        out.append(ast.Assign(targets=[t2], value=v, lineno=st.lineno))
                    continue
            # (c) for j in range(len(s)): x = s[j]; …   ≡   for x in s: …  /  for j, x in enumerate(s): …      (s a name that the body does not rebind)
            if isinstance(st, ast.For) and not st.orelse and isinstance(st.target, ast.Name) and isinstance(st.iter, ast.Call) and _dotted(st.iter.func) == "range" \
                    and len(st.iter.args) == 1 and isinstance(st.iter.args[0], ast.Call) and _dotted(st.iter.args[0].func) == "len" and len(st.iter.args[0].args) == 1 \
                    and _dotted(st.iter.args[0].args[0]) and st.body and isinstance(st.body[0], ast.Assign) and len(st.body[0].targets) == 1 \
                    and isinstance(st.body[0].targets[0], ast.Name) and isinstance(st.body[0].value, ast.Subscript) \
                    and ast.dump(st.body[0].value.value) == ast.dump(st.iter.args[0].args[0]) and isinstance(st.body[0].value.slice, ast.Name) \
                    and st.body[0].value.slice.id == st.target.id:
                j, x, seq = st.target.id, st.body[0].targets[0].id, st.iter.args[0].args[0]
                rest = st.body[1:] or [ast.Pass()]
                root = _dotted(seq).split(".")[0]
                rebinds = any(isinstance(y, ast.Name) and y.id in (root, x, j) and isinstance(y.ctx, ast.Store) for z in rest for y in ast.walk(z))
                if not rebinds and not self._mutates(rest, seq):
                    j_used = any(isinstance(y, ast.Name) and y.id == j for z in rest for y in ast.walk(z)) or j in fn_loads_after(st)
                    if j_used:
                        tgt = ast.Tuple(elts=[ast.Name(id=j, ctx=ast.Store()), ast.Name(id=x, ctx=ast.Store())], ctx=ast.Store())
                        it = ast.Call(func=ast.Name(id="enumerate", ctx=ast.Load()), args=[seq], keywords=[])
                    else:
                        tgt, it = ast.Name(id=x, ctx=ast.Store()), seq
                    st = ast.For(target=tgt, iter=it, body=rest, orelse=[], lineno=st.lineno)
            # (c') for j in range(len(s)): … s[j] …   ≡   for j, el in enumerate(s): … el …     (s not rebound, no store into s[j], in the body)
            if isinstance(st, ast.For) and not st.orelse and isinstance(st.target, ast.Name) and isinstance(st.iter, ast.Call) and _dotted(st.iter.func) == "range" \
                    and len(st.iter.args) == 1 and isinstance(st.iter.args[0], ast.Call) and _dotted(st.iter.args[0].func) == "len" and len(st.iter.args[0].args) == 1 \
                    and _dotted(st.iter.args[0].args[0]):
                j, seq = st.target.id, st.iter.args[0].args[0]
                sd = ast.dump(seq)
                root = _dotted(seq).split(".")[0]
                subs = [y for z in st.body for y in ast.walk(z) if isinstance(y, ast.Subscript) and ast.dump(y.value) == sd and isinstance(y.slice, ast.Name) and y.slice.id == j]
                rebinds = any(isinstance(y, ast.Name) and y.id in (root, j) and isinstance(y.ctx, ast.Store) for z in st.body for y in ast.walk(z))
                if subs and all(isinstance(y.ctx, ast.Load) for y in subs) and not rebinds and not self._mutates(st.body, seq):
                    el = f"{j}__el"

                    class _R(ast.NodeTransformer):
                        def visit_Subscript(self, y):
                            if ast.dump(y.value) == sd and isinstance(y.slice, ast.Name) and y.slice.id == j:
                                return ast.Name(id=el, ctx=ast.Load())
                            self.generic_visit(y)
                            return y
                    body2 = [_R().visit(z) for z in st.body]
                    j_used = any(isinstance(y, ast.Name) and y.id == j for z in body2 for y in ast.walk(z)) or j in fn_loads_after(st)
                    if j_used:
                        tgt = ast.Tuple(elts=[ast.Name(id=j, ctx=ast.Store()), ast.Name(id=el, ctx=ast.Store())], ctx=ast.Store())
                        it = ast.Call(func=ast.Name(id="enumerate", ctx=ast.Load()), args=[seq], keywords=[])
                    else:
                        tgt, it = ast.Name(id=el, ctx=ast.Store()), seq
                    st = ast.For(target=tgt, iter=it, body=body2, orelse=[], lineno=st.lineno)
            # (c'') for j, x in enumerate(s) with j never read (in the body or after the loop)   ≡   for x in s
            if isinstance(st, ast.For) and isinstance(st.iter, ast.Call) and _dotted(st.iter.func) == "enumerate" and len(st.iter.args) == 1 and not st.iter.keywords \
                    and isinstance(st.target, ast.Tuple) and len(st.target.elts) == 2 and isinstance(st.target.elts[0], ast.Name):
                j = st.target.elts[0].id
                if not any(isinstance(y, ast.Name) and y.id == j for z in st.body + st.orelse for y in ast.walk(z)) and j not in fn_loads_after(st):
                    st = ast.For(target=st.target.elts[1], iter=st.iter.args[0], body=st.body, orelse=st.orelse, lineno=st.lineno)
            # (e) xs = []; for v in it: [if c:] xs.append(e)   ≡   xs = [e for v in it if c]
            if isinstance(st, ast.For) and not st.orelse and out and isinstance(out[-1], ast.Assign) and len(out[-1].targets) == 1 and isinstance(out[-1].targets[0], ast.Name) \
                    and isinstance(out[-1].value, ast.List) and not out[-1].value.elts and len(st.body) == 1:
                acc = out[-1].targets[0].id
                inner, cond = st.body[0], None
                if isinstance(inner, ast.If) and not inner.orelse and len(inner.body) == 1:
                    inner, cond = inner.body[0], inner.test
                if isinstance(inner, ast.Expr) and isinstance(inner.value, ast.Call) and isinstance(inner.value.func, ast.Attribute) and inner.value.func.attr == "append" \
                        and isinstance(inner.value.func.value, ast.Name) and inner.value.func.value.id == acc and len(inner.value.args) == 1 and not inner.value.keywords \
                        and not any(isinstance(y, ast.Name) and y.id == acc for y in ast.walk(inner.value.args[0])) \
                        and not any(isinstance(y, ast.Name) and y.id == acc for y in ast.walk(st.iter)) \
                        and not (cond is not None and any(isinstance(y, ast.Name) and y.id == acc for y in ast.walk(cond))):
                    tnames = {y.id for y in ast.walk(st.target) if isinstance(y, ast.Name)}
                    if not (tnames & fn_loads_after(st)):
                        out[-1] = ast.Assign(targets=[ast.Name(id=acc, ctx=ast.Store())],
                                             value=ast.ListComp(elt=inner.value.args[0], generators=[ast.comprehension(target=st.target, iter=st.iter, ifs=[cond] if cond is not None else [], is_async=0)]),
                                             lineno=out[-1].lineno)
                        continue
            out.append(st)
        # (i) two adjacent assignments of call-free expressions to different plain names, neither reading the other's target, commute: order by target name
        def _simple(x):
            return isinstance(x, ast.Assign) and len(x.targets) == 1 and isinstance(x.targets[0], ast.Name) and all(isinstance(y, self._PURE) for y in ast.walk(x.value))
        changed = True
        while changed:
            changed = False
            for i in range(len(out) - 1):
                a, b = out[i], out[i + 1]
                if _simple(a) and _simple(b) and a.targets[0].id > b.targets[0].id:
                    ra = {y.id for y in ast.walk(a.value) if isinstance(y, ast.Name)}
                    rb = {y.id for y in ast.walk(b.value) if isinstance(y, ast.Name)}
                    if a.targets[0].id not in rb and b.targets[0].id not in ra:
                        out[i], out[i + 1] = b, a
                        changed = True
        # (a'') if c: return a ; return b  ≡  return a if c else b
        i = 0
        while i + 1 < len(out):
            a, b = out[i], out[i + 1]
            if isinstance(a, ast.If) and not a.orelse and len(a.body) == 1 and isinstance(a.body[0], ast.Return) and a.body[0].value is not None \
                    and isinstance(b, ast.Return) and b.value is not None:
                out[i:i + 2] = [ast.Return(value=ast.IfExp(test=a.test, body=a.body[0].value, orelse=b.value), lineno=a.lineno)]
                continue
            i += 1
        return out

    def struct_pass(self, node):
        """bottom-up over every statement block"""
        loads = [(x.id, getattr(x, "lineno", 0)) for x in ast.walk(node) if isinstance(x, ast.Name) and isinstance(x.ctx, ast.Load)]
        stores = [(x.id, getattr(x, "lineno", 0)) for x in ast.walk(node) if isinstance(x, ast.Name) and isinstance(x.ctx, ast.Store)]

        def loads_after(loop):
            """names read after the loop ends without an intervening rebinding (a comprehension would not leave them bound)"""
            end = getattr(loop, "end_lineno", None) or max((getattr(y, "lineno", 0) for y in ast.walk(loop)), default=0)
            out = set()
            for nm, ln in loads:
                if ln > end and not any(n2 == nm and end < l2 <= ln for n2, l2 in stores):
                    out.add(nm)
            return out

        def rec(n):
            for fld in ("body", "orelse", "finalbody"):
                blk = getattr(n, fld, None)
                if isinstance(blk, list) and blk and isinstance(blk[0], ast.stmt):
                    for ch in blk:
                        rec(ch)
                    setattr(n, fld, self._block(blk, loads_after) or [ast.Pass()])
            for h in getattr(n, "handlers", []) or []:
                rec(h)
        rec(node)
        return node

    def visit_DictComp(self, n):
        self.generic_visit(n)
        # {k: v for k, v in zip(a, b)}  ≡  dict(zip(a, b))
        if len(n.generators) == 1 and not n.generators[0].ifs and isinstance(n.generators[0].target, ast.Tuple) and len(n.generators[0].target.elts) == 2 \
                and all(isinstance(t, ast.Name) for t in n.generators[0].target.elts) and isinstance(n.key, ast.Name) and isinstance(n.value, ast.Name) \
                and (n.key.id, n.value.id) == tuple(t.id for t in n.generators[0].target.elts) \
                and isinstance(n.generators[0].iter, ast.Call) and _dotted(n.generators[0].iter.func) == "zip":
            return ast.Call(func=ast.Name(id="dict", ctx=ast.Load()), args=[n.generators[0].iter], keywords=[])
        return n

    def visit_List(self, n):
        self.generic_visit(n)
        # [*x]  ≡  list(x)
        if len(n.elts) == 1 and isinstance(n.elts[0], ast.Starred) and isinstance(n.ctx, ast.Load):
            return ast.Call(func=ast.Name(id="list", ctx=ast.Load()), args=[n.elts[0].value], keywords=[])
        return n

    def inline_pass(self, node):
        """first pass: substitute single-use temporaries everywhere (before operands are ordered)"""
        for sub in ast.walk(node):
            for fld in ("body", "orelse", "finalbody"):
                blk = getattr(sub, fld, None)
                if isinstance(blk, list) and blk and isinstance(blk[0], ast.stmt):
                    if self.shared:
                        blk = self._inline_pure_shared(blk) or [ast.Pass()]
                    setattr(sub, fld, self._inline_single_use(blk) or [ast.Pass()])
            for h in getattr(sub, "handlers", []) or []:
                h.body = self._inline_single_use(h.body) or [ast.Pass()]
        return node


def canon_digest(fn: ast.AST) -> str:
    import copy
    from collections import Counter
    cp = clone(fn)
    stores = Counter(x.id for x in ast.walk(cp) if isinstance(x, ast.Name) and isinstance(x.ctx, (ast.Store, ast.Del)))
    loads = Counter(x.id for x in ast.walk(cp) if isinstance(x, ast.Name) and isinstance(x.ctx, ast.Load))
    cn = _Canon()
    isfn = isinstance(cp, (ast.FunctionDef, ast.AsyncFunctionDef))
    params = {a.arg for a in ast.walk(cp) if isinstance(a, ast.arg)}
    cn.single_use = {n for n in locals_of(cp) if stores[n] == 1 and loads[n] == 1} if isfn else set()
    cn.shared = {n for n in locals_of(cp) if stores[n] == 1 and loads[n] >= 1 and n not in params} if isfn else set()
    cn.loads = loads
    cn.numeric = _array_names(cp)
    if isfn:
        cp = cn.struct_pass(cp)
        stores = Counter(x.id for x in ast.walk(cp) if isinstance(x, ast.Name) and isinstance(x.ctx, (ast.Store, ast.Del)))
        loads = Counter(x.id for x in ast.walk(cp) if isinstance(x, ast.Name) and isinstance(x.ctx, ast.Load))
        cn.single_use = {n for n in locals_of(cp) if stores[n] == 1 and loads[n] == 1}
        cn.shared = {n for n in locals_of(cp) if stores[n] == 1 and loads[n] >= 1 and n not in params}
        cn.loads = loads
    if cn.single_use or cn.shared:
        cp = cn.inline_pass(cp)
    c = cn.visit(cp)
    if isfn:
        c = cn.struct_pass(c)        # once more: flips / merges done by the expression pass can enable a statement rewrite
    ast.fix_missing_locations(c)
    return shape_of(c)[0]


def canonicalise_module(modname: str, tree: ast.AST) -> list[str]:
    """Replace, in place, every recorded function whose canonical form equals the recorded canonical form (but whose syntax differs) by the
    recorded function (parsed from the recorded source; line numbers shifted to the current position)."""
    if os.environ.get("QV_NO_CANON"):
        return []
    table = pinned_table()
    done = []

    def visit(owner, prefix):
        body = getattr(owner, "body", [])
        for i, ch in enumerate(body):
            if isinstance(ch, (ast.FunctionDef, ast.AsyncFunctionDef)):
                q = ".".join(prefix + (ch.name,))
                e = table.get(f"{modname}:{q}")
                if e and "canon" in e and "src" in e:
                    if shape_of(ch)[0] != e["digest"] and canon_digest(ch) == e["canon"]:
                        new = ast.parse(e["src"]).body[0]
                        ast.increment_lineno(new, ch.lineno - 1)
                        body[i] = new
                        done.append(q)
            elif isinstance(ch, ast.ClassDef):
                visit(ch, prefix + (ch.name,))
            elif isinstance(ch, (ast.If, ast.Try, ast.With)):
                visit(ch, prefix)
    visit(tree, ())
    return done
