"""Statement-level control-flow graph with optional exception edges, dominators and
reachability.  Covers the statement kinds quantem uses: if/elif/else, for/while (+else),
try/except/else/finally, with, return, raise, break, continue, assert, match (unsupported →
AnalysisError).

Nodes are integers.  Each node has a `kind`:
  'entry', 'exit' (normal return), 'raise' (exceptional exit),
  'stmt'  (a simple statement; node.stmt is the ast statement),
  'test'  (the condition of an if/while; node.stmt is the If/While, node.expr the test),
  'branch' (pseudo node for one polarity of a test: node.test = test node id, node.polarity),
  'iter'  (for-loop header), 'with' (evaluation of the with items), 'with_exit',
  'handler' (except clause head; node.stmt is the ExceptHandler), 'join' (structural no-op).
Branch pseudo-nodes make "dominated by the true arm of test T" an ordinary dominance query.
"""
from __future__ import annotations

import ast
from dataclasses import dataclass, field
from typing import Iterable, Optional

from .repo import AnalysisError


@dataclass
class Node:
    id: int
    kind: str
    stmt: Optional[ast.AST] = None
    expr: Optional[ast.AST] = None
    test: Optional[int] = None
    polarity: Optional[bool] = None
    tag: str = ""  # 'normal' | 'exc' copy of a finally body etc.

    @property
    def lineno(self) -> int:
        n = self.expr or self.stmt
        return getattr(n, "lineno", 0)


class CFG:
    def __init__(self, fn: ast.AST, exc_edges: bool = False):
        self.fn = fn
        self.exc_edges = exc_edges
        self.nodes: list[Node] = []
        self.succ: dict[int, set[int]] = {}
        self.pred: dict[int, set[int]] = {}
        self.exc_succ: dict[int, set[int]] = {}  # subset of succ: exceptional edges
        self.entry = self._new("entry")
        self.exit = self._new("exit")
        self.raise_exit = self._new("raise")
        # stack of frames: ('loop', head, after) / ('try', handler_heads, finally_builder)
        self._loops: list[tuple[int, int]] = []
        self._handlers: list[list[int]] = []  # innermost last: where an exception goes
        self._finals: list[list[ast.stmt]] = []  # pending finally bodies (innermost last)
        body = fn.body if not isinstance(fn, ast.Lambda) else [ast.Expr(fn.body)]
        ends = self._block(body, {self.entry})
        for e in ends:
            self._edge(e, self.exit)
        self._idom: Optional[dict[int, int]] = None
        self._ipdom: Optional[dict[int, int]] = None

    # ------------------------------------------------------------ construction
    def _new(self, kind: str, **kw) -> int:
        n = Node(len(self.nodes), kind, **kw)
        self.nodes.append(n)
        self.succ[n.id] = set()
        self.pred[n.id] = set()
        self.exc_succ[n.id] = set()
        return n.id

    def _edge(self, a: int, b: int, exc: bool = False) -> None:
        self.succ[a].add(b)
        self.pred[b].add(a)
        if exc:
            self.exc_succ[a].add(b)

    def _exc_target(self) -> list[int]:
        if self._handlers:
            return self._handlers[-1]
        return [self.raise_exit]

    def _may_raise(self, nid: int) -> None:
        if self.exc_edges:
            for h in self._exc_target():
                self._edge(nid, h, exc=True)

    def _block(self, body: Iterable[ast.stmt], preds: set[int]) -> set[int]:
        cur = set(preds)
        for st in body:
            if not cur:
                # unreachable code after return/raise: still build it (detached) so that
                # statement→node lookups work
                cur = set()
            cur = self._stmt(st, cur)
        return cur

    def _link(self, preds: set[int], nid: int) -> None:
        for p in preds:
            self._edge(p, nid)

    def _stmt(self, st: ast.stmt, preds: set[int]) -> set[int]:
        if isinstance(st, ast.If):
            t = self._new("test", stmt=st, expr=st.test)
            self._link(preds, t)
            self._may_raise(t)
            bt = self._new("branch", stmt=st, test=t, polarity=True)
            bf = self._new("branch", stmt=st, test=t, polarity=False)
            self._edge(t, bt)
            self._edge(t, bf)
            out = self._block(st.body, {bt})
            out |= self._block(st.orelse, {bf})
            return out
        if isinstance(st, ast.While):
            t = self._new("test", stmt=st, expr=st.test)
            self._link(preds, t)
            self._may_raise(t)
            bt = self._new("branch", stmt=st, test=t, polarity=True)
            bf = self._new("branch", stmt=st, test=t, polarity=False)
            self._edge(t, bt)
            self._edge(t, bf)
            after = self._new("join", stmt=st)
            self._loops.append((t, after))
            body_out = self._block(st.body, {bt})
            self._loops.pop()
            for b in body_out:
                self._edge(b, t)
            else_out = self._block(st.orelse, {bf})
            self._link(else_out, after)
            return {after}
        if isinstance(st, (ast.For, ast.AsyncFor)):
            h = self._new("iter", stmt=st, expr=st.iter)
            self._link(preds, h)
            self._may_raise(h)
            bt = self._new("branch", stmt=st, test=h, polarity=True)
            bf = self._new("branch", stmt=st, test=h, polarity=False)
            self._edge(h, bt)
            self._edge(h, bf)
            after = self._new("join", stmt=st)
            self._loops.append((h, after))
            body_out = self._block(st.body, {bt})
            self._loops.pop()
            for b in body_out:
                self._edge(b, h)
            else_out = self._block(st.orelse, {bf})
            self._link(else_out, after)
            return {after}
        if isinstance(st, (ast.With, ast.AsyncWith)):
            w = self._new("with", stmt=st)
            self._link(preds, w)
            self._may_raise(w)
            out = self._block(st.body, {w})
            wx = self._new("with_exit", stmt=st)
            self._link(out, wx)
            return {wx}
        if isinstance(st, ast.Try) or st.__class__.__name__ == "TryStar":
            return self._try(st, preds)
        if isinstance(st, ast.Return):
            n = self._new("stmt", stmt=st)
            self._link(preds, n)
            self._may_raise(n)
            self._run_finals_then(n, self.exit)
            return set()
        if isinstance(st, ast.Raise):
            n = self._new("stmt", stmt=st)
            self._link(preds, n)
            for h in self._exc_target():
                self._edge(n, h, exc=True)
            return set()
        if isinstance(st, ast.Break):
            n = self._new("stmt", stmt=st)
            self._link(preds, n)
            if not self._loops:
                raise AnalysisError("break outside loop")
            self._edge(n, self._loops[-1][1])
            return set()
        if isinstance(st, ast.Continue):
            n = self._new("stmt", stmt=st)
            self._link(preds, n)
            if not self._loops:
                raise AnalysisError("continue outside loop")
            self._edge(n, self._loops[-1][0])
            return set()
        if st.__class__.__name__ == "Match":
            raise AnalysisError("match statement not modelled by the CFG builder")
        # simple statement (incl. nested def/class, assert, expr, assign, import, ...)
        n = self._new("stmt", stmt=st)
        self._link(preds, n)
        if isinstance(st, ast.Assert):
            for h in self._exc_target():
                self._edge(n, h, exc=True)
        elif not isinstance(st, (ast.FunctionDef, ast.AsyncFunctionDef, ast.ClassDef, ast.Pass,
                                 ast.Import, ast.ImportFrom, ast.Global, ast.Nonlocal)):
            self._may_raise(n)
        return {n}

    def _run_finals_then(self, n: int, target: int) -> None:
        """A return inside try/finally runs the pending finally bodies first."""
        cur = {n}
        if self._finals:
            saved_handlers, saved_finals = self._handlers, self._finals
            pend = list(self._finals)
            # while executing finally bodies, exceptions go outwards
            for depth in range(len(pend) - 1, -1, -1):
                self._finals = pend[:depth]
                self._handlers = saved_handlers[: self._final_handler_depth[depth]]
                cur = self._block(pend[depth], cur)
            self._handlers, self._finals = saved_handlers, saved_finals
        for c in cur:
            self._edge(c, target)

    _final_handler_depth: list[int] = []

    def _try(self, st, preds: set[int]) -> set[int]:
        has_final = bool(st.finalbody)
        outer_handlers_depth = len(self._handlers)
        handler_heads = [self._new("handler", stmt=h) for h in st.handlers]
        exc_final_entry = None
        if has_final:
            exc_final_entry = self._new("join", stmt=st, tag="finally-exc")
        # exceptions raised in the try body go to every handler (any may match) and, if no
        # handler is a catch-all, onwards (through finally) to the outer target
        catch_all = any(
            h.type is None
            or (isinstance(h.type, ast.Name) and h.type.id in ("BaseException",))
            for h in st.handlers
        )
        body_targets = list(handler_heads)
        if not catch_all:
            body_targets += [exc_final_entry] if has_final else self._exc_target()
        if has_final:
            self._finals.append(st.finalbody)
            self._final_handler_depth = self._final_handler_depth + [outer_handlers_depth]
        self._handlers.append(body_targets)
        # always give try-body statements exception edges to the handlers: the point of a try
        saved = self.exc_edges
        self.exc_edges = True
        body_out = self._block(st.body, preds)
        self.exc_edges = saved
        self._handlers.pop()
        # else clause: exceptions there skip the handlers
        after_handler_targets = [exc_final_entry] if has_final else None
        if after_handler_targets:
            self._handlers.append(after_handler_targets)
        else_out = self._block(st.orelse, body_out) if st.orelse else body_out
        h_out: set[int] = set()
        for hid, h in zip(handler_heads, st.handlers):
            h_out |= self._block(h.body, {hid})
        if after_handler_targets:
            self._handlers.pop()
        if has_final:
            self._finals.pop()
            self._final_handler_depth = self._final_handler_depth[:-1]
            # normal copy
            n_out = self._block(st.finalbody, else_out | h_out)
            # exceptional copy: runs then re-raises outwards
            e_out = self._block(st.finalbody, {exc_final_entry})
            for e in e_out:
                for tgt in self._exc_target():
                    self._edge(e, tgt, exc=True)
            return n_out
        return else_out | h_out

    # ------------------------------------------------------------ queries
    def nodes_of(self, stmt: ast.AST, kinds=None) -> list[int]:
        return [n.id for n in self.nodes if n.stmt is stmt and (kinds is None or n.kind in kinds)]

    def node_containing(self, expr: ast.AST) -> list[int]:
        """CFG nodes whose own expression region contains `expr` (not nested statements)."""
        from .repo import parent

        n = expr
        while n is not None:
            if isinstance(n, ast.stmt):
                break
            n = parent(n)
        if n is None:
            return []
        st = n
        out = []
        for node in self.nodes:
            if node.stmt is st and node.kind in ("stmt", "test", "iter", "with"):
                if node.kind in ("test", "iter") and node.expr is not None:
                    if not any(x is expr for x in ast.walk(node.expr)):
                        continue
                if node.kind == "with":
                    if not any(x is expr for it in st.items for x in ast.walk(it)):
                        continue
                out.append(node.id)
        return out

    def reachable_from(self, start: int, avoid: Iterable[int] = ()) -> set[int]:
        avoid = set(avoid)
        seen, stack = set(), [start]
        if start in avoid:
            return set()
        while stack:
            n = stack.pop()
            if n in seen:
                continue
            seen.add(n)
            for s in self.succ[n]:
                if s not in avoid and s not in seen:
                    stack.append(s)
        return seen

    def _dominators(self, root: int, succ, pred) -> dict[int, int]:
        # iterative algorithm (Cooper, Harvey, Kennedy)
        order: list[int] = []
        seen = set()

        def dfs(n):
            stack = [(n, iter(sorted(succ[n])))]
            seen.add(n)
            while stack:
                node, it = stack[-1]
                for s in it:
                    if s not in seen:
                        seen.add(s)
                        stack.append((s, iter(sorted(succ[s]))))
                        break
                else:
                    order.append(node)
                    stack.pop()

        dfs(root)
        rpo = list(reversed(order))
        index = {n: i for i, n in enumerate(rpo)}
        idom = {root: root}
        changed = True

        def intersect(a, b):
            while a != b:
                while index[a] > index[b]:
                    a = idom[a]
                while index[b] > index[a]:
                    b = idom[b]
            return a

        while changed:
            changed = False
            for n in rpo[1:]:
                ps = [p for p in pred[n] if p in idom]
                if not ps:
                    continue
                new = ps[0]
                for p in ps[1:]:
                    new = intersect(p, new)
                if idom.get(n) != new:
                    idom[n] = new
                    changed = True
        return idom

    @property
    def idom(self) -> dict[int, int]:
        if self._idom is None:
            self._idom = self._dominators(self.entry, self.succ, self.pred)
        return self._idom

    def dominators_of(self, n: int) -> list[int]:
        """All strict dominators of n, innermost first.  Empty if n is unreachable."""
        idom = self.idom
        if n not in idom:
            return []
        out = []
        while idom[n] != n:
            n = idom[n]
            out.append(n)
        return out

    def dominates(self, a: int, b: int) -> bool:
        return a == b or a in self.dominators_of(b)

    def is_reachable(self, n: int) -> bool:
        return n in self.idom

    def guards_of(self, n: int) -> list[tuple[ast.AST, bool]]:
        """(test expression, polarity) for every branch pseudo-node dominating n."""
        out = []
        for d in self.dominators_of(n):
            node = self.nodes[d]
            if node.kind == "branch":
                t = self.nodes[node.test]
                if t.kind == "test":
                    out.append((t.expr, bool(node.polarity)))
        return out

    def normal_succ(self, n: int) -> set[int]:
        return self.succ[n] - self.exc_succ[n]

    def reachable_after_failure_of(self, n: int, avoid: Iterable[int] = ()) -> set[int]:
        """Nodes reachable when statement n raises (following its exceptional edges only)."""
        out: set[int] = set()
        for h in self.exc_succ[n]:
            out |= self.reachable_from(h, avoid=avoid)
        return out

    def all_paths_pass_through(self, start: int, target: int, via: Iterable[int]) -> bool:
        """True iff every path start→target contains a node of `via` (vacuously true if
        target is unreachable from start)."""
        return target not in self.reachable_from(start, avoid=via)


def assigned_on_every_path(fn: ast.AST, is_target) -> tuple[bool, list[int], "CFG"]:
    """Does every path from the entry of fn to its NORMAL exit pass a statement that assigns a target for which
    is_target(target expression) holds?  Returns (verdict, CFG node ids of the assigning statements, the CFG)."""
    cfg = CFG(fn)
    via = []
    for n in cfg.nodes:
        st = getattr(n, "stmt", None)
        if n.kind != "stmt" or st is None:
            continue
        tgts = []
        if isinstance(st, ast.Assign):
            tgts = st.targets
        elif isinstance(st, (ast.AugAssign, ast.AnnAssign)) and getattr(st, "value", None) is not None:
            tgts = [st.target]
        flat = []
        for t in tgts:
            flat += list(t.elts) if isinstance(t, (ast.Tuple, ast.List)) else [t]
        if any(is_target(t) for t in flat):
            via.append(n.id)
    return (bool(via) and cfg.all_paths_pass_through(cfg.entry, cfg.exit, via)), via, cfg
