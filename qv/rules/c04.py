"""C04 — direct ptychography: batch separability, linearity in the stack, kernel tables,
sub-mask consistency (E5, E6 targeted forms, E9)."""
from __future__ import annotations

import ast

from ..core.repo import (AnalysisError, Repo, call_name, calls_in, definitions, dotted, func_params, is_const,
                         kwarg, names_in, unparse, walk_no_nested_defs)

DP = "quantem.diffractive_imaging.direct_ptychography"

EXPLANATION = (
    "reduction and data-flow inventory of the streamed reconstruction: inside the per-batch region "
    "(both batcher loops and the kernel function they call) every reduction keeps the batch axis or is "
    "the plain sum(0) that feeds the additive accumulator `power` unscaled; batch-indexed reads and the "
    "scatter use one index; both passes iterate the same batcher; normalisers used after the loops "
    "derive from the accumulated/global quantities only; no non-linear operation touches a value in "
    "the forward slice of the stack; alias, dispatch, two-pass and permutation tables agree; every "
    "mask-indexed quantity uses the local sub-mask; DC removal is per-image zeroing"
)

REDUCERS = {"sum", "mean", "max", "min", "amax", "amin", "std", "var", "median", "norm", "prod", "argmax", "argmin", "sort",
            "argsort", "cumsum", "softmax", "logsumexp", "nanmean", "nansum", "all", "any"}
NONLINEAR = {"abs", "square", "sqrt", "exp", "log", "clip", "clamp", "clamp_min", "clamp_max", "sign", "pow", "angle", "relu",
             "tanh", "sigmoid", "max", "min", "amax", "amin", "maximum", "minimum", "std", "var", "norm"}


def _method_or_func(c: ast.Call):
    cn = call_name(c) or ""
    if cn.startswith(("torch.", "np.")):
        return cn.split(".")[-1], (c.args[0] if c.args else None), c.args[1:]
    if isinstance(c.func, ast.Attribute):
        return c.func.attr, c.func.value, c.args
    return cn, None, c.args


def _dims(c: ast.Call, rest_args):
    d = kwarg(c, "dim") or kwarg(c, "axis")
    if d is None and rest_args:
        d = rest_args[0]
    if d is None:
        return None
    try:
        v = ast.literal_eval(d)
    except Exception:
        return "?"
    return (v,) if isinstance(v, int) else tuple(v)


def _rule_grid_rotation(check, repo: Repo) -> None:
    """R10: the detector k-grid handed to every kernel is ROTATED, not sheared.  The helper is executed symbolically, statement by statement (a tuple
    assignment evaluates its right-hand side before binding; two single assignments do not — the second then reads the already rotated first
    coordinate), and the returned pair is compared, as rational normal forms in (kx, ky, cos, sin), with a rotation matrix."""
    from ..domains.algnf import NotArithmetic, Rat, from_ast
    CPQ = "quantem.diffractive_imaging.complex_probe"
    cmod, fn = repo.func(f"{CPQ}:_passively_rotate_grid")
    check.analysed(f"{CPQ}:_passively_rotate_grid")
    ps = func_params(fn)
    if len(ps) < 3:
        raise AnalysisError("_passively_rotate_grid: unexpected signature")
    kx, ky = ps[0], ps[1]
    env = {kx: Rat.sym("kx"), ky: Rat.sym("ky")}
    trig = {}

    def atom(e):
        cn = call_name(e) if isinstance(e, ast.Call) else None
        if cn and cn.split(".")[-1] in ("cos", "sin") and len(e.args) == 1:
            a = unparse(e.args[0]).replace(" ", "")
            neg = a.startswith("-")
            trig[cn.split(".")[-1] + ("-" if neg else "+")] = True
            # cos(−a) = cos(a), sin(−a) = −sin(a): the sign is folded into the symbol's coefficient below
            return ("c" if cn.endswith("cos") else ("s⁻" if neg else "s"))
        return None
    ret = None
    try:
        for st in fn.body:
            if isinstance(st, ast.Expr):
                continue
            if isinstance(st, ast.Return):
                ret = st.value
                break
            if not isinstance(st, ast.Assign) or len(st.targets) != 1:
                raise AnalysisError(f"_passively_rotate_grid: statement `{unparse(st)[:50]}` not understood")
            t, v = st.targets[0], st.value
            if isinstance(t, ast.Tuple) and isinstance(v, ast.Tuple) and len(t.elts) == len(v.elts) and all(isinstance(x, ast.Name) for x in t.elts):
                vals = [from_ast(x, dict(env), atom) for x in v.elts]      # simultaneous: all right-hand sides first
                for x, val in zip(t.elts, vals):
                    env[x.id] = val
            elif isinstance(t, ast.Name):
                env[t.id] = from_ast(v, dict(env), atom)
            else:
                raise AnalysisError(f"_passively_rotate_grid: target `{unparse(t)}` not understood")
        if not (isinstance(ret, ast.Tuple) and len(ret.elts) == 2):
            raise AnalysisError("_passively_rotate_grid: expected `return kx', ky'`")
        ox, oy = (from_ast(x, dict(env), atom) for x in ret.elts)
    except NotArithmetic as e_:
        raise AnalysisError(f"_passively_rotate_grid: not arithmetic ({e_})")
    # s⁻ = sin(−a) = −sin(a)
    sub = lambda r: r.subs("s⁻", -Rat.sym("s"))
    ox, oy = sub(ox), sub(oy)
    X, Y, C, S = Rat.sym("kx"), Rat.sym("ky"), Rat.sym("c"), Rat.sym("s")
    # orthogonality: |out|² = (c² + s²)·|in|²  — holds for every rotation/reflection, fails for a shear
    lhs = ox * ox + oy * oy
    rhs = (C * C + S * S) * (X * X + Y * Y)
    check.decide(lhs.equals(rhs), "C04-R10", "_passively_rotate_grid: the returned grid is an orthogonal image of the input (|k'|² = (cos² + sin²)·|k|²)", "", cmod.line(fn), definite=True,
                 fail_detail=f"k' = ({ox!r}, {oy!r}) is not a rotation of (kx, ky): one coordinate is computed from the already updated other one (sequential instead of simultaneous "
                             f"assignment) or a coefficient is wrong — the detector grid is sheared for every non-zero rotation angle")
    want_x, want_y = X * C - Y * S, X * S + Y * C          # rotation by −angle written with c = cos(angle), s = sin(angle): passive rotation
    check.decide(ox.equals(want_x) and oy.equals(want_y), "C04-R10", "_passively_rotate_grid: k' = R(−angle)·k (passive rotation of the coordinates)", f"({ox!r}, {oy!r})", cmod.line(fn),
                 definite=True, fail_detail=f"k' = ({ox!r}, {oy!r}), expected (kx·c − ky·s, kx·s + ky·c) with c, s of the rotation angle")


def run(check, repo: Repo) -> None:
    mod = repo.module(DP)
    _rule_grid_rotation(check, repo)
    _rule_state_accessors(check, repo)
    _, rec = repo.func(f"{DP}:DirectPtychography.reconstruct")
    _, ker = repo.func(f"{DP}:DirectPtychography._return_kernel_contributions")
    _, pre = repo.func(f"{DP}:DirectPtychography._preprocess")
    _, ctx = repo.func(f"{DP}:DirectPtychography._return_bf_context")
    _, nk = repo.func(f"{DP}:DirectPtychography._normalize_kernel_name")
    _, perm = repo.func(f"{DP}:DirectPtychography._reconstruct_all_permutations")
    _, lat = repo.func(f"{DP}:DirectPtychography._return_lateral_shifts")
    check.analysed(*(f"{DP}:DirectPtychography.{q}" for q in ("reconstruct", "_return_kernel_contributions", "_preprocess", "_return_bf_context",
                                                              "_normalize_kernel_name", "_reconstruct_all_permutations", "_return_lateral_shifts")))

    # ---- R1 batch separability -----------------------------------------------------------------------------
    loops = [n for n in walk_no_nested_defs(rec) if isinstance(n, ast.For) and isinstance(n.iter, ast.Name)
             and any(isinstance(d, ast.Call) and call_name(d) == "SimpleBatcher" for d in definitions(rec, n.iter.id) if isinstance(d, ast.AST))]
    check.floor("batcher loops in reconstruct", len(loops), 2)
    iters = {unparse(l.iter) for l in loops}
    tv = {unparse(l.target) for l in loops}
    check.decide(len(iters) == 1 and len(tv) == 1, "C04-R1", "reconstruct: both passes iterate the same batcher with the same index variable", f"{iters}", mod.line(loops[0]),
                 fail_detail=f"the passes iterate {iters}: first and second pass see different partitions of the bright-field pixels")
    bdef = [d for d in definitions(rec, loops[0].iter.id) if isinstance(d, ast.AST)][0]
    ok = unparse(bdef.args[0]) == "num_bf" and is_const(kwarg(bdef, "shuffle"), False) and kwarg(bdef, "val_ratio") is None
    check.decide(ok, "C04-R1", "reconstruct: the batcher partitions all selected bright-field pixels (no shuffle, no validation split)", unparse(bdef), mod.line(bdef),
                 fail_detail=f"`{unparse(bdef)}`")
    # options beyond (size, shuffle, rng): an option that makes the batcher yield an index in more than one batch turns every additive aggregate
    # of the two-pass kernels into a double count (batch invariance is lost for batch sizes that do not divide the pixel count)
    extra = [k for k in bdef.keywords if k.arg not in ("batch_size", "shuffle", "rng", "val_ratio", None)]
    if any(k.arg is None for k in bdef.keywords):
        raise AnalysisError("reconstruct: SimpleBatcher(**options) — options not enumerable")
    for k in extra:
        PU_ = "quantem.diffractive_imaging.ptycho_utils"
        bm, it_fn = repo.func(f"{PU_}:SimpleBatcher.__iter__")
        if not (isinstance(k.value, ast.Constant)):
            raise AnalysisError(f"reconstruct: SimpleBatcher option `{k.arg}` is not a constant — not decided")
        arms = [n for n in ast.walk(it_fn) if isinstance(n, ast.If) and any(dotted(x) == f"self.{k.arg}" for x in ast.walk(n.test))]
        if not arms:
            raise AnalysisError(f"reconstruct: SimpleBatcher option `{k.arg}` is not recognised")
        dup = [c for a in arms for st_ in (a.body if bool(k.value.value) else a.orelse) for c in ast.walk(st_)
               if isinstance(c, ast.Call) and (call_name(c) or "").split(".")[-1] in ("concatenate", "hstack", "append", "extend", "tile", "resize", "pad")]
        key_ = f"reconstruct: SimpleBatcher option `{k.arg}={unparse(k.value)}` keeps the batches a partition of the bright-field pixels"
        if dup:
            check.violated("C04-R1", key_, f"with this option SimpleBatcher.__iter__ executes `{unparse(dup[0])[:70]}`: a batch is filled up with indices that another batch already "
                           f"delivered, so the per-batch sums of the two-pass kernels count those pixels twice — the result depends on max_batch_size", bm.line(dup[0]), definite=True)
        else:
            raise AnalysisError(f"reconstruct: effect of SimpleBatcher option `{k.arg}` on the partition not decided")
    # no code path is selected by the NUMBER or SIZE of the batches (defaulting `if max_batch_size is None` aside): a fast path for "everything fits
    # in one batch" computes something the batched path must reproduce exactly, step for step
    bname = loops[0].iter.id
    bsz = {a for a in func_params(rec) if "batch" in a}
    sized = set(bsz) | {bname}
    for st_ in walk_no_nested_defs(rec):  # locals derived from the batch size / the batcher (num_batches = len(batcher), …)
        if isinstance(st_, ast.Assign) and isinstance(st_.targets[0], ast.Name) and st_.targets[0].id not in sized:
            v_ = st_.value
            if any(isinstance(x, ast.Call) and call_name(x) == "len" and x.args and unparse(x.args[0]) == bname for x in ast.walk(v_)):
                sized.add(st_.targets[0].id)
    dep_tests = []
    for n_ in walk_no_nested_defs(rec):
        if isinstance(n_, (ast.If, ast.IfExp, ast.While)):
            t_ = n_.test
            nm_ = names_in(t_) & sized
            if not nm_:
                continue
            is_default = isinstance(t_, ast.Compare) and len(t_.ops) == 1 and isinstance(t_.ops[0], (ast.Is, ast.IsNot)) and is_const(t_.comparators[0], None)
            if not is_default:
                dep_tests.append(n_)
    check.decide(not dep_tests, "C04-R1", "reconstruct: no branch depends on the number or size of the batches", f"batch-dependent names {sorted(sized)}",
                 mod.line(dep_tests[0]) if dep_tests else mod.line(rec),
                 fail_detail=f"`{unparse(dep_tests[0].test)[:60]}` selects a code path by the batch count/size: the two paths must agree step for step (filters, normalisation, inverse "
                             f"transform) for the result to be independent of the batch size" if dep_tests else "")
    bidx = loops[0].target.id
    regions = [("reconstruct[pass 1]", loops[0].body), ("reconstruct[pass 2]", loops[1].body), ("_return_kernel_contributions", ker.body)]
    n_red = 0
    allowed_sum0 = []
    for label, body in regions:
        fake = ast.Module(body=body, type_ignores=[])
        for c in calls_in(fake):
            name, recv, rest = _method_or_func(c)
            if name == "einsum":
                sub = c.args[0].value if c.args and isinstance(c.args[0], ast.Constant) else ""
                lhs, _, rhs = sub.partition("->")
                first = lhs.split(",")[0]
                n_red += 1
                keep = bool(first) and first[0] in rhs and rhs.index(first[0]) == 0
                check.decide(keep, "C04-R1", f"{label}: einsum '{sub}' keeps the batch letter as the leading output axis", "", mod.line(c),
                             fail_detail=f"einsum '{sub}' contracts (or moves) the batch axis")
                continue
            if name not in REDUCERS or recv is None:
                continue
            if unparse(recv) in ("math",) or (call_name(c) or "").startswith(("math.", "len")):
                continue
            n_red += 1
            dims = _dims(c, rest)
            construct = f"{label}: reduction `{unparse(c)[:50]}`"
            if dims is not None and dims != "?" and all(d not in (0,) and d < 0 or d > 0 for d in dims):
                check.holds("C04-R1", construct + " keeps the batch axis", f"dims {dims}", mod.line(c))
            elif name == "sum" and dims == (0,):
                allowed_sum0.append((label, c))
                check.holds("C04-R1", construct + " is a plain sum over the batch axis (additive aggregate)", "", mod.line(c))
            else:
                check.violated("C04-R1", construct + " must keep the batch axis or be a plain sum(0)",
                               f"`{unparse(c)[:60]}` reduces over {('all axes' if dims is None else dims)} with `{name}`: a per-batch {name} is not additive, "
                               f"so the result depends on how the bright-field pixels are split into batches", mod.line(c))
    check.floor("reductions in the per-batch region", n_red, 2)
    # the additive aggregate feeds the accumulator unscaled
    acc = [n for n in ast.walk(ast.Module(body=loops[0].body, type_ignores=[])) if isinstance(n, ast.AugAssign) and dotted(n.target) == "power"]
    ok = len(acc) == 1 and isinstance(acc[0].op, ast.Add) and isinstance(acc[0].value, ast.Name)
    src_ok = False
    if ok:
        # the accumulated name is the second element returned by the kernel function
        d = [x for x in definitions(rec, acc[0].value.id) if x.__class__.__name__ == "TupleItem"]
        src_ok = bool(d) and d[0].index == 1 and "_return_kernel_contributions" in unparse(d[0].value)
    check.decide(ok and src_ok, "C04-R1", "reconstruct: the per-batch power is added to the accumulator unscaled (`power += pow`)", unparse(acc[0]) if acc else "", mod.line(acc[0] if acc else rec),
                 fail_detail=f"`{unparse(acc[0]) if acc else '?'}`: the accumulated term is scaled by a schedule-dependent factor (number of batches, batch length …) — "
                             f"uneven trailing batches are weighted differently")
    kpow = [n for n in ast.walk(ker) if isinstance(n, ast.Assign) and dotted(n.targets[0]) == "power" and not is_const(n.value, None)]
    ok = len(kpow) == 1 and unparse(kpow[0].value) == "abs_gamma.square().sum(0)"
    check.decide(ok, "C04-R1", "_return_kernel_contributions: power = Σ_batch |γ|² (plain sum over the batch axis)", unparse(kpow[0].value) if kpow else "", mod.line(kpow[0] if kpow else ker),
                 fail_detail=f"power = `{unparse(kpow[0].value) if kpow else '?'}`")
    # loop-carried state of pass 1: only the accumulator, the scatter target and the progress bar
    carried = set()
    for n in ast.walk(ast.Module(body=loops[0].body + loops[1].body, type_ignores=[])):
        if isinstance(n, ast.AugAssign):
            carried.add(unparse(n.target))
        if isinstance(n, ast.Assign) and isinstance(n.targets[0], ast.Subscript):
            carried.add(unparse(n.targets[0]))
    local_names = {x.id for l in loops for s in ast.walk(ast.Module(body=l.body, type_ignores=[])) if isinstance(s, ast.Assign) for t in s.targets
                   for x in ast.walk(t) if isinstance(x, ast.Name) and isinstance(x.ctx, ast.Store) and not isinstance(t, ast.Subscript)}
    carried_outer = sorted(c for c in carried if c.split("[")[0].split(".")[0] not in local_names)
    ok = set(carried_outer) <= {"power", f"fourier_factor[{bidx}]"}
    check.decide(ok, "C04-R1", "reconstruct: state carried across batches is limited to the additive accumulator and the batch-indexed scatter", str(carried_outer), mod.line(loops[0]),
                 fail_detail=f"loop-carried writes: {carried_outer}")
    # batch-indexed reads / scatter use the loop index
    t1 = unparse(ast.Module(body=loops[0].body, type_ignores=[]))
    ok = f"mapped_idx = vbf_index_mapping[{bidx}]" in t1 and "vbf_fourier = self._vbf_fourier[mapped_idx]" in t1 and t1.count(f"fourier_factor[{bidx}] =") == 2
    check.decide(ok, "C04-R1", "reconstruct[pass 1]: stack rows are read through the sub-mask mapping of the batch index and results are scattered to the same batch index", "", mod.line(loops[0]),
                 fail_detail="pass 1 does not read self._vbf_fourier[vbf_index_mapping[batch]] / write fourier_factor[batch]")
    t2 = unparse(ast.Module(body=loops[1].body, type_ignores=[]))
    ok = f"ff = fourier_factor[{bidx}]" in t2 and f"fourier_factor[{bidx}] = torch.fft.ifft2(ff)" in t2
    view_form = f"ff = fourier_factor[{bidx}[0]:{bidx}[-1] + 1]" in t2 and ("ff.copy_(torch.fft.ifft2(ff))" in t2 or "ff[:] = torch.fft.ifft2(ff)" in t2 or "ff[...] = torch.fft.ifft2(ff)" in t2)
    if not ok and view_form:
        # a slab view [first : last + 1] addresses exactly the batch's rows iff every batch is a run of consecutive indices: decided on SimpleBatcher.__iter__ — unshuffled
        # batches must be unit-stride slices `order[i : i + size]` of the index range, not strided ones `order[i::k]`
        _bm, it_fn = repo.func("quantem.diffractive_imaging.ptycho_utils:SimpleBatcher.__iter__")
        ys = [y.value for y in ast.walk(it_fn) if isinstance(y, ast.Yield) and y.value is not None]
        strided = [y for y in ys if isinstance(y, ast.Subscript) and isinstance(y.slice, ast.Slice) and y.slice.step is not None]
        unit = [y for y in ys if isinstance(y, ast.Subscript) and isinstance(y.slice, ast.Slice) and y.slice.step is None and y.slice.lower is not None and y.slice.upper is not None]
        if strided:
            check.violated("C04-R1", "reconstruct[pass 2]: each batch is read from and written back to its own rows",
                           f"pass 2 normalises the slab `fourier_factor[first:last+1]` of each batch, but SimpleBatcher yields strided batches (`{unparse(strided[0])[:50]}`): the slabs of "
                           f"interleaved batches overlap, rows are normalised and inverse-transformed several times — the two-pass kernels depend on max_batch_size",
                           mod.line(loops[1]), definite=True)
            ok = None
        elif unit and len(unit) == len(ys):
            ok = True
        else:
            raise AnalysisError("reconstruct[pass 2]: slab view used, contiguity of SimpleBatcher's batches not decided")
    if ok is None:
        pass
    else:
        check.decide(ok, "C04-R1", "reconstruct[pass 2]: each batch is read from and written back to its own rows", "", mod.line(loops[1]),
                     fail_detail="pass 2 does not read fourier_factor[batch] / write the inverse transform back to fourier_factor[batch]")
    kt = unparse(ker)
    ok = "ind_i = bf.bf_inds_i[batch_idx]" in kt and "ind_j = bf.bf_inds_j[batch_idx]" in kt and "grad_k[batch_idx]" in kt
    check.decide(ok, "C04-R1", "_return_kernel_contributions: detector coordinates and parallax gradients are taken at the batch's own pixels", "", mod.line(ker),
                 fail_detail="per-pixel quantities are not indexed with batch_idx")
    # after the loops: normalisers derive from global quantities
    norm_defs = [d for d in definitions(rec, "norm") if isinstance(d, ast.AST)]
    ok = bool(norm_defs) and all(names_in(d) <= {"power", "matched_filter_norm_epsilon"} for d in norm_defs)
    pw = [n for n in walk_no_nested_defs(rec) if isinstance(n, ast.AugAssign) and dotted(n.target) == "power" and n not in acc]
    ok = ok and len(pw) == 1 and isinstance(pw[0].op, ast.Div) and unparse(pw[0].value) == "BF_weights" and pw[0].lineno > loops[0].end_lineno
    check.decide(ok, "C04-R1", "reconstruct: the second-pass normaliser is computed once from the fully accumulated power and the global aperture weight",
                 f"{[unparse(d)[:50] for d in norm_defs]}", mod.line(pw[0] if pw else rec),
                 fail_detail="norm / power rescaling depend on something other than the accumulated power, BF_weights and the user epsilon")

    # ---- R2 linearity in the stack ------------------------------------------------------------------------------
    data = {"vbf_fourier", "fourier_factor", "num", "ff", "self._vbf_fourier", "self.vbf_stack", "self._vbf_stack"}
    bad = []
    for label, fn in (("reconstruct", rec), ("_return_kernel_contributions", ker), ("_preprocess", pre)):
        for c in calls_in(fn):
            name, recv, rest = _method_or_func(c)
            if name in NONLINEAR and recv is not None:
                touched = {dotted(n) for n in ast.walk(recv) if isinstance(n, (ast.Name, ast.Attribute)) and dotted(n)}
                if touched & data:
                    # _q_signal_power is a diagnostic, not part of the reconstruction
                    st = c
                    while st is not None and not isinstance(st, ast.stmt):
                        st = getattr(st, "_parent", None)
                    if isinstance(st, ast.Assign) and dotted(st.targets[0]) in ("self._q_signal_power",):
                        continue
                    bad.append((label, c))
    for label, c in bad:
        check.violated("C04-R2", f"{label}: non-linear operation on stack-derived data `{unparse(c)[:50]}`",
                       "the reconstruction is no longer linear in the virtual bright-field stack", mod.line(c))
    check.decide(not bad, "C04-R2", "no non-linear operation acts on a value in the forward slice of the stack (kernels, filters and normalisers derive from the probe only)",
                 "", mod.line(rec), fail_detail=f"{[unparse(c)[:40] for _, c in bad]}")
    ff_defs = [unparse(n.value) for n in ast.walk(ker) if isinstance(n, ast.Assign) and dotted(n.targets[0]) == "fourier_factor"]
    want = {"-1j * vbf_fourier * gamma.conj()", "fourier_factor / abs_gamma.clip(1e-08)", "vbf_fourier * operator"}
    check.decide(set(ff_defs) == want, "C04-R2", "_return_kernel_contributions: every kernel is (stack spectrum) × (probe-derived factor)", str(ff_defs), mod.line(ker),
                 fail_detail=f"kernel products are {ff_defs}")
    fin = [n for n in walk_no_nested_defs(rec) if isinstance(n, ast.Assign) and dotted(n.targets[0]) == "self.corrected_stack"]
    if not fin:
        # storing the private field directly is equivalent as long as the public setter does nothing but validate and store: if it also resets derived state
        # (a cached sum, …) the direct store leaves that state stale — results then depend on the call history of the object
        priv = [n for n in walk_no_nested_defs(rec) if isinstance(n, ast.Assign) and dotted(n.targets[0]) == "self._corrected_stack"]
        if priv:
            _sm, setter = repo.func(f"{DP}:DirectPtychography.corrected_stack@setter")
            side = [unparse(t) for n in ast.walk(setter) if isinstance(n, ast.Assign) for t in n.targets if isinstance(t, ast.Attribute) and dotted(t.value) == "self" and t.attr != "_corrected_stack"]
            side += [unparse(n)[:40] for n in ast.walk(setter) if isinstance(n, ast.Delete)]
            if side:
                check.violated("C04-R2", "reconstruct: result = Re(inverse transform) / total aperture weight of the selected mask",
                               f"reconstruct stores `self._corrected_stack` directly while the `corrected_stack` setter also resets {side}: the derived value survives a second "
                               f"reconstruct() on the same object — what is read back depends on the call history, not only on stack, mask and hyper-parameters", mod.line(priv[0]), definite=True)
            fin = priv
    ok = len(fin) == 1 and unparse(fin[0].value) == "fourier_factor.real / BF_weights"
    check.decide(ok, "C04-R2", "reconstruct: result = Re(inverse transform) / total aperture weight of the selected mask", unparse(fin[0].value) if fin else "", mod.line(fin[0] if fin else rec),
                 fail_detail=f"corrected_stack = `{unparse(fin[0].value) if fin else '?'}`")
    # mean subtraction = per-image DC zeroing
    dc = [n for n in ast.walk(pre) if isinstance(n, (ast.Assign, ast.AugAssign)) and unparse(n.targets[0] if isinstance(n, ast.Assign) else n.target) == "self._vbf_fourier[..., 0, 0]"]
    ok = len(dc) == 1 and isinstance(dc[0], ast.Assign) and is_const(dc[0].value, 0)
    check.decide(ok, "C04-R5", "_preprocess: every image's own mean is removed (its DC Fourier coefficient is set to 0)", unparse(dc[0]) if dc else "", mod.line(dc[0] if dc else pre),
                 fail_detail=f"`{unparse(dc[0]) if dc else '?'}`: removing anything but each image's own DC (e.g. the stack-average DC) leaves a residual mean — the "
                             f"zero-aberration parallax result is no longer the sum of the mean-subtracted images")
    vf = [unparse(n.value) for n in ast.walk(pre) if isinstance(n, ast.Assign) and dotted(n.targets[0]) == "self._vbf_fourier"]
    check.decide(vf == ["torch.fft.fft2(self.vbf_stack, dim=(-2, -1))"], "C04-R2", "_preprocess: the stack spectrum is the 2-D FFT of each image", str(vf), mod.line(pre), fail_detail=str(vf))

    # ---- R3 kernel tables ----------------------------------------------------------------------------------------------
    al = next((n.value for n in ast.walk(nk) if isinstance(n, ast.Assign) and dotted(n.targets[0]) == "aliases"), None)
    if al is None:
        raise AnalysisError("_normalize_kernel_name: alias table not found")
    aliases = ast.literal_eval(al)
    canon = set(aliases.values())
    check.decide(all(aliases.get(c) == c for c in canon), "C04-R3", "kernel aliases: every canonical name maps to itself", str(sorted(canon)), mod.line(al),
                 fail_detail="a canonical kernel name is missing from (or remapped by) the alias table")
    dispatched = set()
    chain = next((n for n in ker.body if isinstance(n, ast.If) and "deconvolution_kernel" in unparse(n.test)), None)
    cur = chain
    n_else = 0
    while cur is not None:
        t = cur.test
        vals = ast.literal_eval(t.comparators[0]) if isinstance(t, ast.Compare) else ()
        dispatched |= set(vals) if isinstance(vals, tuple) else {vals}
        if len(cur.orelse) == 1 and isinstance(cur.orelse[0], ast.If):
            cur = cur.orelse[0]
        else:
            n_else = 1 if cur.orelse else 0
            cur = None
    implicit = canon - dispatched
    check.decide(dispatched <= canon and len(implicit) == n_else == 1, "C04-R3", "kernel dispatch: explicit arms ∪ exactly one implicit else = canonical kernel names",
                 f"explicit {sorted(dispatched)}, else → {sorted(implicit)}", mod.line(chain),
                 fail_detail=f"canonical {sorted(canon)}, dispatched {sorted(dispatched)}, implicit {sorted(implicit)}")
    pk = next((ast.literal_eval(n.value) for n in ast.walk(perm) if isinstance(n, ast.Assign) and dotted(n.targets[0]) == "kernels"), None)
    check.decide(pk is not None and set(pk) == canon and len(pk) == len(canon), "C04-R3", "_reconstruct_all_permutations covers exactly the canonical kernels", str(pk), mod.line(perm),
                 fail_detail=f"permutation list {pk} vs canonical {sorted(canon)}")
    two_pass = set()
    for n in walk_no_nested_defs(rec):
        if isinstance(n, ast.If) and isinstance(n.test, ast.Compare) and unparse(n.test.left) == "deconvolution_kernel" and isinstance(n.test.ops[0], ast.In):
            if any(isinstance(s, ast.Assign) and dotted(s.targets[0]) == "power" for s in n.body):
                two_pass = set(ast.literal_eval(n.test.comparators[0]))
    # kernels for which the contribution function returns a power
    with_power = set()
    outer = next((n for n in ker.body if isinstance(n, ast.If) and "'ssb'" in unparse(n.test)), None)
    if outer is not None:
        grp = set(ast.literal_eval(outer.test.comparators[0]))
        inner = next((n for n in ast.walk(outer) if isinstance(n, ast.If) and n is not outer and "deconvolution_kernel ==" in unparse(n.test)), None)
        if inner is not None and any(isinstance(s, ast.Assign) and dotted(s.targets[0]) == "power" for s in inner.orelse):
            with_power = grp - {ast.literal_eval(inner.test.comparators[0])}
    check.decide(two_pass == with_power and bool(two_pass), "C04-R3", "two-pass kernels in reconstruct = kernels whose contribution returns a power", f"{sorted(two_pass)}", mod.line(rec),
                 fail_detail=f"reconstruct allocates the accumulator for {sorted(two_pass)}, the kernel function returns a power for {sorted(with_power)}")
    nd = [n for n in ast.walk(rec) if isinstance(n, ast.If) and "deconvolution_kernel ==" in unparse(n.test) and any(isinstance(s, ast.Assign) and dotted(s.targets[0]) == "norm" for s in n.body)]
    norm_k = set()
    cur = nd[0] if nd else None
    while cur is not None:
        norm_k.add(ast.literal_eval(cur.test.comparators[0]))
        cur = cur.orelse[0] if len(cur.orelse) == 1 and isinstance(cur.orelse[0], ast.If) else None
    check.decide(norm_k == two_pass, "C04-R3", "reconstruct: a normaliser is defined for every two-pass kernel", str(sorted(norm_k)), mod.line(rec),
                 fail_detail=f"norm defined for {sorted(norm_k)}, two-pass kernels {sorted(two_pass)}")

    # ---- R4 sub-mask consistency ---------------------------------------------------------------------------------------------
    bw = [d for d in definitions(rec, "BF_weights") if isinstance(d, ast.AST)]
    ok = len(bw) == 1 and unparse(bw[0]) == "cmplx_probe_k[bf_mask].abs().square().sum()"
    check.decide(ok, "C04-R4", "reconstruct: total aperture weight = Σ |probe|² over the SAME (sub-)mask that selects the contributions", unparse(bw[0]) if bw else "", mod.line(bw[0] if bw else rec),
                 fail_detail=f"BF_weights = `{unparse(bw[0]) if bw else '?'}`")
    ctx_line = next((n.lineno for n in walk_no_nested_defs(rec) if isinstance(n, ast.Assign) and "_return_bf_context" in unparse(n.value)), None)
    if ctx_line is None:
        raise AnalysisError("reconstruct: bright-field context construction not found")
    rebound = any(isinstance(n, ast.Assign) and dotted(n.targets[0]) == "bf_mask" and unparse(n.value) == "bf.bf_mask" for n in walk_no_nested_defs(rec))
    stale = [n for n in walk_no_nested_defs(rec) if isinstance(n, ast.Subscript) and unparse(n.slice) == "self.bf_mask" and n.lineno > ctx_line]
    check.decide(rebound and not stale, "C04-R4", "reconstruct: after the context is built every mask-indexed quantity uses the local sub-mask", "", mod.line(rec),
                 fail_detail=f"{[unparse(n) for n in stale]} are indexed with the construction mask self.bf_mask while the batch indices are local to the "
                             f"sub-mask: each image is paired with the quantity of a different detector pixel")
    masked = sorted({unparse(n) for n in walk_no_nested_defs(rec) if isinstance(n, ast.Subscript) and unparse(n.slice) == "bf_mask"})
    check.floor("sub-mask indexed quantities", len(masked), 3)
    ct = unparse(ctx)
    ok = "vbf_index_mapping = torch.where(bf_mask[self.bf_mask])[0]" in ct and "(bf_inds_i, bf_inds_j) = torch.nonzero(bf_mask, as_tuple=True)" in ct.replace("bf_inds_i, bf_inds_j = ", "(bf_inds_i, bf_inds_j) = ")
    check.decide(ok, "C04-R4", "_return_bf_context: stack rows are found by restricting the sub-mask to the construction mask (row-major order on both sides)", "", mod.line(ctx),
                 fail_detail="the sub-mask → stack-row mapping is not torch.where(bf_mask[self.bf_mask])[0] with pixel coordinates from torch.nonzero(bf_mask)")

    # ---- R5 parallax consistency ---------------------------------------------------------------------------------------------
    def grad_sig(fn):
        c = [x for x in calls_in(fn) if call_name(x) == "aberration_surface_cartesian_gradients"]
        g = [d for d in definitions(fn, "grad_k") if isinstance(d, ast.AST) and "stack" in unparse(d)]
        return ([unparse(a) for a in c[0].args] + [f"{k.arg}={unparse(k.value)}" for k in c[0].keywords] if c else None,
                unparse(g[0]) if g else None)
    s_rec, s_lat = grad_sig(rec), grad_sig(lat)
    check.decide(s_rec == s_lat and s_rec[0] is not None, "C04-R5", "parallax operator and reported lateral shifts use the same gradient call, (x, y) stacking and mask", str(s_rec), mod.line(lat),
                 fail_detail=f"reconstruct: {s_rec}; _return_lateral_shifts: {s_lat}")
    ls = [unparse(d) for d in definitions(lat, "lateral_shifts") if isinstance(d, ast.AST)]
    check.decide(ls == ["grad_k / 2 / np.pi"], "C04-R5", "_return_lateral_shifts: shift = gradient / 2π (the phase ramp exp(−i·∇χ·q) translates by ∇χ/2π)", str(ls), mod.line(lat),
                 fail_detail=str(ls))
    op = [unparse(d) for d in definitions(ker, "operator") if isinstance(d, ast.AST)]
    check.decide("torch.exp(-1j * grad_kq) * sign_sin_chi_q" in op, "C04-R5", "parallax kernel: unit-modulus translation ramp × the optional CTF sign", str(op), mod.line(ker),
                 fail_detail=str(op))
    ss = [unparse(d) for d in definitions(rec, "sign_sin_chi_q") if isinstance(d, ast.AST)]
    check.decide("torch.ones_like(q)" in ss and "torch.sign(torch.sin(chi_q))" in ss, "C04-R5", "reconstruct: without phase flipping the CTF sign factor is identically one", str(ss), mod.line(rec),
                 fail_detail=str(ss))

    # ---- R6 hyper-parameters are selected by `is None`, never by truthiness -------------------------------------------------
    from ..domains.optnum import optional_numeric_names, truthiness_uses
    dmod = repo.module(DP)
    n_opt = 0
    for cls in [n for n in dmod.tree.body if isinstance(n, ast.ClassDef)]:
        for fn in [n for n in cls.body if isinstance(n, (ast.FunctionDef, ast.AsyncFunctionDef))]:
            ps, fs = optional_numeric_names(cls, fn)
            used_fields = {x.attr for x in ast.walk(fn) if isinstance(x, ast.Attribute) and isinstance(x.value, ast.Name) and x.value.id == "self" and x.attr in fs}
            if not ps and not used_fields:
                continue
            n_opt += len(ps) + len(used_fields)
            bad = truthiness_uses(cls, fn)
            check.decide(not bad, "C04-R6", f"{cls.name}.{fn.name}: optional numeric hyper-parameters ({', '.join(sorted(ps | {'self.' + f for f in used_fields}))}) are tested with `is None`", "",
                         mod.line(bad[0][0]) if bad else mod.line(fn), definite=True,
                         fail_detail="; ".join(f"`{unparse(n_)[:70]}` uses {nm} as a truth value" for n_, nm in bad[:3]) +
                                     ": an explicit 0 / 0.0 (e.g. a rotation override of exactly 0) is treated as 'not given' and another value is used — the result is no longer a "
                                     "function of the stated hyper-parameters")
    check.floor("optional numeric hyper-parameters examined", n_opt, 6)

    # ---- R7 bright-field crop window is inclusive of the outermost mask pixel -------------------------------------------------
    from ..domains.algnf import NotArithmetic, Rat, from_ast
    umod, crop = repo.func(f"{DP.replace('direct_ptychography', 'direct_ptycho_utils')}:_crop_corner_centered_mask")
    check.analysed(f"{DP.replace('direct_ptychography', 'direct_ptycho_utils')}:_crop_corner_centered_mask")
    pad_param = func_params(crop)[1]
    subs = [n for n in ast.walk(crop) if isinstance(n, ast.Subscript) and isinstance(n.slice, ast.Tuple) and len(n.slice.elts) == 2
            and all(isinstance(e, ast.Slice) and e.lower is not None and e.upper is not None for e in n.slice.elts)]
    if len(subs) != 1:
        raise AnalysisError("_crop_corner_centered_mask: the 2-D crop `m[y0:y1, x0:x1]` was not found")
    coords = [d for d in walk_no_nested_defs(crop) if isinstance(d, ast.Assign) and isinstance(d.value, ast.Call) and (call_name(d.value) or "").endswith("where")
              and isinstance(d.targets[0], ast.Tuple) and len(d.targets[0].elts) == 2]
    if len(coords) != 1:
        raise AnalysisError("_crop_corner_centered_mask: `rows, cols = torch.where(mask)` not found")
    cnames = [t.id for t in coords[0].targets[0].elts]

    def resolve(e, depth=0):
        if isinstance(e, ast.Name) and depth < 4:
            dd = [d for d in definitions(crop, e.id) if isinstance(d, ast.AST)]
            if len(dd) == 1:
                return resolve(dd[0], depth + 1)
        return e

    def atom(e):
        if isinstance(e, ast.Call) and isinstance(e.func, ast.Attribute) and e.func.attr in ("min", "max") and isinstance(e.func.value, ast.Name) and not e.args:
            return f"{e.func.attr}[{cnames.index(e.func.value.id) if e.func.value.id in cnames else e.func.value.id}]"
        return None
    for ax, sl in enumerate(subs[0].slice.elts):
        try:
            env = {}
            lo = from_ast(_inline(crop, sl.lower), env, atom)
            hi = from_ast(_inline(crop, sl.upper), env, atom)
            want = Rat.sym(f"max[{ax}]") - Rat.sym(f"min[{ax}]") + Rat.const(2) * Rat.sym(pad_param) + Rat.const(1)
            ok = (hi - lo).equals(want)
            got = f"{unparse(_inline(crop, sl.upper))} − ({unparse(_inline(crop, sl.lower))})"
        except NotArithmetic as exc:
            raise AnalysisError(f"_crop_corner_centered_mask: crop bound not arithmetic: {exc}")
        check.decide(ok, "C04-R7", f"_crop_corner_centered_mask: axis {ax} keeps max − min + 1 mask rows plus the padding on both sides (exclusive stop = max + pad + 1)", got,
                     umod.line(subs[0]), fail_detail=f"window extent is {got}: the outermost bright-field row/column is cut (or the wrong axis' extrema are used), so fewer mask pixels "
                                                      f"than virtual images remain and the stack rows are paired with the wrong detector pixels")


def _inline(fn, e: ast.AST, depth: int = 0) -> ast.AST:
    """Expression with single-definition locals substituted (fresh nodes; repository nodes are not modified)."""
    class T(ast.NodeTransformer):
        def visit_Name(self, n):
            if depth >= 4:
                return n
            dd = [d for d in definitions(fn, n.id) if isinstance(d, ast.AST)]
            if len(dd) == 1:
                return _inline(fn, dd[0], depth + 1)
            return n
    return T().visit(ast.parse(unparse(e), mode="eval").body)


def _rule_state_accessors(check, repo: Repo) -> None:
    """C04-R11 — the hyper-parameter accessors build their result in a dict of their own: a working dict that may be the stored
    `initial_aberrations` / `optimized_aberrations` object itself must not be modified (an override given to one reconstruct() call would
    otherwise persist into every later call — the same object, the same arguments, a different image)."""
    from ..core.cfg import CFG
    mod, cls = repo.cls(f"{DP}:HyperparameterState")
    MUT = {"update", "pop", "setdefault", "clear", "popitem", "__setitem__"}
    n = 0
    for fn in [f for f in cls.body if isinstance(f, ast.FunctionDef)]:
        muts = []
        for c in calls_in(fn):
            if isinstance(c.func, ast.Attribute) and c.func.attr in MUT and isinstance(c.func.value, ast.Name):
                muts.append((c.func.value.id, c))
        for x in ast.walk(fn):
            if isinstance(x, (ast.Assign, ast.AugAssign)):
                for t in (x.targets if isinstance(x, ast.Assign) else [x.target]):
                    if isinstance(t, ast.Subscript) and isinstance(t.value, ast.Name):
                        muts.append((t.value.id, x))
        if not muts:
            continue
        cfg = CFG(fn)
        for name, site in muts:
            if name in func_params(fn) and not definitions(fn, name):
                continue
            defs = [d for d in definitions(fn, name) if isinstance(d, ast.AST)]
            if not defs:
                continue
            n += 1

            def may_alias(e):
                if isinstance(e, ast.Attribute) and dotted(e.value) == "self":
                    return True
                if isinstance(e, ast.IfExp):
                    return may_alias(e.body) or may_alias(e.orelse)
                if isinstance(e, ast.BoolOp):
                    return any(may_alias(v) for v in e.values)
                if isinstance(e, ast.Name) and e.id != name:
                    return any(may_alias(d) for d in definitions(fn, e.id) if isinstance(d, ast.AST))
                return False
            alias_defs = [d for d in defs if may_alias(d)]
            site_nodes = cfg.node_containing(site)
            bad = None
            for d in alias_defs:
                dn = cfg.node_containing(d)
                others = [m for o in defs if o is not d for m in cfg.node_containing(o)]
                if dn and site_nodes and any(sn in cfg.reachable_from(dn[0], avoid=others) for sn in site_nodes):
                    bad = d
                    break
            check.decide(bad is None, "C04-R11", f"HyperparameterState.{fn.name}: `{name}` is a dict of its own when `{unparse(site)[:40]}` modifies it", "", mod.line(site), definite=True,
                         fail_detail=f"`{name} = {unparse(bad)[:50] if bad is not None else ''}` can reach `{unparse(site)[:50]}` without an intervening copy: the stored hyper-parameter dict "
                                     f"itself is modified, so an override passed to one call leaks into all later calls on the same object (history-dependent reconstructions)")
    check.floor("HyperparameterState: modified working dicts", n, 1)


MANIFEST = {
    "text": "Decides the structural conditions of batch invariance and linearity for every kernel, mask and batch size: in the "
            "per-batch region (both batcher loops and the kernel function) every reduction keeps the batch axis or is the plain "
            "sum(0) whose value is added UNSCALED to the one additive accumulator; reads and the scatter use the same batch index "
            "(through the sub-mask mapping), both passes iterate one batcher, and the normaliser is computed once from the "
            "accumulated power and the global aperture weight; no non-linear operation touches a value in the forward slice of "
            "the stack and every kernel is (stack spectrum) × (probe-derived factor); alias table, dispatch arms, two-pass set, "
            "normaliser arms and the permutation list agree; BF weights, gradients and probe values are indexed with the local "
            "sub-mask; DC removal is per-image zeroing; parallax operator and reported shifts share one gradient call.",
    "note": "Not decided: the analytic equalities themselves (sum of shifted images) and numerical tolerance; correctness of "
            "gamma_factor's physics. The inventory is closed over the listed functions; a reduction spelled in an unknown way is "
            "classified by its name/dims only.",
    "technique": "reduction/data-flow inventory of the per-batch region (batch-role targeted form) + table agreement (AST)",
}
MANIFEST["text"] += ' Also: optional numeric hyper-parameters are never used as truth values (R6: an explicit 0 is a value); the bright-field crop window is inclusive of the outermost mask pixel, extent = max − min + 2·pad + 1 per axis (R7, algebraic normal form).'
MANIFEST["text"] += " R10: _passively_rotate_grid is executed symbolically (tuple assignment = simultaneous) and its result compared, as rational normal forms, with a rotation: |k'|² = (cos²+sin²)|k|² and k' = R(−angle)k."
MANIFEST["text"] += " R11: the hyper-parameter accessors modify only dicts of their own (CFG reaching definitions: no stored dict reaches an in-place update); R1 also evaluates extra SimpleBatcher options passed by reconstruct against the arms of SimpleBatcher.__iter__ they select (an arm that fills a batch with already delivered indices breaks the partition)."
MANIFEST["text"] += ' R1 pass 2 accepts a slab view only when SimpleBatcher yields unit-stride slices; R2 accepts a direct store of the result only while the corrected_stack setter has no other side effect.'
