"""C19 — configuration store: protocol, validate-before-store, canonical names, device path,
refresh/defaults structure (E3)."""
from __future__ import annotations

import ast

from ..core.cfg import CFG
from ..core.repo import (AnalysisError, Repo, call_name, calls_in, definitions, dotted, func_params, is_const,
                         kwarg, names_in, unparse, walk_no_nested_defs, enclosing_stmt)

CFGMOD = "quantem.core.config"

EXPLANATION = (
    "structural rules on quantem.core.config: context-manager protocol with a rollback record filled "
    "by every assignment; every store of user-provided values is dominated by check_key_val; every "
    "index by a user key uses canonical_name of the mapping actually indexed; every returning path "
    "for key 'device' passes validate_device; refresh = clear, replay all defaults in order, collect"
)


def _call_nodes(cfg: CFG, pred) -> list[int]:
    out = []
    for n in cfg.nodes:
        exprs = []
        if n.kind == "stmt" and not isinstance(n.stmt, (ast.FunctionDef, ast.ClassDef)):
            exprs = [n.stmt]
        elif n.kind in ("test", "iter") and n.expr is not None:
            exprs = [n.expr]
        elif n.kind == "with":
            exprs = [it.context_expr for it in n.stmt.items]
        for e in exprs:
            if any(isinstance(c, ast.Call) and pred(c) for c in ast.walk(e)):
                out.append(n.id)
                break
    return out


def run(check, repo: Repo) -> None:
    mod = repo.module(CFGMOD)
    _, set_cls = repo.cls(f"{CFGMOD}:set")
    check.analysed(f"{CFGMOD}:set.__init__", f"{CFGMOD}:set._assign", f"{CFGMOD}:refresh",
                   f"{CFGMOD}:get", f"{CFGMOD}:update_defaults", f"{CFGMOD}:update",
                   f"{CFGMOD}:canonical_name", f"{CFGMOD}:check_key_val", f"{CFGMOD}:merge")

    # ---- R1 context-manager protocol --------------------------------------------------------
    methods = {d.name: d for d in set_cls.body if isinstance(d, ast.FunctionDef)}
    has_enter, has_exit = "__enter__" in methods, "__exit__" in methods
    check.decide(not has_enter or has_exit, "C19-R1", "config.set: __enter__ ⇒ __exit__",
                 f"__enter__={has_enter} __exit__={has_exit}", mod.line(set_cls),
                 fail_detail="set defines __enter__ but no __exit__: `with config.set(...)` raises TypeError "
                             "after the values were already changed, and nothing is restored")
    _, assign = repo.func(f"{CFGMOD}:set._assign")
    dparam = [a.arg for a in assign.args.args][3] if len(assign.args.args) > 3 else None
    if dparam is None:
        raise AnalysisError("set._assign: unexpected signature")
    acfg = CFG(assign)
    appends = _call_nodes(acfg, lambda c: (call_name(c) or "") in ("self._record.append", "self._record.extend", "self._record.insert"))
    stores = [n.id for n in acfg.nodes if n.kind == "stmt" and isinstance(n.stmt, ast.Assign)
              and any(isinstance(t, ast.Subscript) and dotted(t.value) == dparam for t in n.stmt.targets)]
    check.floor("_assign: stores into the mapping", len(stores), 2)
    if has_exit:
        ex = methods["__exit__"]
        reads_record = any(dotted(n) == "self._record" for n in ast.walk(ex))
        writes_cfg = "self.config" in {dotted(n) for n in ast.walk(ex) if isinstance(n, ast.Attribute)}
        check.decide(reads_record and writes_cfg, "C19-R1", "config.set.__exit__ replays the record into the config",
                     "", mod.line(ex),
                     fail_detail="__exit__ does not iterate self._record and write back into self.config")
        for s in stores:
            ok = any(s in acfg.reachable_from(a) for a in appends)
            check.decide(ok, "C19-R1", f"config.set._assign: store `{unparse(acfg.nodes[s].stmt)[:40]}` is recorded for rollback",
                         "", mod.line(acfg.nodes[s].stmt),
                         fail_detail="no self._record.append(...) reaches this store: the assignment cannot be undone on exit")
        # the record must be reversed on exit (later assignments undone first)
        rev = any(isinstance(c, ast.Call) and call_name(c) == "reversed" and c.args and dotted(c.args[0]) == "self._record"
                  for c in ast.walk(ex)) or any(
            isinstance(n, ast.Subscript) and dotted(n.value) == "self._record" and isinstance(n.slice, ast.Slice)
            and n.slice.step is not None and unparse(n.slice.step) == "-1" for n in ast.walk(ex)) or any(
            (call_name(c) or "") in ("self._record.pop", "self._record.reverse") for c in calls_in(ex))
        check.decide(rev, "C19-R1", "config.set.__exit__ undoes assignments in reverse order", "", mod.line(ex),
                     fail_detail="the record is replayed in forward order: when one key is set twice (or a parent "
                                 "then a child) the older value is lost")

    # the rollback log is per set(...) object: a class-level list (not replaced in __init__) is shared by every instance, so the __exit__ of one
    # context manager replays the records of earlier plain set() calls and of enclosing blocks
    from ..domains.memo import memo_findings
    cmod = repo.module(CFGMOD)
    cfns = []
    for st_ in cmod.tree.body:
        if isinstance(st_, ast.FunctionDef):
            cfns.append((st_.name, st_, None))
        elif isinstance(st_, ast.ClassDef):
            cfns += [(f"{st_.name}.{f.name}", f, st_.name) for f in st_.body if isinstance(f, ast.FunctionDef)]
    shared, _n = memo_findings(cmod.tree, [x for x in cfns if x[2] == "set"])
    check.decide(not shared, "C19-R1", "config.set: the rollback record belongs to the instance (no class-level list shared between set(...) objects)", "", mod.line(set_cls),
                 fail_detail=(shared[0][2] if shared else "") + ": plain set() calls leave records behind and the __exit__ of any later `with set(...)` reverts them — last-writer-wins and "
                             "'restore only the previous values' are both broken")

    # ---- R2 validate before store -----------------------------------------------------------
    n_sites = 0
    _, init = repo.func(f"{CFGMOD}:set.__init__")
    icfg = CFG(init)
    for n in icfg.nodes:
        if n.kind != "stmt":
            continue
        for c in ast.walk(n.stmt):
            if isinstance(c, ast.Call) and (call_name(c) or "") == "self._assign":
                n_sites += 1
                ok = _validated_before(icfg, n.id, c, key_arg=c.args[0] if c.args else None,
                                       val_arg=c.args[1] if len(c.args) > 1 else None)
                check.decide(ok, "C19-R2", f"set.__init__: `{unparse(c)[:50]}` stores check_key_val's result",
                             "", mod.line(c),
                             fail_detail="the key/value handed to _assign are not the ones returned by a dominating "
                                         "check_key_val call: an invalid (e.g. device) value can be stored")
    _, upd = repo.func(f"{CFGMOD}:update")
    ucfg = CFG(upd)
    oldp = upd.args.args[0].arg
    for n in ucfg.nodes:
        if n.kind == "stmt" and isinstance(n.stmt, ast.Assign):
            for t in n.stmt.targets:
                if isinstance(t, ast.Subscript) and dotted(t.value) == oldp:
                    n_sites += 1
                    ok = _validated_before(ucfg, n.id, None, key_arg=t.slice,
                                           val_arg=n.stmt.value if not isinstance(n.stmt.value, ast.Dict) else None)
                    check.decide(ok, "C19-R2", f"update: `{unparse(n.stmt)[:40]}` stores check_key_val's result",
                                 "", mod.line(n.stmt),
                                 fail_detail="a value is stored into the mapping without having passed check_key_val")
    _, updd = repo.func(f"{CFGMOD}:update_defaults")
    dcfg = CFG(updd)
    newp = updd.args.args[0].arg
    publish = _call_nodes(dcfg, lambda c: ((call_name(c) or "").endswith(".append") and c.args and dotted(c.args[0]) == newp)
                          or (call_name(c) == "update" and len(c.args) > 1 and dotted(c.args[1]) == newp))
    check.floor("update_defaults: publication sites", len(publish), 2)
    val_loops = [n.id for n in dcfg.nodes if n.kind == "iter" and newp in names_in(n.expr)
                 and any(call_name(c) == "check_key_val" for c in calls_in(ast.Module(body=n.stmt.body, type_ignores=[])))]
    for p in publish:
        n_sites += 1
        ok = any(dcfg.dominates(v, p) for v in val_loops)
        st = dcfg.nodes[p].stmt
        check.decide(ok, "C19-R2", f"update_defaults: `{unparse(st)[:50]}` happens after every entry was validated",
                     "", mod.line(st),
                     fail_detail="the new defaults are published (appended to the defaults stack / merged into the "
                                 "config) before all their entries passed check_key_val: a rejected device leaves "
                                 "partially applied values and a poisoned defaults stack behind")
    check.floor("validate-before-store sites", n_sites, 6)

    # ---- R6 nested tables are rebuilt, never shared --------------------------------------------
    # (refresh restores the defaults only if setting a deep key cannot write into the stored defaults)
    vname = None
    for n in ucfg.nodes:
        if n.kind == "iter" and isinstance(n.stmt.target, ast.Tuple) and len(n.stmt.target.elts) == 2:
            vname = n.stmt.target.elts[1].id if isinstance(n.stmt.target.elts[1], ast.Name) else None
    map_branches = [n.id for n in ucfg.nodes if n.kind == "branch" and n.polarity
                    and isinstance(ucfg.nodes[n.test].expr, ast.Call)
                    and call_name(ucfg.nodes[n.test].expr) == "isinstance"
                    and dotted(ucfg.nodes[n.test].expr.args[0]) == vname
                    and "Mapping" in unparse(ucfg.nodes[n.test].expr.args[1]) + "dict"]
    if not map_branches or vname is None:
        raise AnalysisError("update: Mapping branch not found")
    n_nested = 0
    for n in ucfg.nodes:
        if n.kind == "stmt" and isinstance(n.stmt, ast.Assign) and any(
                isinstance(t, ast.Subscript) and dotted(t.value) == oldp for t in n.stmt.targets):
            if any(ucfg.dominates(b, n.id) for b in map_branches):
                n_nested += 1
                val = n.stmt.value
                shares = vname in names_in(val) and not (isinstance(val, ast.Call) and (call_name(val) or "").endswith("deepcopy"))
                shallow = unparse(val) in (vname, f"dict({vname})", f"{vname}.copy()", f"{{**{vname}}}", f"copy.copy({vname})", f"copy({vname})", f"dict(**{vname})")
                check.decide(not shares, "C19-R6", f"update: nested table `{unparse(n.stmt)[:40]}` is rebuilt, not shared",
                             "", mod.line(n.stmt), definite=shallow,      # a positively recognised alias / shallow copy of the incoming mapping
                             fail_detail=f"a Mapping value is stored as `{unparse(val)}`: deeper tables stay shared with "
                                         f"the source (the stored defaults), so a later set on a deep key writes into the "
                                         f"defaults and refresh no longer restores them")
    recurses = any(call_name(c) == "update" for c in calls_in(upd))
    check.decide(recurses, "C19-R6", "update: recurses into nested mappings (siblings are merged, not replaced)", "",
                 mod.line(upd), fail_detail="update does not recurse: a nested update drops sibling keys")
    check.floor("update: nested-table stores", n_nested, 1)
    # merge(*dicts) — the "current defaults" view update_defaults compares against — must merge nested sections with the module's update(); the
    # dict METHOD of the same name replaces a nested section wholesale, so the view loses the sibling keys of every section a later layer touches
    _, mg = repo.func(f"{CFGMOD}:merge")
    check.analysed(f"{CFGMOD}:merge")
    nested_calls = [c for c in calls_in(mg) if isinstance(c.func, ast.Name) and c.func.id == "update"]
    shallow = [c for c in calls_in(mg) if isinstance(c.func, ast.Attribute) and c.func.attr == "update" and not (isinstance(c.func.value, ast.Name) and c.func.value.id in ("config", "quantem"))]
    check.decide(bool(nested_calls) and not shallow, "C19-R6", "merge: layers are combined with the nested update() (sections are merged key by key)", "", mod.line(mg), definite=bool(shallow),
                 fail_detail=(f"`{unparse(shallow[0])[:50]}` is dict.update: a nested section of a later layer REPLACES the earlier one — the merged defaults lose sibling keys, and "
                              f"update_defaults no longer recognises their live values as 'still at the default'") if shallow else "merge does not call update()")
    # 'new-defaults': a live value is replaced only if the key HAS a current default and still equals it.  defaults.get(k) == old[k] also holds for
    # a key without default whose live value is None — an explicit user None would be overwritten by the next layer
    nd_tests = [n for n in ast.walk(upd) if isinstance(n, ast.BoolOp) and isinstance(n.op, ast.And) and any("'new-defaults'" in unparse(v) for v in n.values)]
    if len(nd_tests) != 1:
        raise AnalysisError(f"update: expected one `priority == 'new-defaults' and …` conjunction, found {len(nd_tests)}")
    conj = nd_tests[0].values
    cmp_ = [v for v in conj if isinstance(v, ast.Compare) and len(v.ops) == 1 and isinstance(v.ops[0], ast.Eq) and "new-defaults" not in unparse(v)]
    member = any(isinstance(v, ast.Compare) and len(v.ops) == 1 and isinstance(v.ops[0], ast.In) and "defaults" in unparse(v.comparators[0]) for v in conj)
    via_get = [x for v in cmp_ for x in ast.walk(v) if isinstance(x, ast.Call) and isinstance(x.func, ast.Attribute) and x.func.attr == "get" and "defaults" in unparse(x.func.value) and len(x.args) < 2]
    if not cmp_:
        raise AnalysisError("update: the comparison of the live value with the current default was not found in the 'new-defaults' conjunction")
    check.decide(member and not via_get, "C19-R6", "update['new-defaults']: the live value is compared with the default only for keys that have one (`k in defaults`)", unparse(nd_tests[0])[:90],
                 mod.line(nd_tests[0]), definite=bool(via_get) and not member,
                 fail_detail=f"`{unparse(cmp_[0])[:60]}` without a membership test: for a key with no current default, .get() yields None and a value the user set to None counts as "
                             f"'still at the default' — the next update_defaults overwrites it (last-writer-wins is broken)")

    # ---- R3 canonical name ------------------------------------------------------------------
    n_can = 0
    for q in ("set._assign", "get", "update"):
        _, fn = repo.func(f"{CFGMOD}:{q}")
        for st in ast.walk(fn):
            if isinstance(st, ast.Assign) and isinstance(st.value, ast.Call) and call_name(st.value) == "canonical_name":
                c = st.value
                if len(c.args) < 2 or not isinstance(st.targets[0], ast.Name):
                    raise AnalysisError(f"{q}: canonical_name call not understood")
                res, mapping = st.targets[0].id, unparse(c.args[1])
                used = [n for n in ast.walk(fn) if isinstance(n, ast.Subscript) and isinstance(n.slice, ast.Name)
                        and n.slice.id == res]
                used += [n for n in ast.walk(fn) if isinstance(n, ast.Compare) and isinstance(n.left, ast.Name)
                         and n.left.id == res and len(n.ops) == 1 and isinstance(n.ops[0], (ast.In, ast.NotIn))]
                if not used:
                    continue
                n_can += 1
                bad = []
                for u in used:
                    m = unparse(u.value) if isinstance(u, ast.Subscript) else unparse(u.comparators[0])
                    if m != mapping and m.startswith("defaults"):
                        continue  # the defaults mirror in update() is a different mapping on purpose
                    if m != mapping:
                        bad.append(f"{m}[{res}]")
                check.decide(not bad, "C19-R3", f"{q}: canonical_name(·, {mapping}) indexes {mapping}",
                             f"{len(used)} uses", mod.line(c),
                             fail_detail=f"the key is canonicalised against `{mapping}` but used on {bad}: the other "
                                         f"'-'/'_' spelling of a nested key creates a duplicate entry")
    check.floor("canonical_name sites", n_can, 3)
    # the rollback record addresses the entry by the SAME (canonical) key the value was stored under
    can = [st for st in ast.walk(assign) if isinstance(st, ast.Assign) and isinstance(st.value, ast.Call) and call_name(st.value) == "canonical_name"
           and isinstance(st.targets[0], ast.Name)]
    if len(can) != 1:
        raise AnalysisError("set._assign: canonical_name assignment not found")
    ckey = can[0].targets[0].id
    rec_paths = set()
    for c in calls_in(assign):
        if (call_name(c) or "") == "self._record.append" and c.args and isinstance(c.args[0], ast.Tuple) and len(c.args[0].elts) >= 2:
            rec_paths.add(unparse(c.args[0].elts[1]))
    if len(rec_paths) != 1:
        raise AnalysisError(f"set._assign: recorded paths {sorted(rec_paths)} not understood")
    pvar = next(iter(rec_paths))
    ext = [d for d in definitions(assign, pvar) if isinstance(d, ast.AST) and isinstance(d, ast.BinOp) and isinstance(d.op, ast.Add)]
    comps = [unparse(e) for d in ext for side in (d.left, d.right) if isinstance(side, ast.Tuple) for e in side.elts]
    check.decide(bool(comps) and all(x == ckey for x in comps), "C19-R3", "set._assign: the rollback path is built from the canonical key the value is stored under",
                 f"{pvar} += ({', '.join(comps)},)", mod.line(can[0]),
                 fail_detail=f"the recorded path is extended with {comps} while the value is stored under `{ckey}` = canonical_name(…): with the other '-'/'_' spelling __exit__ "
                             f"restores the old value under a new alias key and the temporary value stays — the context manager does not restore")

    # ---- R4 device path ---------------------------------------------------------------------
    _, ckv = repo.func(f"{CFGMOD}:check_key_val")
    kcfg = CFG(ckv)
    keyp = ckv.args.args[0].arg
    dev_branches = []
    for n in kcfg.nodes:
        if n.kind == "branch" and n.polarity:
            t = kcfg.nodes[n.test]
            if t.kind == "test" and isinstance(t.expr, ast.Compare) and len(t.expr.ops) == 1 \
                    and isinstance(t.expr.ops[0], ast.Eq) and dotted(t.expr.left) == keyp \
                    and is_const(t.expr.comparators[0], "device"):
                dev_branches.append(n.id)
    if len(dev_branches) != 1:
        raise AnalysisError(f"check_key_val: expected one `{keyp} == 'device'` test, found {len(dev_branches)}")
    vnodes = _call_nodes(kcfg, lambda c: call_name(c) == "validate_device")
    check.floor("check_key_val: validate_device calls", len(vnodes), 1)
    bypass = kcfg.exit in kcfg.reachable_from(dev_branches[0], avoid=vnodes)
    if bypass:
        # name the innermost branch that leads around the validator
        culprit = None
        for n in kcfg.nodes:
            if n.kind == "branch" and kcfg.dominates(dev_branches[0], n.id) and n.id != dev_branches[0]:
                if kcfg.exit in kcfg.reachable_from(n.id, avoid=vnodes):
                    t = kcfg.nodes[n.test]
                    params_ = {a.arg for a in ckv.args.args}
                    shape = ast.parse(unparse(t.expr), mode="eval").body
                    for x in ast.walk(shape):
                        if isinstance(x, ast.Name) and x.id not in params_ and x.id not in ("str", "int", "float", "isinstance", "len"):
                            x.id = "·"  # the key must not depend on how a local is spelled
                    culprit = f"{'' if n.polarity else 'not '}{unparse(shape)}"
                    break
        check.violated("C19-R4", f"check_key_val[key == 'device']: return reachable without validate_device via `{culprit}`",
                       f"on the branch `{culprit}` a device request is accepted without validate_device: "
                       f"malformed requests that satisfy it are stored instead of rejected", mod.line(ckv))
    else:
        check.holds("C19-R4", "check_key_val[key == 'device']: every returning path passes validate_device",
                    where=mod.line(ckv))
    # validate_device must raise on every unknown string
    _, vd = repo.func(f"{CFGMOD}:validate_device")
    vcfg = CFG(vd)
    str_else_raises = False
    for n in ast.walk(vd):
        if isinstance(n, ast.If) and isinstance(n.test, ast.Call) and call_name(n.test) == "isinstance" \
                and len(n.test.args) == 2 and dotted(n.test.args[1]) == "str":
            cur = n.body[0] if n.body and isinstance(n.body[0], ast.If) else None
            while cur is not None and len(cur.orelse) == 1 and isinstance(cur.orelse[0], ast.If):
                cur = cur.orelse[0]
            if cur is not None and cur.orelse and any(isinstance(x, ast.Raise) for x in cur.orelse):
                str_else_raises = True
    check.decide(str_else_raises, "C19-R4", "validate_device: unknown device strings raise", "", mod.line(vd),
                 fail_detail="the string dispatch of validate_device has no raising else-arm")

    # ---- R4b the key that is validated is the key that is stored --------------------------------
    # check_key_val tests `key == 'device'` and returns (key, value).  If the returned key can differ from the tested one (a rename through the deprecation table after
    # the test) an old name that maps to 'device' is stored as 'device' without ever passing validate_device.  Coupled with the table: harmless while nothing maps to it.
    _, ckv = repo.func(f"{CFGMOD}:check_key_val")
    dev_tests = [n for n in ast.walk(ckv) if isinstance(n, ast.If) and any(isinstance(x, ast.Compare) and unparse(x) in ("key == 'device'", "'device' == key") for x in ast.walk(n.test))]
    rets = [r for r in ast.walk(ckv) if isinstance(r, ast.Return) and isinstance(r.value, ast.Tuple) and len(r.value.elts) == 2]
    if dev_tests and rets:
        kcfg = CFG(ckv)
        tnode = min(kcfg.nodes_of(dev_tests[0]) or [0])
        renamed_after = [r for r in rets if not (isinstance(r.value.elts[0], ast.Name) and r.value.elts[0].id == "key")]
        rebinds_after = [n for n in kcfg.nodes if n.kind == "stmt" and isinstance(n.stmt, ast.Assign) and any(dotted(t) == "key" for t in n.stmt.targets) and n.id in kcfg.reachable_from(tnode)]
        try:
            _dm, dep_tab = repo.module_assign(CFGMOD, "deprecations")
            dep_vals = [v.value for v in dep_tab.values if isinstance(v, ast.Constant)] if isinstance(dep_tab, ast.Dict) else None
        except AnalysisError:
            dep_vals = None
        key_ = "check_key_val: the key tested against 'device' is the key that is returned (or no deprecated name maps to 'device')"
        if not renamed_after and not rebinds_after:
            check.holds("C19-R4", key_, "returns the tested key", mod.line(ckv))
        elif dep_vals is None:
            raise AnalysisError("check_key_val renames the key after the device test and the deprecation table is not a literal — not decided")
        elif any(str(v).replace("-", "_") == "device" for v in dep_vals if v):
            check.violated("C19-R4", key_, f"the key is renamed after the `key == 'device'` test (`{unparse((renamed_after or [rets[0]])[0].value.elts[0])[:50]}`) and the deprecation table maps "
                           f"an old name to 'device': a request through the old name is stored as 'device' without validate_device — an unavailable device is accepted",
                           mod.line((renamed_after or rets)[0]), definite=True)
        else:
            check.holds("C19-R4", key_, "renamed after the test, but no deprecated name maps to 'device'", mod.line(ckv))
    else:
        raise AnalysisError("check_key_val: device test / (key, value) return not found")

    # ---- R5 refresh / defaults --------------------------------------------------------------
    _, rf = repo.func(f"{CFGMOD}:refresh")
    rcfg = CFG(rf)
    cfgp, defp = rf.args.args[0].arg, rf.args.args[1].arg
    clear = _call_nodes(rcfg, lambda c: call_name(c) == f"{cfgp}.clear")
    loops = [n for n in rcfg.nodes if n.kind == "iter" and unparse(n.expr) == defp]
    # bulk form: `config.update(merge(*defaults))` (or update(config, merge(*defaults))) — merge() folds the stored defaults left to right into a new dict, which is the
    # replay in order; whether the result shares sub-tables with the stored defaults is R6's question (nested tables rebuilt, not shared)
    def _is_bulk(c):
        a = None
        if call_name(c) == f"{cfgp}.update" and c.args:
            a = c.args[0]
        elif call_name(c) == "update" and len(c.args) >= 2 and dotted(c.args[0]) == cfgp:
            a = c.args[1]
        return isinstance(a, ast.Call) and call_name(a) == "merge" and len(a.args) == 1 and isinstance(a.args[0], ast.Starred) and dotted(a.args[0].value) == defp
    bulk = _call_nodes(rcfg, _is_bulk)
    ok_clear = bool(clear) and ((bool(loops) and all(rcfg.dominates(clear[0], l.id) for l in loops)) or (bool(bulk) and all(rcfg.dominates(clear[0], b) for b in bulk)))
    check.decide(ok_clear, "C19-R5", "refresh: clears the config before replaying defaults", "", mod.line(rf),
                 fail_detail="refresh does not clear the config before the replay (or does not iterate the whole "
                             "defaults list)")
    replay_ok = False
    for l in loops:
        tv = l.stmt.target.id if isinstance(l.stmt.target, ast.Name) else None
        for c in calls_in(ast.Module(body=l.stmt.body, type_ignores=[])):
            if call_name(c) == "update" and len(c.args) >= 2 and dotted(c.args[0]) == cfgp and dotted(c.args[1]) == tv:
                pr = kwarg(c, "priority") or (c.args[2] if len(c.args) > 2 else None)
                if pr is None or is_const(pr, "new"):
                    replay_ok = True
    replay_ok = replay_ok or (bool(bulk) and not loops)
    check.decide(replay_ok, "C19-R5", "refresh: replays every default with priority 'new', in order", "", mod.line(rf),
                 fail_detail="the replay loop does not call update(config, d, priority='new') for each stored default")
    collect_after = False
    for n in _call_nodes(rcfg, lambda c: call_name(c) == "update" and len(c.args) >= 2 and isinstance(c.args[1], ast.Call)
                         and call_name(c.args[1]) == "collect"):
        if bulk and not loops and n in rcfg.reachable_from(bulk[0]):
            collect_after = True
        if loops and n in rcfg.reachable_from(loops[0].id) and not any(n in {x.id for x in rcfg.nodes if x.stmt in ast.walk(l.stmt) and x.id != l.id} for l in []):
            collect_after = True
    check.decide(collect_after, "C19-R5", "refresh: file/env configuration is applied after the defaults", "", mod.line(rf),
                 fail_detail="update(config, collect(...)) does not follow the defaults replay")
    # update_defaults appends to the list it merges
    mer = [c for c in calls_in(updd) if call_name(c) == "merge"]
    app = [c for c in calls_in(updd) if (call_name(c) or "").endswith(".append")]
    ok = bool(mer) and bool(app) and any(isinstance(a, ast.Starred) and dotted(a.value) == dotted(app[0].func.value) for a in mer[0].args)
    # and the merge must be taken BEFORE the append (current defaults exclude the new ones)
    if ok:
        mn = dcfg.node_containing(mer[0])
        an = dcfg.node_containing(app[0])
        ok = bool(mn and an) and dcfg.dominates(mn[0], an[0]) and mn[0] != an[0]
    check.decide(ok, "C19-R5", "update_defaults: merges the existing defaults, then appends to the same list", "",
                 mod.line(updd),
                 fail_detail="update_defaults does not append the new mapping to the list whose merge it uses as the "
                             "'current defaults' (or merges after appending)")
    same_default = unparse(rf.args.defaults[-1]) == unparse(updd.args.defaults[-1]) if rf.args.defaults and updd.args.defaults else False
    check.decide(same_default, "C19-R5", "refresh and update_defaults share the defaults list", "", mod.line(rf),
                 fail_detail="the two functions default to different defaults lists")


def _validated_before(cfg: CFG, node: int, call, key_arg, val_arg) -> bool:
    """The names feeding key_arg / val_arg are (re)bound by a dominating
    `k, v = check_key_val(k, v)` statement."""
    want = set()
    for a in (key_arg, val_arg):
        if a is not None:
            funcs = {id(c.func) for c in ast.walk(a) if isinstance(c, ast.Call)}
            want |= {n.id for n in ast.walk(a) if isinstance(n, ast.Name) and id(n) not in funcs}
    want -= {"self"}
    bound = set()
    for d in cfg.dominators_of(node):
        st = cfg.nodes[d].stmt
        if cfg.nodes[d].kind == "stmt" and isinstance(st, ast.Assign) and isinstance(st.value, ast.Call) \
                and call_name(st.value) == "check_key_val":
            for t in st.targets:
                for n in ast.walk(t):
                    if isinstance(n, ast.Name):
                        bound.add(n.id)
    # the key name may be re-derived from the validated key (k = canonical_name(k, old))
    return bool(want) and want <= bound | {"config", "old", "d"} and bool(want & bound)


MANIFEST = {
    "text": "Decides the structural clauses of the configuration store: set is a complete context manager whose "
            "__exit__ replays, in reverse, a record that every assignment feeds; every store of user-provided values "
            "(set, update, update_defaults incl. the defaults stack) is dominated by check_key_val and stores its "
            "result — so a rejected device leaves the store untouched; canonical_name is applied to the mapping that "
            "is actually indexed (one entry per '-'/'_' spelling at every depth); every returning path for key "
            "'device' passes validate_device; refresh = clear → replay all defaults in order → collect.",
    "note": "Not decided: exact last-writer-wins semantics of nested replacement vs merge (reference-model question), "
            "mixed '-'/'_' spellings inside one key, behaviour of torch device probing. Known finding D10: the "
            "'cpu' substring shortcut bypasses validate_device.",
    "technique": "CFG dominance (validate-before-store, must-pass-through) + protocol and role agreement on the AST",
}
MANIFEST["text"] += ' Also: the rollback path recorded by set._assign is built from the canonical key the value is stored under.'
MANIFEST["text"] += " R6 also: merge() combines layers with the nested update(), not dict.update; the 'new-defaults' arm compares a live value with the default only under `k in defaults` (defaults.get(k) equals an explicit None)."
MANIFEST["text"] += " R4 also: the key tested against 'device' is the key returned, or no deprecated name maps to 'device'; R5 accepts the bulk replay form."
