"""C17 — phase unwrapping: union-find offset invariant, increment semantics, integrality, edge
coverage (E5, E8)."""
from __future__ import annotations

import ast

from ..core.cfg import CFG
from ..core.repo import (AnalysisError, Repo, call_name, calls_in, definitions, dotted, func_params, is_const,
                         kwarg, names_in, unparse, walk_no_nested_defs)
from ..domains.algnf import NotArithmetic, Rat, from_ast

IU = "quantem.core.utils.imaging_utils"
DU = "quantem.diffractive_imaging.direct_ptycho_utils"

EXPLANATION = (
    "the weighted union-find is verified by an inductive invariant decided algebraically: with "
    "inc(n) the sum of offsets on the path to the root, both attach arms of union establish "
    "inc'(x) − inc'(y) = inc_xy while writing only a root's parent/offset, and the two path walks "
    "accumulate the same sum; the increment is the case split on the RAW difference of the very "
    "values the driver corrects; offsets stay integer combinations; edges cover both grid directions "
    "in both boundary modes without crossing rows, are masked by both end points and sorted by the "
    "reliability column; the result is input + 2π·integers − one scalar"
)


def _where_chain(e: ast.AST):
    """torch.where(c1, v1, torch.where(c2, v2, v3)) → [(c1, v1), (c2, v2)], v3"""
    arms = []
    while isinstance(e, ast.Call) and (call_name(e) or "").endswith("where") and len(e.args) == 3:
        arms.append((e.args[0], e.args[1]))
        e = e.args[2]
    return arms, e


def run(check, repo: Repo) -> None:
    mod = repo.module(IU)
    _, fw = repo.func(f"{IU}:_find_wrap")
    _, be = repo.func(f"{IU}:_build_edges")
    # periodic neighbours are taken per axis.  `(p + 1) % (H·W)` on FLATTENED pixel ids is the horizontal neighbour only inside a row: the last column is joined to the
    # first pixel of the NEXT row (a diagonal seam edge).  Positively identified flat arithmetic — decided before anything about the layout of the function.
    def _area(e_, depth=0):
        if isinstance(e_, ast.BinOp) and isinstance(e_.op, ast.Mult) and all(isinstance(x, (ast.Name, ast.Subscript, ast.Attribute)) for x in (e_.left, e_.right)):
            return True
        if isinstance(e_, ast.Call) and (call_name(e_) or "").split(".")[-1] in ("numel", "nelement"):
            return True
        if isinstance(e_, ast.Name) and depth < 2:
            ds_ = [d for d in definitions(be, e_.id) if isinstance(d, ast.AST)]
            return len(ds_) == 1 and _area(ds_[0], depth + 1)
        return False
    for n_ in ast.walk(be):
        if isinstance(n_, ast.BinOp) and isinstance(n_.op, ast.Mod) and _area(n_.right) and isinstance(n_.left, ast.BinOp) and isinstance(n_.left.op, (ast.Add, ast.Sub)) \
                and any(isinstance(x, ast.Constant) and x.value == 1 for x in (n_.left.left, n_.left.right)):
            check.violated("C17-R4", "_build_edges[periodic]: neighbour pairs stay within their row/column",
                           f"`{unparse(n_)[:60]}`: ±1 on the flattened ids modulo the number of pixels joins (r, W−1) to (r+1, 0) — the left/right seam edges are diagonal, and a "
                           f"step through the seam is mis-counted when it exceeds π only together with the vertical step", mod.line(n_), definite=True)
    _, uf_init = repo.func(f"{IU}:UnionFindPhase.__init__")
    _, find = repo.func(f"{IU}:UnionFindPhase.find_root_and_offset")
    _, union = repo.func(f"{IU}:UnionFindPhase.union")
    _, fo = repo.func(f"{IU}:_final_offsets")
    _, drv = repo.func(f"{IU}:_unwrap_phase_2d_torch_reliability_sorting")
    _, pr = repo.func(f"{IU}:_pixel_reliability")
    check.analysed(*(f"{IU}:{q}" for q in ("_wrap_to_pi", "_find_wrap", "_pixel_reliability", "_build_edges", "UnionFindPhase.__init__",
                                           "UnionFindPhase.find_root_and_offset", "UnionFindPhase.union", "_final_offsets",
                                           "_unwrap_phase_2d_torch_reliability_sorting", "unwrap_phase_2d_torch")),
                   f"{DU}:unwrap_bf_overlap_phase_torch")

    # ---- R1 union-find offset invariant --------------------------------------------------------------
    params = [a.arg for a in union.args.args]
    if len(params) != 4:
        raise AnalysisError("union: unexpected signature")
    _, px, py, pinc = params
    roots = {}
    for n in walk_no_nested_defs(union):
        if isinstance(n, ast.Assign) and isinstance(n.targets[0], ast.Tuple) and isinstance(n.value, ast.Call) \
                and (call_name(n.value) or "").endswith("find_root_and_offset") and n.value.args:
            r, o = [e.id for e in n.targets[0].elts]
            roots[unparse(n.value.args[0])] = (r, o)
    if set(roots) != {px, py}:
        raise AnalysisError("union: find_root_and_offset of both arguments not found")
    (rx, ox), (ry, oy) = roots[px], roots[py]
    same = [n for n in walk_no_nested_defs(union) if isinstance(n, ast.If) and unparse(n.test) in (f"{rx} == {ry}", f"{ry} == {rx}") and any(isinstance(s, ast.Return) for s in n.body)]
    check.decide(bool(same), "C17-R1", "union: already-connected nodes are left untouched (no self-attachment)", "", mod.line(union),
                 fail_detail=f"no `if {rx} == {ry}: return` guard: attaching a root to itself destroys the component's offsets")
    env = {}
    for n in walk_no_nested_defs(union):
        if isinstance(n, ast.Assign) and isinstance(n.targets[0], ast.Name) and n.targets[0].id not in (rx, ry, ox, oy):
            try:
                env[n.targets[0].id] = from_ast(n.value, env)
            except NotArithmetic:
                pass
    cfg = CFG(union)
    attach = []  # (attached root, new parent, offset expr, node)
    stores = [n for n in cfg.nodes if n.kind == "stmt" and isinstance(n.stmt, ast.Assign) and isinstance(n.stmt.targets[0], ast.Subscript)]
    for n in stores:
        t = n.stmt.targets[0]
        if unparse(t.value) == "self.parent":
            attach.append({"root": unparse(t.slice), "parent": unparse(n.stmt.value), "node": n})
    check.floor("union: attach arms", len(attach), 2)
    for a in attach:
        # the matching offset store in the same arm
        doms = [d for d in cfg.dominators_of(a["node"].id) if cfg.nodes[d].kind == "branch"]
        off = [n for n in stores if unparse(n.stmt.targets[0].value) == "self.offset"
               and [d for d in cfg.dominators_of(n.id) if cfg.nodes[d].kind == "branch"] == doms]
        arm = f"attach {a['root']} → {a['parent']}"
        ok_root = {a["root"], a["parent"]} == {rx, ry}
        check.decide(ok_root, "C17-R1", f"union[{arm}]: only a ROOT is re-parented, to the other root", "", mod.line(a["node"].stmt),
                     fail_detail=f"parent[{a['root']}] = {a['parent']}: re-parenting a non-root node orphans its subtree's offsets")
        if len(off) != 1 or unparse(off[0].stmt.targets[0].slice) != a["root"]:
            check.violated("C17-R1", f"union[{arm}]: the attached root receives its offset",
                           f"offset stores in this arm: {[unparse(o.stmt) for o in off]}", mod.line(a["node"].stmt))
            continue
        try:
            E = from_ast(off[0].stmt.value, env)
        except NotArithmetic as exc:
            raise AnalysisError(f"union: offset expression not arithmetic: {exc}")
        OX, OY, INC = Rat.sym(ox), Rat.sym(oy), Rat.sym(pinc)
        incx = OX + (E if a["root"] == rx else Rat.const(0))
        incy = OY + (E if a["root"] == ry else Rat.const(0))
        ok = (incx - incy).equals(INC)
        check.decide(ok, "C17-R1", f"union[{arm}]: afterwards inc(x) − inc(y) = inc_xy (offset invariant, any merge order by induction)",
                     f"offset[{a['root']}] = {E}", mod.line(off[0].stmt),
                     fail_detail=f"with offset[{a['root']}] = {E}: inc'(x) − inc'(y) = {incx - incy}, required {pinc} — components merged through this arm "
                                 f"get the wrong 2π multiple")
    # path walks accumulate the same thing
    def walk_sig(fn):
        w = next((n for n in ast.walk(fn) if isinstance(n, ast.While)), None)
        if w is None:
            return None
        pre = "uf" if "uf.parent" in unparse(w) else "self"
        return (unparse(w.test).replace(pre + ".", "·"), [unparse(s).replace(pre + ".", "·") for s in w.body])
    s1, s2 = walk_sig(find), walk_sig(fo)
    want = ("·parent[root] != root", ["total += ·offset[root]", "root = ·parent[root]"])
    check.decide(s1 == s2 == want, "C17-R1", "find_root_and_offset and _final_offsets walk to the root summing the offsets of every non-root node on the path",
                 str(s1), mod.line(find), fail_detail=f"path walks: {s1} vs {s2}")
    rets = [unparse(n.value) for n in ast.walk(find) if isinstance(n, ast.Return)]
    st = {k: [unparse(d) for d in definitions(find, k) if isinstance(d, ast.AST)] for k in ("root", "total")}
    check.decide(rets == ["(root, total)"] and st["root"][0] == "x" and st["total"][0] == "0.0", "C17-R1", "find_root_and_offset starts at the node with sum 0 and returns (root, sum)",
                 "", mod.line(find), fail_detail=f"{st} returns {rets}")
    ft = unparse(fo)
    check.decide("incs[i] = total" in ft and "for i in range(N)" in ft and "root = i" in ft, "C17-R1", "_final_offsets stores the path sum of every node", "", mod.line(fo),
                 fail_detail="_final_offsets does not store total for each i")
    it = unparse(uf_init)
    check.decide("self.parent = torch.arange(n)" in it and "self.offset = torch.zeros(n)" in it, "C17-R1", "UnionFindPhase starts from singletons with zero offsets", "", mod.line(uf_init),
                 fail_detail="initial parent/offset are not arange(n) / zeros(n)")

    # ---- R2 increment semantics -----------------------------------------------------------------------------
    fa, fb = [a.arg for a in fw.args.args][:2]
    r0 = [n.value for n in ast.walk(fw) if isinstance(n, ast.Return)]
    arms0, _ = _where_chain(r0[0]) if r0 else ([], None)
    dvars = {c.left.id for c, _ in arms0 if isinstance(c, ast.Compare) and isinstance(c.left, ast.Name)}
    if len(dvars) != 1:
        raise AnalysisError("_find_wrap: the compared difference variable not found")
    dname = next(iter(dvars))
    d = [x for x in definitions(fw, dname) if isinstance(x, ast.AST)]
    ok = len(d) == 1 and unparse(d[0]) == f"{fa} - {fb}"
    check.decide(ok, "C17-R2", "_find_wrap: the increment is decided on the raw difference a − b", unparse(d[0]) if d else "", mod.line(fw),
                 fail_detail=f"d = `{unparse(d[0]) if d else '?'}`: the driver adds 2π·inc to the raw input values, so the case split must be on their raw "
                             f"difference — wrapping the operands first corrupts already-unwrapped (or exactly ±π) input")
    r = [n.value for n in ast.walk(fw) if isinstance(n, ast.Return)]
    arms, els = _where_chain(r[0]) if r else ([], None)
    got = {unparse(c).replace(dname, "d", 1) if unparse(c).startswith(dname) else unparse(c): unparse(v) for c, v in arms}
    ok = got == {"d > math.pi": "-1", "d < -math.pi": "1"} and els is not None and unparse(els) == "0"
    check.decide(ok, "C17-R2", "_find_wrap: d > π → −1, d < −π → +1, otherwise 0 (a + 2πk − b ∈ [−π, π] on every arm for |d| < 2π)", str(got), mod.line(fw),
                 fail_detail=f"case split is {got} else {unparse(els) if els is not None else '?'}")
    # call site: differences of the same array the driver corrects
    _, ae = repo.func(f"{IU}:_build_edges.add_edges")
    fc = [c for c in calls_in(ae) if call_name(c) == "_find_wrap"]
    ok = len(fc) == 1 and [unparse(a) for a in fc[0].args] == ["phi_f[i1]", "phi_f[i2]"]
    pf = [unparse(x) for x in definitions(be, "phi_f") if isinstance(x, ast.AST)]
    check.decide(ok and pf == ["phi.flatten()"], "C17-R2", "_build_edges: increments are computed between the edge's two end points of the input field, in (i1, i2) order",
                 "", mod.line(ae), fail_detail=f"_find_wrap is called with {[unparse(a) for a in fc[0].args] if fc else '?'} on phi_f = {pf}")
    uc = [c for c in calls_in(drv) if (call_name(c) or "").endswith(".union")]
    def _elem_sources(call):
        """per argument: the array whose k-th element it is (X[k].item(), or a loop target bound by enumerate(X) / zip(X, Y, …) / `for x in X`), all at the same position"""
        from ..core.repo import enclosing
        loop = enclosing(call, (ast.For,))
        if loop is None:
            return None
        bound = {}
        idx = None
        it, tg = loop.iter, loop.target
        if isinstance(it, ast.Call) and call_name(it) == "enumerate" and isinstance(tg, ast.Tuple) and len(tg.elts) == 2 and isinstance(tg.elts[0], ast.Name):
            idx = tg.elts[0].id
            it, tg = it.args[0], tg.elts[1]
        if isinstance(it, ast.Call) and call_name(it) == "zip" and isinstance(tg, ast.Tuple) and len(tg.elts) == len(it.args):
            for t_, a_ in zip(tg.elts, it.args):
                if isinstance(t_, ast.Name):
                    bound[t_.id] = unparse(a_)
        elif isinstance(tg, ast.Name) and isinstance(it, ast.Call) and call_name(it) == "range":
            idx = tg.id
        elif isinstance(tg, ast.Name):
            bound[tg.id] = unparse(it)
        out = []
        for a in call.args:
            while isinstance(a, ast.Call) and isinstance(a.func, ast.Attribute) and a.func.attr in ("item", "long", "int") and not a.args:
                a = a.func.value
            if isinstance(a, ast.Call) and call_name(a) == "int" and len(a.args) == 1:
                a = a.args[0]
            if isinstance(a, ast.Name) and a.id in bound:
                out.append(bound[a.id])
            elif isinstance(a, ast.Subscript) and isinstance(a.slice, ast.Name) and idx is not None and a.slice.id == idx:
                out.append(unparse(a.value))
            else:
                return None
        return out
    srcs = _elem_sources(uc[0]) if len(uc) == 1 else None
    if len(uc) == 1 and srcs is None:
        raise AnalysisError(f"driver: arguments of `{unparse(uc[0])[:70]}` are not recognised as the k-th elements of the edge arrays")
    ok = srcs == ["i1", "i2", "inc"]
    check.decide(ok, "C17-R2", "driver: union(i1, i2, inc) pairs each edge with its own increment in the same orientation", "", mod.line(drv),
                 fail_detail=f"union is called with {[unparse(a) for a in uc[0].args] if uc else '?'}")

    # ---- R3 integrality and output form ------------------------------------------------------------------------
    out = [x for x in definitions(drv, "out") if isinstance(x, ast.AST)]
    ok = bool(out) and unparse(out[0]) == "(phi.flatten() + 2 * math.pi * incs).reshape(H, W)"
    check.decide(ok, "C17-R3", "driver: output = input + 2π · (accumulated integer offsets)", unparse(out[0]) if out else "", mod.line(drv),
                 fail_detail=f"out = `{unparse(out[0]) if out else '?'}`")
    aug = [n for n in ast.walk(drv) if isinstance(n, ast.AugAssign) and dotted(n.target) == "out"]
    ok = len(aug) == 1 and isinstance(aug[0].op, ast.Sub) and unparse(aug[0].value) == "out.mean()"
    check.decide(ok, "C17-R3", "driver: exactly one scalar (the mean) is subtracted", "", mod.line(drv),
                 fail_detail="the constant removed from the result is not the single scalar out.mean()")
    off_sources = set()
    for n in ast.walk(union):
        if isinstance(n, ast.Assign) and isinstance(n.targets[0], ast.Subscript) and unparse(n.targets[0].value) == "self.offset":
            off_sources |= names_in(n.value)
    dl = [x for x in definitions(union, "delta") if isinstance(x, ast.AST)]
    ok = off_sources <= {"delta"} and len(dl) == 1 and names_in(dl[0]) <= {ox, oy, pinc}
    check.decide(ok, "C17-R3", "union: offsets are ± integer combinations of existing offsets and the integer increment", "", mod.line(union),
                 fail_detail=f"offset values derive from {sorted(off_sources)} / delta = {unparse(dl[0]) if dl else '?'}")

    # ---- R4 edge coverage ------------------------------------------------------------------------------------------
    wa = next((n for n in walk_no_nested_defs(be) if isinstance(n, ast.If) and unparse(n.test) == "wrap_around"), None)
    if wa is None:
        raise AnalysisError("_build_edges: wrap_around dispatch not found")

    def edge_calls(body):
        return [c for s in body for c in ast.walk(s) if isinstance(c, ast.Call) and call_name(c) == "add_edges"]

    def ek(e, depth=0):
        """abstract value of an end-point expression: ('grid',) the (H, W) id grid | ('roll', axis, shift) | ('slice', axis, 'lo'|'hi') |
        ('flat', inner) | ('helical', text) for a roll / modular shift of the FLATTENED ids | None"""
        if depth > 6:
            return None
        if isinstance(e, ast.Name):
            dd = [d for d in definitions(be, e.id) if isinstance(d, ast.AST)]
            if len(dd) != 1:
                return None
            d = dd[0]
            if isinstance(d, ast.Call) and isinstance(d.func, ast.Attribute) and d.func.attr in ("reshape", "view") and len(d.args) == 2 \
                    and isinstance(d.func.value, ast.Call) and (call_name(d.func.value) or "").endswith("arange"):
                return ("grid",)
            return ek(d, depth + 1)
        if isinstance(e, ast.Call) and isinstance(e.func, ast.Attribute) and e.func.attr in ("flatten", "ravel") and not e.args:
            inner = ek(e.func.value, depth + 1)
            return ("flat", inner) if inner is not None else None
        if isinstance(e, ast.Call) and isinstance(e.func, ast.Attribute) and e.func.attr in ("reshape", "view") and len(e.args) == 1 and unparse(e.args[0]) in ("-1", "(-1,)"):
            inner = ek(e.func.value, depth + 1)
            return ("flat", inner) if inner is not None else None
        if isinstance(e, ast.Call) and (call_name(e) or "") in ("torch.roll", "np.roll") and len(e.args) >= 2:
            inner = ek(e.args[0], depth + 1)
            dims = kwarg(e, "dims") or kwarg(e, "axis") or (e.args[2] if len(e.args) > 2 else None)
            if inner is not None and inner[0] == "flat":
                return ("helical", unparse(e)[:60])
            if inner == ("grid",) and dims is not None:
                try:
                    return ("roll", int(ast.literal_eval(dims)) % 2, int(ast.literal_eval(e.args[1])))
                except Exception:
                    return None
            if inner == ("grid",) and dims is None:
                return ("helical", unparse(e)[:60])  # roll without dims flattens first
            return None
        if isinstance(e, ast.BinOp) and isinstance(e.op, ast.Mod):
            inner = ek(e.left.left, depth + 1) if isinstance(e.left, ast.BinOp) else None
            if inner is not None and inner[0] == "flat":
                return ("helical", unparse(e)[:60])
            return None
        if isinstance(e, ast.Subscript) and isinstance(e.slice, ast.Slice) and e.slice.step is None:
            base_k = ek(e.value, depth + 1)
            if base_k is not None and base_k[0] == "flat" and base_k[1] == ("grid",):
                lo_, hi_ = e.slice.lower, e.slice.upper
                if lo_ is None and isinstance(hi_, ast.UnaryOp) and isinstance(hi_.op, ast.USub):
                    return ("flat", ("flatslice", "lo", unparse(hi_.operand)))
                if hi_ is None and lo_ is not None:
                    return ("flat", ("flatslice", "hi", unparse(lo_)))
            return None
        if isinstance(e, ast.Subscript) and isinstance(e.slice, ast.Tuple) and len(e.slice.elts) == 2 and ek(e.value, depth + 1) == ("grid",):
            kinds = []
            for x in e.slice.elts:
                if not isinstance(x, ast.Slice) or x.step is not None:
                    return None
                lo, hi = (unparse(x.lower) if x.lower is not None else None), (unparse(x.upper) if x.upper is not None else None)
                kinds.append({(None, None): "all", (None, "-1"): "lo", ("1", None): "hi"}.get((lo, hi)))
            if None in kinds or kinds.count("all") != 1:
                return None
            ax = 0 if kinds[0] != "all" else 1
            return ("slice", ax, kinds[ax])
        return None
    for label, body in (("periodic", wa.body), ("bounded", wa.orelse)):
        ec = edge_calls(body)
        dirs = set()
        bad = []
        for c in ec:
            ka, kb = ek(c.args[0]), ek(c.args[1])
            txt = f"({unparse(c.args[0])[:40]}, {unparse(c.args[1])[:40]})"
            hel = [k for k in (ka, kb) if k is not None and (k[0] == "helical" or (k[0] == "flat" and k[1] is not None and k[1][0] == "helical"))]
            if hel:
                bad.append(f"{txt}: shifting the FLATTENED ids crosses row boundaries — the horizontal seam edge joins (r, W−1) to (r+1, 0) instead of (r, 0)")
                continue
            if ka is None or kb is None or ka[0] != "flat" or kb[0] != "flat":
                raise AnalysisError(f"_build_edges[{label}]: edge pair {txt} not recognised")
            ia, ib = ka[1], kb[1]
            if label == "periodic" and {ia[0], ib[0]} == {"grid", "roll"}:
                r = ia if ia[0] == "roll" else ib
                if abs(r[2]) != 1:
                    bad.append(f"{txt}: neighbours {abs(r[2])} pixels apart")
                    continue
                dirs.add("horizontal" if r[1] == 1 else "vertical")
            elif label == "bounded" and ia[0] == ib[0] == "slice" and ia[1] == ib[1] and {ia[2], ib[2]} == {"lo", "hi"}:
                dirs.add("horizontal" if ia[1] == 1 else "vertical")
            elif ia[0] == ib[0] == "flatslice" and {ia[1], ib[1]} == {"lo", "hi"} and ia[2] == ib[2]:
                # flat[:-k] ↔ flat[k:] pairs id p with id p + k: vertical neighbours iff k is the ROW LENGTH (number of columns)
                from ..core.repo import TupleItem
                kd = [d for d in definitions(be, ia[2])] if ia[2].isidentifier() else []
                which = None
                for d_ in kd:
                    if isinstance(d_, TupleItem) and unparse(d_.value).endswith(".shape"):
                        which = d_.index
                    elif isinstance(d_, ast.Subscript) and unparse(d_.value).endswith(".shape"):
                        which = {"0": 0, "1": 1, "-1": 1, "-2": 0}.get(unparse(d_.slice))
                if ia[2] == "1":
                    bad.append(f"{txt}: shifting the FLATTENED ids by one crosses row boundaries ((r, W−1) is joined to (r+1, 0))")
                elif which == 1:
                    dirs.add("vertical")
                elif which == 0:
                    bad.append(f"{txt}: the flattened ids are shifted by the number of ROWS `{ia[2]}`; the pixel below p is p + (number of columns) — on a non-square grid the "
                               f"linked pixels are not neighbours")
                else:
                    raise AnalysisError(f"_build_edges[{label}]: stride `{ia[2]}` of the flat slice pair {txt} is not a dimension of the grid")
            elif label == "bounded" and {ia[0], ib[0]} == {"grid", "roll"}:
                bad.append(f"{txt}: a roll wraps around — seam edges on a bounded grid")
            elif label == "periodic" and ia[0] == ib[0] == "slice":
                dirs.add(("horizontal" if ia[1] == 1 else "vertical") + " (interior only)")
            else:
                raise AnalysisError(f"_build_edges[{label}]: edge pair {txt} not recognised")
        for b_ in bad:
            check.violated("C17-R4", f"_build_edges[{label}]: neighbour pairs stay within their row/column", b_, mod.line(wa), definite=True)   # abstract evaluation of the pair
        check.decide(dirs == {"horizontal", "vertical"} and not bad, "C17-R4", f"_build_edges[{label}]: both grid directions generate edges between true 4-neighbours", str(sorted(dirs)),
                     mod.line(wa), fail_detail=f"directions covered: {sorted(dirs)}" + (f"; {bad}" if bad else ""), definite=bool(bad))
    idx = [unparse(x) for x in definitions(be, "idx") if isinstance(x, ast.AST)]
    check.decide(idx == ["torch.arange(N).reshape(H, W)"], "C17-R4", "_build_edges: pixel ids are the row-major flat indices of the (H, W) grid", str(idx), mod.line(be), fail_detail=str(idx))
    t = unparse(ae)
    ok = "valid = mask_f[i1] & mask_f[i2]" in t and "i1, i2 = (i1[valid], i2[valid])" in t
    check.decide(ok, "C17-R4", "_build_edges: an edge is kept iff both end points are inside the mask", "", mod.line(ae),
                 fail_detail="the mask filter is not mask_f[i1] & mask_f[i2]")
    ok = "rel = rel_f[i1] + rel_f[i2]" in t and "torch.stack([i1, i2, rel, inc], dim=1)" in t
    bt = unparse(be)
    ok = ok and "edges = edges[edges[:, 2].argsort()]" in bt and "(edges[:, 0].long(), edges[:, 1].long(), edges[:, 3].long())" in bt
    check.decide(ok, "C17-R4", "_build_edges: edges are sorted ascending by the reliability-sum column and (i1, i2, inc) are read from their own columns", "", mod.line(be),
                 fail_detail="column layout / sort key of the edge table is inconsistent")
    rt = unparse(pr)
    ok = "R = torch.where(mask, R, torch.full_like(R, float('inf')))" in rt and "R = Hterm ** 2 + Vterm ** 2 + D1term ** 2 + D2term ** 2" in rt
    check.decide(ok, "C17-R4", "_pixel_reliability: second differences of wrapped neighbours, masked-out pixels least reliable", "", mod.line(pr),
                 fail_detail="reliability is not the sum of squared wrapped second differences with +inf outside the mask")
    dt = unparse(drv)
    ok = "_build_edges(phi, reliability, mask, wrap_around=wrap_around)" in dt and "reliability = _pixel_reliability(phi, mask)" in dt
    check.decide(ok, "C17-R4", "driver forwards the mask and the boundary mode to the edge builder", "", mod.line(drv),
                 fail_detail="mask / wrap_around are not forwarded to _build_edges")
    _, disp = repo.func(f"{IU}:unwrap_phase_2d_torch")
    ok = "_unwrap_phase_2d_torch_reliability_sorting(phi_wrapped, mask, wrap_around=wrap_around)" in unparse(disp)
    check.decide(ok, "C17-R4", "unwrap_phase_2d_torch forwards mask and wrap_around to the reliability-sorting method", "", mod.line(disp),
                 fail_detail="the dispatcher drops mask or wrap_around")

    # ---- R5 masked embedding of bright-field phases ------------------------------------------------------------------------
    dmod, ub = repo.func(f"{DU}:unwrap_bf_overlap_phase_torch")
    emb = {unparse(n.targets[0]): unparse(n.value) for n in ast.walk(ub) if isinstance(n, ast.Assign) and isinstance(n.targets[0], ast.Subscript)}
    ok = emb.get("phase_grid[bf_mask]") == "phase_bf" and emb.get("mask_grid[bf_mask]") == "mask_bf"
    check.decide(ok, "C17-R5", "unwrap_bf_overlap_phase_torch: phases and the overlap mask are embedded at the same bright-field pixels", str(emb), dmod.line(ub),
                 fail_detail=f"embedding is {emb}")
    calls = [c for c in calls_in(ub) if call_name(c) == "unwrap_phase_2d_torch"]
    check.floor("unwrap_bf_overlap_phase_torch: unwrap calls", len(calls), 2)
    for i, c in enumerate(calls):
        mk = kwarg(c, "mask")
        ok = mk is not None and unparse(mk) == "mask_grid"
        check.decide(ok, "C17-R5", f"unwrap_bf_overlap_phase_torch: unwrap call #{i + 1} is restricted to the embedded OVERLAP mask", unparse(mk) if mk is not None else "none",
                     dmod.line(c),
                     fail_detail=f"mask={unparse(mk) if mk is not None else None}: zero-filled bright-field pixels outside the overlap are treated as data and can "
                                 f"tie two stretches of the overlap's boundary to the same 2π level (a tear inside the connected region)")
    # sibling agreement of the passes: the caller's unwrapping options (**unwrap_kwargs: wrap_around, regularisation …) reach every pass
    stars = [sorted(unparse(k.value) for k in c.keywords if k.arg is None) for c in calls]
    ref_star = max(stars, key=len) if stars else []
    for i, (c, st_) in enumerate(zip(calls, stars)):
        check.decide(st_ == ref_star, "C17-R5", f"unwrap_bf_overlap_phase_torch: unwrap call #{i + 1} receives the caller's unwrapping options like its sibling pass",
                     str(st_), dmod.line(c), definite=True,
                     fail_detail=f"this pass forwards {st_ or 'no option dict'}, a sibling pass forwards **{ref_star}: a caller-supplied wrap_around=False reaches only one "
                                 f"pass — the other offers periodic seam edges on a non-periodic field and can tear the connected region by 2π")
    rets = [unparse(n.value) for n in ast.walk(ub) if isinstance(n, ast.Return)]
    check.decide(bool(rets) and set(rets) == {"phase_grid[bf_mask]"}, "C17-R5", "unwrap_bf_overlap_phase_torch returns the unwrapped phases at the bright-field pixels", str(rets), dmod.line(ub),
                 fail_detail=str(rets))


MANIFEST = {
    "text": "Decides the bookkeeping that makes the Itoh guarantee hold for every merge order: for both attach arms of union the "
            "offset written makes inc'(x) − inc'(y) = inc_xy as a polynomial identity over (ox, oy, inc_xy), only roots are "
            "re-parented, connected nodes are skipped, and both path walks accumulate the same sum (so the invariant extends by "
            "induction over any edge order); the increment is the case split d>π→−1, d<−π→+1, else 0 on the raw difference of "
            "the very values the driver corrects, passed in the same orientation as the edge; output = input + 2π·integer "
            "offsets − one scalar; edges join true 4-neighbours in both directions and both boundary modes, are kept iff both "
            "ends are masked-in and processed by ascending reliability sum; the bright-field wrapper unwraps on the embedded "
            "overlap mask.",
    "note": "Not decided: the Itoh theorem itself (mathematics), quality of the reliability heuristic, the approximate FFT Poisson "
            "method (outside the exactness claim).",
    "technique": "inductive invariant discharged by polynomial normal forms + structural edge/role checks (AST)",
}
MANIFEST["text"] += ' Edge end points are evaluated abstractly (id grid, roll along an axis, border slices, flattening): periodic edges are grid↔roll(axis, ±1) pairs, bounded edges are complementary border slices; shifting the flattened ids is reported as a helical seam.'
MANIFEST["text"] += ' Sibling passes of unwrap_bf_overlap_phase_torch must forward the same caller option dict (**unwrap_kwargs).'
MANIFEST["text"] += ' Bounded edges written as flat[:-k] / flat[k:] pairs are vertical neighbours iff k is the row LENGTH (resolved through the shape destructuring).'
MANIFEST["text"] += " ±1 on flattened pixel ids modulo the number of pixels (a diagonal seam edge) is reported before any layout-dependent analysis."
