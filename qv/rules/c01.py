"""C01 — serializer round-trip fidelity: codec writer/reader agreement (E2)."""
from __future__ import annotations

import ast
from typing import Optional

from ..core.repo import (AnalysisError, Repo, parent, call_name, calls_in, definitions, dotted, func_params, is_const, kwarg, names_in,
                         stmts_in_order, unparse, walk_no_nested_defs)
from ..domains.codec import (SER, ReaderModel, WriterModel, attrs_store_key, eval_key_filter,
                             flatten_if_chain, key_pattern)

EXPLANATION = (
    "codec schema agreement: a writer model (ordered dispatch arms, markers, payload names, "
    "metadata keys, array storage classes) and a reader model (four reader contexts, key "
    "filters) are extracted from serialize.py and compared as sets/orders; first-match "
    "dispatch is evaluated on a table of value kinds"
)

# markers whose value kinds are inside the property's domain (statement + quantifier); the
# optimizer/scheduler markers are handled by C05 and are advisory inside containers here
CLAIMED_IN_CONTAINERS = {
    "_torch_tensor", "_torch_whole_module", "_autoserialize", "_container_type",
    "_torch_logger", "_python_logger", "_numpy_rng", "_torch_rng_skipped",
}

# ---------------------------------------------------------------- value kinds (Appendix B)
TYPE_UNIVERSE = {
    "torch.Tensor", "torch.optim.Optimizer", "torch.nn.Module", "np.ndarray", "int", "float",
    "str", "bool", "NoneType", "list", "tuple", "dict", "set", "AutoSerialize", "np.generic",
    "np.integer", "np.floating", "np.bool_", "np.complexfloating", "Path", "complex", "bytes",
    "torch.nn.ModuleList", "torch.nn.Sequential", "torch.nn.ParameterList",
}
ATTR_UNIVERSE = {
    "step", "get_last_lr", "add_scalar", "add_image", "log", "info", "dtype", "item",
    "__fspath__", "bit_generator", "get_state", "set_state", "__module__", "tolist",
}


def K(types=(), attrs=(), module=None, autoser=False, typestr="", expect=(), in_containers=True, nonjson_item=False):
    return {"in_containers": in_containers, "nonjson_item": nonjson_item, "types": set(types), "attrs": set(attrs) | ({"__module__"} if module else set()),
            "module": module, "autoserialize": autoser, "typestr": typestr,
            "expect": set(expect) if not isinstance(expect, str) else {expect}}


KINDS = {
    # provenance: torch 2.x / numpy 2.x public class attributes (frozen table, one line each)
    "torch.Tensor": K(["torch.Tensor"], ["dtype", "item", "log", "tolist"], "torch", expect="marker:_torch_tensor"),
    "torch.nn.Parameter": K(["torch.Tensor"], ["dtype", "item", "log", "tolist"], "torch.nn.parameter", expect="marker:_torch_tensor"),
    "torch.optim.Optimizer": K(["torch.optim.Optimizer"], ["step"], "torch.optim.adam", expect="marker:_torch_optimizer", in_containers=False),
    "LRScheduler": K([], ["step", "get_last_lr"], "torch.optim.lr_scheduler", expect="marker:_torch_scheduler", in_containers=False),
    "SummaryWriter": K([], ["add_scalar", "add_image"], "torch.utils.tensorboard.writer", expect="marker:_torch_logger"),
    "logging.Logger": K([], ["log", "info"], "logging", expect="marker:_python_logger"),
    "torch.nn.Module (library class)": K(["torch.nn.Module"], [], "torch.nn.modules.linear", expect="marker:_torch_whole_module"),
    "torch.nn.Module (user class)": K(["torch.nn.Module"], [], "quantem.core.ml.cnn", expect="marker:_torch_whole_module"),
    "nn.Module ∧ AutoSerialize (object/probe/dataset models)": K(
        ["torch.nn.Module", "AutoSerialize"], [], "quantem.diffractive_imaging.object_models",
        autoser=True, expect="marker:_torch_whole_module"),
    "np.ndarray": K(["np.ndarray"], ["dtype", "item", "tolist"], None, expect="ndarray"),
    "int": K(["int"], [], None, expect="scalar-attr"),
    "float": K(["float"], [], None, expect="scalar-attr"),
    "bool": K(["bool", "int"], [], None, expect="scalar-attr"),
    "str": K(["str"], [], None, expect="scalar-attr"),
    "None": K(["NoneType"], [], None, expect="scalar-attr"),
    "np.float64": K(["float", "np.generic", "np.floating"], ["dtype", "item", "tolist"], None, expect="scalar-attr"),
    "np.str_": K(["str", "np.generic"], ["dtype", "item", "tolist"], None, expect="scalar-attr"),
    "np.float32": K(["np.generic", "np.floating"], ["dtype", "item", "tolist"], None, expect="npscalar-attr"),
    "np.int64": K(["np.generic", "np.integer"], ["dtype", "item", "tolist"], None, expect="npscalar-attr"),
    "np.bool_": K(["np.generic", "np.bool_"], ["dtype", "item", "tolist"], None, expect="npscalar-attr"),
    # complex NumPy scalars: `.item()` is a Python complex, which the JSON attribute store cannot hold — they must reach the dill fallback like `complex`
    "np.complex64": K(["np.generic", "np.complexfloating"], ["dtype", "item", "tolist"], None, expect="dill", nonjson_item=True),
    "np.complex128": K(["complex", "np.generic", "np.complexfloating"], ["dtype", "item", "tolist"], None, expect="dill", nonjson_item=True),
    "complex": K(["complex"], [], None, expect="dill"),
    "pathlib.Path": K(["Path"], ["__fspath__"], "pathlib", typestr="<class 'pathlib.PosixPath'>", expect="path"),
    "AutoSerialize (plain)": K(["AutoSerialize"], [], "quantem.core.datastructures.dataset", autoser=True, expect="object"),
    "list": K(["list"], [], None, expect="container"),
    "tuple": K(["tuple"], [], None, expect="container"),
    "dict": K(["dict"], [], None, expect="container"),
    "set": K(["set"], [], None, expect="container:set"),
    "np.random.Generator": K([], ["bit_generator"], None, expect="marker:_numpy_rng"),
    # torch.Generator's __module__ is 'torch._C', so it is taken by the whole-module arm (pickled
    # by torch.save); the property only requires "the same kind of object" back — both arms
    # deliver that
    "torch.Generator": K([], ["get_state", "set_state"], "torch._C",
                         expect=["marker:_torch_rng_skipped", "marker:_torch_whole_module"]),
}


def _type_names(node: ast.AST) -> Optional[list[str]]:
    if isinstance(node, (ast.Tuple, ast.List)):
        out = []
        for e in node.elts:
            n = _type_names(e)
            if n is None:
                return None
            out += n
        return out
    if isinstance(node, ast.Call) and call_name(node) == "type" and node.args and is_const(node.args[0], None):
        return ["NoneType"]
    d = dotted(node)
    if d is None:
        return None
    d = {"numpy.ndarray": "np.ndarray", "torch.nn.modules.Module": "torch.nn.Module",
         "nn.Module": "torch.nn.Module", "pathlib.Path": "Path"}.get(d, d)
    return [d]


def eval_pred(test: ast.AST, v: str, facts: dict) -> Optional[bool]:
    """Three-valued evaluation of a dispatch predicate over the value variable `v`."""
    if isinstance(test, ast.BoolOp):
        vals = [eval_pred(x, v, facts) for x in test.values]
        if isinstance(test.op, ast.Or):
            # short-circuit semantics: the first True decides even if a later one is unknown
            for x in vals:
                if x is True:
                    return True
                if x is None:
                    return None
            return False
        for x in vals:
            if x is False:
                return False
            if x is None:
                return None
        return True
    if isinstance(test, ast.UnaryOp) and isinstance(test.op, ast.Not):
        r = eval_pred(test.operand, v, facts)
        return None if r is None else not r
    if isinstance(test, ast.Call):
        cn = call_name(test) or ""
        if cn == "isinstance" and len(test.args) == 2 and dotted(test.args[0]) == v:
            names = _type_names(test.args[1])
            if names is None or any(n not in TYPE_UNIVERSE for n in names):
                return None
            return any(n in facts["types"] for n in names)
        if cn == "hasattr" and len(test.args) == 2 and dotted(test.args[0]) == v:
            a = test.args[1]
            if isinstance(a, ast.Constant) and a.value in ATTR_UNIVERSE:
                return a.value in facts["attrs"]
            return None
        if cn.endswith("_is_autoserialize_instance") and test.args and dotted(test.args[0]) == v:
            return bool(facts["autoserialize"])
        if cn.endswith("_is_numeric_scalar") and test.args and dotted(test.args[0]) == v:
            return bool(facts["types"] & {"int", "float", "bool", "np.integer", "np.floating", "np.bool_"})
        if isinstance(test.func, ast.Attribute) and test.func.attr == "startswith":
            inner = test.func.value
            if unparse(inner) == f"str(type({v}))" and test.args and isinstance(test.args[0], ast.Constant):
                return facts["typestr"].startswith(test.args[0].value) if facts["typestr"] else (
                    False if "pathlib" in str(test.args[0].value) and "Path" not in facts["types"] else None)
        return None
    if isinstance(test, ast.Compare) and len(test.ops) == 1 and isinstance(test.ops[0], ast.In):
        # "torch" in str(value.__module__)
        l, r = test.left, test.comparators[0]
        if isinstance(l, ast.Constant) and isinstance(l.value, str) and unparse(r) in (
                f"str({v}.__module__)", f"{v}.__module__"):
            if facts["module"] is None:
                return None if "__module__" in facts["attrs"] else False
            return l.value in facts["module"]
        return None
    return None


# ---------------------------------------------------------------- abstract array classes (R6)
class _Path:
    def __init__(self):
        self.effects: list[tuple[str, ast.AST]] = []
        self.ret: Optional[ast.AST] = None
        self.returned = False


def _eval_array_test(test: ast.AST, arr: str, facts: dict) -> Optional[bool]:
    if isinstance(test, ast.BoolOp):
        vals = [_eval_array_test(x, arr, facts) for x in test.values]
        if isinstance(test.op, ast.Or):
            if any(x is True for x in vals):
                return True
            return None if any(x is None for x in vals) else False
        if any(x is False for x in vals):
            return False
        return None if any(x is None for x in vals) else True
    if isinstance(test, ast.UnaryOp) and isinstance(test.op, ast.Not):
        r = _eval_array_test(test.operand, arr, facts)
        return None if r is None else not r
    if isinstance(test, ast.Compare) and len(test.ops) == 1:
        l, op, r = test.left, test.ops[0], test.comparators[0]
        if dotted(l) == f"{arr}.ndim" and is_const(r, 0):
            if isinstance(op, ast.Eq):
                return facts["ndim0"]
            if isinstance(op, (ast.NotEq, ast.Gt)):
                return not facts["ndim0"]
        if dotted(l) == f"{arr}.size" and is_const(r, 0) and isinstance(op, ast.Eq):
            return facts["anyzero"]
        if isinstance(op, ast.Eq) and dotted(l) == f"{arr}.shape" and isinstance(r, ast.Tuple) and not r.elts:
            return facts["ndim0"]
        if isinstance(op, (ast.In, ast.NotIn)) and isinstance(l, ast.Constant) and dotted(r) == f"{arr}.attrs":
            if l.value in facts.get("attrs", {}):
                v = facts["attrs"][l.value]
                return v if isinstance(op, ast.In) else (not v)
            return None
    if isinstance(test, ast.Call):
        cn = call_name(test)
        if cn == "any" and test.args and isinstance(test.args[0], ast.GeneratorExp):
            g = test.args[0]
            if len(g.generators) == 1 and dotted(g.generators[0].iter) == f"{arr}.shape" and not g.generators[0].ifs:
                e = g.elt
                tv = g.generators[0].target
                if (isinstance(e, ast.Compare) and len(e.ops) == 1 and isinstance(tv, ast.Name)
                        and isinstance(e.left, ast.Name) and e.left.id == tv.id and is_const(e.comparators[0], 0)):
                    if isinstance(e.ops[0], ast.Eq):
                        return facts["anyzero"]
                    if isinstance(e.ops[0], ast.Lt):
                        return False
        if cn == "isinstance" and len(test.args) == 2:
            if dotted(test.args[0]) == arr:
                return True  # the abstract input is an ndarray / zarr array
            if facts.get("isinstance_true") and dotted(test.args[0]) in facts["isinstance_true"]:
                return True
    return None


def _walk_paths(body: list[ast.stmt], arr: str, facts: dict, path: _Path, what: str) -> None:
    for st in body:
        if path.returned:
            return
        if isinstance(st, ast.If):
            r = _eval_array_test(st.test, arr, facts)
            if r is None:
                raise AnalysisError(f"{what}: condition `{unparse(st.test)}` not understood for class {facts['name']}")
            _walk_paths(st.body if r else st.orelse, arr, facts, path, what)
        elif isinstance(st, ast.Return):
            path.ret = st.value
            path.returned = True
        elif isinstance(st, ast.Raise):
            path.effects.append(("raise", st))
            path.returned = True
        elif isinstance(st, (ast.For, ast.While, ast.Try, ast.With)):
            raise AnalysisError(f"{what}: statement kind {type(st).__name__} not modelled")
        else:
            path.effects.append(("stmt", st))


def _contains_data_read(expr: ast.AST, arr: str, local_defs: dict) -> bool:
    """Does expr contain (transitively through straight-line local definitions) a subscript
    load of the zarr array variable?"""
    seen = set()

    def rec(e) -> bool:
        for n in ast.walk(e):
            if isinstance(n, ast.Subscript) and dotted(n.value) == arr:
                return True
            if isinstance(n, ast.Name) and n.id in local_defs and n.id not in seen:
                seen.add(n.id)
                if any(rec(d) for d in local_defs[n.id]):
                    return True
        return False

    return rec(expr)


# ---------------------------------------------------------------- the rules
def run(check, repo: Repo) -> None:
    W = WriterModel(repo)
    R = ReaderModel(repo)
    mod = W.mod
    check.analysed(
        f"{SER}:AutoSerialize._serialize_value", f"{SER}:AutoSerialize._serialize_container",
        f"{SER}:AutoSerialize._recursive_save", f"{SER}:AutoSerialize._recursive_load",
        f"{SER}:AutoSerialize._deserialize_container", f"{SER}:AutoSerialize._write_ndarray",
        f"{SER}:AutoSerialize._array_to_np", f"{SER}:AutoSerialize.save", f"{SER}:load",
    )
    check.extra["writer_arms"] = [
        {"index": a.index, "role": a.role, "test": unparse(a.test) if a.test is not None else "else"}
        for a in W.arms]
    check.extra["reader_contexts"] = {c.name: c.keys() for c in R.contexts}
    check.floor("writer dispatch arms", len(W.arms), 16)
    check.floor("reader contexts", len(R.contexts), 4)

    sub_arms = [a for a in W.arms if a.subgroup_var]
    check.floor("subgroup-creating writer arms", len(sub_arms), 11)
    all_reader_keys = set()
    for c in R.contexts:
        all_reader_keys |= set(c.keys())

    # which writer arms are first-matched by a value kind of the property's domain that may sit
    # inside a container?  (optimizers/schedulers belong to C05; an arm no kind reaches is dead)
    first_match: dict[str, int] = {}
    for kname, facts in KINDS.items():
        for arm in W.arms:
            if arm.test is None:
                first_match[kname] = arm.index
                break
            r = eval_pred(arm.test, W.p_value, facts)
            if r is None:
                raise AnalysisError(
                    f"C01-R7: predicate `{unparse(arm.test)}` (arm {arm.index}) cannot be evaluated for kind {kname}")
            if r:
                first_match[kname] = arm.index
                break
    claimed_arms = {first_match[k] for k, f in KINDS.items() if f["in_containers"]}

    # ---- R1 marker coverage --------------------------------------------------------------
    markers_seen = set()
    for arm in sub_arms:
        wkeys = W.all_subgroup_keys(arm)
        if not wkeys:
            check.violated("C01-R1", f"_serialize_value[{arm.role}]: subgroup without any marker",
                           "the arm creates a subgroup but writes no constant key a reader could dispatch on",
                           arm.where)
            continue
        for ctx in R.contexts:
            hit = [k for k in ctx.keys() if k in wkeys]
            primary = sorted(wkeys & all_reader_keys) or sorted(wkeys)
            marker = primary[0]
            markers_seen.add(marker)
            construct = f"{ctx.fn_qual}[ctx={ctx.name}] ∌ marker '{marker}' (writer arm {arm.role})"
            if hit:
                # first reader arm that matches must not be a raising/unknown arm
                check.holds("C01-R1", f"{ctx.fn_qual}[ctx={ctx.name}] ∋ marker '{hit[0]}' (writer arm {arm.role})",
                            where=ctx.where)
            elif ctx.name != "attribute" and arm.index not in claimed_arms:
                check.advisory("C01-R1", construct,
                               "no value kind of C01's domain reaches this writer arm inside a container "
                               "(optimizers/schedulers belong to C05; torch.Generator is taken by the "
                               "whole-module arm)", ctx.where)
            else:
                check.violated(
                    "C01-R1", construct,
                    f"a value written by arm '{arm.role}' inside a {ctx.name} container is a subgroup "
                    f"carrying {sorted(wkeys)}; this reader context dispatches only on {ctx.keys()} and "
                    f"raises on anything else", ctx.where)
    check.floor("distinct subgroup markers", len(markers_seen), 10)

    # ---- R2 payload agreement ------------------------------------------------------------
    n_payload = 0
    for arm in sub_arms:
        if not arm.payloads:
            continue
        wname = arm.payloads[0][0]
        wkeys = W.all_subgroup_keys(arm)
        for targ in arm.torch_save_args:
            ok = isinstance(targ, ast.Name) and targ.id == W.p_value
            check.decide(ok, "C01-R2", f"_serialize_value[{arm.role}]: torch.save payload is the value itself",
                         f"torch.save({unparse(targ)}, …)", arm.where,
                         fail_detail=f"torch.save is given `{unparse(targ)}` instead of the value: dtype/"
                                     f"requires_grad/identity of the stored object may differ")
        for ctx in R.contexts:
            for ra in ctx.arms:
                if ra.key in wkeys:
                    n_payload += 1
                    ok = wname in ra.payload_reads
                    check.decide(
                        ok, "C01-R2",
                        f"payload '{wname}' of {arm.role} read in {ctx.fn_qual}[ctx={ctx.name}]",
                        f"reader reads {ra.payload_reads}", ctx.where,
                        fail_detail=f"writer stores dataset '{wname}', reader arm for '{ra.key}' reads {ra.payload_reads}")
                    break
    check.floor("payload agreements", n_payload, 10)

    # ---- R3 reserved-key hygiene ---------------------------------------------------------
    _rule_reserved_keys(check, repo, W, R)

    # ---- R4 no overwritten tag -----------------------------------------------------------
    n_r4 = 0
    for arm in sub_arms:
        order = stmts_in_order(ast.Module(body=arm.body, type_ignores=[]))
        pos = {id(s): i for i, s in enumerate(order)}
        for kp, val, st in arm.sub_keys:
            if not kp.is_const:
                continue
            for cname, call in W.arm_calls_with_subgroup(arm):
                summ = W.summaries.get(cname)
                if not summ:
                    continue
                ckeys = {k.text for k, _, _ in summ.keys}
                if kp.text in ckeys:
                    n_r4 += 1
                    from ..core.repo import enclosing_stmt
                    cst = enclosing_stmt(call)
                    after = pos.get(id(st), -1) > pos.get(id(cst), -1)
                    check.decide(
                        after, "C01-R4",
                        f"_serialize_value[branch={arm.role.split(':')[-1]}] → {cname} : attr '{kp.text}'",
                        "the arm's own store comes after the callee's store (last writer wins)",
                        mod.line(st),
                        fail_detail=f"the arm stores {kp.text}={unparse(val)} and then passes the same group to "
                                    f"{cname}, which stores '{kp.text}' again: the arm's tag is overwritten")
    check.floor("tag/callee overlaps examined", n_r4, 1)

    # ---- R5 container-kind table ---------------------------------------------------------
    _rule_container_kinds(check, W, R)

    # ---- R6 array storage classes --------------------------------------------------------
    _rule_array_classes(check, repo)

    # ---- R7 first-match dispatch ---------------------------------------------------------
    for kname, facts in KINDS.items():
        chosen = None
        for arm in W.arms:
            if arm.test is None:
                chosen = arm
                break
            r = eval_pred(arm.test, W.p_value, facts)
            if r is None:
                raise AnalysisError(
                    f"C01-R7: predicate `{unparse(arm.test)}` (arm {arm.index}) cannot be evaluated for kind {kname}")
            if r:
                chosen = arm
                break
        role = chosen.role if chosen else "?"
        ok = role in facts["expect"]
        check.decide(
            ok, "C01-R7", f"_serialize_value: kind {kname} → first matching arm",
            f"first match: arm {chosen.index} role {role}", chosen.where if chosen else "",
            fail_detail=f"kind {kname} is first matched by arm {chosen.index} "
                        f"(`{unparse(chosen.test) if chosen.test is not None else 'else'}`, role {role}); "
                        f"intended role {sorted(facts['expect'])}",
            expected=sorted(facts["expect"]), got=role)
    # every arm's role must be recognised (a transformed scalar store is a violation)
    for arm in W.arms:
        if arm.role == "attr:transformed":
            check.violated("C01-R7", f"_serialize_value[arm {arm.index}]: attribute arm stores a transformed value",
                           f"stores `{unparse(arm.parent_keys[0][1])}` under the attribute name; the reader "
                           f"returns stored attributes unchanged", arm.where)
        elif "?" in arm.role:
            raise AnalysisError(f"C01: writer arm {arm.index} (`{unparse(arm.test) if arm.test is not None else 'else'}`) has no recognised role")

    # ---- R8 path flag --------------------------------------------------------------------
    _rule_path_flag(check, repo, W, R)

    # ---- R9 configuration non-interference -----------------------------------------------
    _rule_config(check, repo)

    # ---- R10 element order of element-wise encoded sequences ----------------------------------
    _rule_sequence_order(check, repo)

    # ---- R11 raw-array probe falls back on every failure ------------------------------------
    _rule_probe_handlers(check, repo)
    _rule_numeric_key_order(check, repo)
    _rule_fresh_root(check, repo)
    _rule_tensor_flag(check, repo)

    # ---- R12 no cross-call state in the codec: caches are keyed on everything the cached value depends on --------
    from ..domains.memo import memo_findings, persistent_containers
    smod = repo.module(SER)
    fns = []
    for st in smod.tree.body:
        if isinstance(st, (ast.FunctionDef, ast.AsyncFunctionDef)):
            fns.append((st.name, st, None))
        elif isinstance(st, ast.ClassDef):
            fns += [(f"{st.name}.{f.name}", f, st.name) for f in st.body if isinstance(f, (ast.FunctionDef, ast.AsyncFunctionDef))]
    from ..core.repo import is_referenced
    dead = [q_ for q_, f_, _c in fns if not is_referenced(repo, f_)]
    fns = [x for x in fns if x[0] not in dead]  # an unused private helper decides nothing about what load() returns
    found, n_sites = memo_findings(smod.tree, fns)
    for node, q, msg in found:
        check.violated("C01-R12", f"{q}: persistent cache entries are keyed on all of their inputs", msg + " — e.g. a class cache keyed by class name alone returns the class of "
                       "another module with the same name, and the loaded object is an instance of the wrong class", smod.line(node), definite=True)
    check.holds("C01-R12", "serialize.py: no under-keyed persistent cache, no accumulating module/class state", f"{len(fns)} functions, containers {sorted(persistent_containers(smod.tree)) or 'none'}, "
                f"{n_sites} stores", nontrivial=False) if not found else None


def _rule_reserved_keys(check, repo: Repo, W: WriterModel, R: ReaderModel, rule: str = "C01-R3", only=None) -> None:
    mod = W.mod
    # keys that can land on an *object* group's attrs
    obj_keys: list[tuple[str, str]] = []  # (pattern text, origin)
    for kp, _, st in W.summaries["_recursive_save"].keys:
        obj_keys.append((kp.text, "_recursive_save"))
    for arm in W.arms:
        for kp, _, st in arm.parent_keys:
            if not kp.is_user_key:
                obj_keys.append((kp.text, f"_serialize_value[{arm.role}]"))
    # root-only keys from save.write_skip_metadata
    _, save_fn = repo.func(f"{SER}:AutoSerialize.save")
    for st in ast.walk(save_fn):
        if isinstance(st, ast.Assign):
            for t in st.targets:
                sk = attrs_store_key(t)
                if sk:
                    kp = key_pattern(sk[1], set())
                    if kp is None:
                        raise AnalysisError(f"save: attrs key {unparse(sk[1])} not understood")
                    obj_keys.append((kp.text, "save(root)"))
    check.floor("object-group metadata keys", len(obj_keys), 4)

    # the attribute-restoration loop: `for name, val in group.attrs.items(): if <filter>: continue`
    loop = None
    for n in walk_no_nested_defs(R.load_fn):
        if isinstance(n, ast.For) and isinstance(n.iter, ast.Call):
            cn = call_name(n.iter) or ""
            if cn.endswith(".attrs.items") or cn.endswith(".attrs.keys") or dotted(n.iter) == "group.attrs":
                loop = n
                break
        if isinstance(n, ast.For) and (dotted(n.iter) or "").endswith(".attrs"):
            loop = n
            break
    if loop is None:
        raise AnalysisError("_recursive_load: attribute restoration loop not found")
    tgt = loop.target
    keyvar = tgt.elts[0].id if isinstance(tgt, ast.Tuple) else tgt.id  # type: ignore
    filters = _continue_filters(loop.body)
    skip_like = {"skip_names", "attrs_item_names"}

    def filtered(key: str) -> Optional[bool]:
        res = False
        for f in filters:
            if names_in(f) & skip_like:
                continue  # user-controlled filters: not part of the metadata hygiene
            r = eval_key_filter(f, keyvar, key)
            if r is True:
                return True
            if r is None:
                res = None
        return res

    for text, origin in obj_keys:
        if only is not None and not only(text):
            continue
        samples = [text.replace("{}", s) for s in (("x", "other_name") if "{}" in text else ("",))]
        verdicts = [filtered(s) for s in samples]
        construct = f"_recursive_load[attr loop] must not restore metadata key '{text}' (written by {origin})"
        if any(v is None for v in verdicts):
            raise AnalysisError(f"{rule}: attribute filter not understood for key {text}")
        check.decide(
            all(verdicts), rule, construct,
            "filtered", mod.line(loop),
            fail_detail=f"metadata key '{text}' is written on the object group by {origin} but the attribute "
                        f"restoration loop does not filter it: it comes back as an attribute of the loaded object")

    if only is not None:
        return
    # dict container groups: keys on the group = _container_type + path flags of items
    dict_keys = [k.text for k, _, st in W.summaries["_serialize_container"].keys
                 if _in_dict_arm(W, st)]
    if "_container_type" not in dict_keys:
        raise AnalysisError("_serialize_container: dict arm does not tag the group")
    dict_keys = sorted(set(dict_keys) | {"{}.is_path"})
    dict_body = next((body for vals, body, _ in R.ctype_arms if vals == {"dict"}), None)
    if dict_body is None:
        raise AnalysisError("_deserialize_container: dict arm not found")
    dloop = None
    for n in walk_no_nested_defs(ast.Module(body=dict_body, type_ignores=[])):
        if isinstance(n, ast.For) and (dotted(n.iter) or "").endswith(".attrs"):
            dloop = n
            break
        if isinstance(n, ast.For) and isinstance(n.iter, ast.Call) and (call_name(n.iter) or "").endswith((".attrs.items", ".attrs.keys")):
            dloop = n
            break
    if dloop is None:
        raise AnalysisError("_deserialize_container[dict]: attrs loop not found")
    dt = dloop.target
    dkey = dt.elts[0].id if isinstance(dt, ast.Tuple) else dt.id  # type: ignore
    dfilters = _continue_filters(dloop.body)
    for text in dict_keys:
        samples = [text.replace("{}", s) for s in (("x", "other_name") if "{}" in text else ("",))]
        vs = []
        for s in samples:
            r = False
            for f in dfilters:
                e = eval_key_filter(f, dkey, s)
                if e is True:
                    r = True
                    break
                if e is None:
                    r = None
            vs.append(r)
        if any(v is None for v in vs):
            raise AnalysisError(f"C01-R3: dict filter not understood for key {text}")
        check.decide(all(vs), "C01-R3",
                     f"_deserialize_container[dict] must not restore metadata key '{text}'",
                     "filtered", mod.line(dloop),
                     fail_detail=f"metadata key '{text}' on a dict group is not filtered by the dict reader "
                                 f"and comes back as a dictionary entry")


def _in_dict_arm(W: WriterModel, st) -> bool:
    """Is the store statement inside an arm guarded by isinstance(value, dict)?"""
    from ..core.repo import parent
    p, child = parent(st), st
    while p is not None and p is not W.container_fn:
        if isinstance(p, ast.If) and child in p.body:
            t = p.test
            if isinstance(t, ast.Call) and call_name(t) == "isinstance" and len(t.args) == 2:
                if "dict" in (_type_names(t.args[1]) or []):
                    return True
        child, p = p, parent(p)
    return False


def _continue_filters(body: list[ast.stmt]) -> list[ast.AST]:
    """Tests of leading `if <test>: continue` statements in a loop body."""
    out = []
    for st in body:
        if isinstance(st, ast.If) and st.body and isinstance(st.body[-1], ast.Continue) and not st.orelse:
            out.append(st.test)
    return out


def _rule_container_kinds(check, W: WriterModel, R: ReaderModel) -> None:
    mod = W.mod
    # values the writer can give _container_type
    wvals: set[str] = set()
    fn = W.container_fn
    vparam = fn.args.args[1].arg
    for st in stmts_in_order(fn):
        if isinstance(st, ast.Assign):
            for t in st.targets:
                sk = attrs_store_key(t)
                if sk and isinstance(sk[1], ast.Constant) and sk[1].value == "_container_type":
                    v = st.value
                    if isinstance(v, ast.Constant):
                        wvals.add(v.value)
                    elif unparse(v) == f"type({vparam}).__name__":
                        # the guard of the enclosing `if isinstance(value, (list, tuple))`
                        from ..core.repo import parent
                        p = parent(st)
                        while p is not None and not isinstance(p, ast.If):
                            p = parent(p)
                        names = None
                        if p is not None and isinstance(p.test, ast.Call) and call_name(p.test) == "isinstance":
                            names = _type_names(p.test.args[1])
                        if not names:
                            raise AnalysisError("_serialize_container: guard of type(value).__name__ not understood")
                        wvals |= set(names)
                    else:
                        raise AnalysisError(f"_serialize_container: _container_type value {unparse(v)} not understood")
    for arm in W.arms:
        for kp, v, st in arm.sub_keys:
            if kp.text == "_container_type":
                if isinstance(v, ast.Constant):
                    wvals.add(v.value)
                else:
                    raise AnalysisError("_serialize_value: non-constant _container_type")
    rvals = set()
    for vals, _, _ in R.ctype_arms:
        rvals |= vals
    check.decide(wvals == rvals, "C01-R5", "container kinds written = container kinds dispatched on",
                 f"writer {sorted(wvals)} reader {sorted(rvals)}", mod.line(R.ctype_chain),
                 fail_detail=f"writer can emit _container_type ∈ {sorted(wvals)}, reader dispatches on {sorted(rvals)}")
    # each reader arm must rebuild its own kind
    for vals, body, test in R.ctype_arms:
        fake = ast.Module(body=body, type_ignores=[])
        rets = [n.value for n in ast.walk(fake) if isinstance(n, ast.Return) and n.value is not None]
        text = " ; ".join(unparse(r) for r in rets)
        if vals == {"set"}:
            ok = any(isinstance(r, ast.Call) and call_name(r) == "set" for r in rets)
            check.decide(ok, "C01-R5", "_deserialize_container[set] returns a set", text, mod.line(test),
                         fail_detail=f"the set arm returns `{text}`")
        elif vals == {"dict"}:
            ok = all(not (isinstance(r, ast.Call) and call_name(r) in ("list", "tuple", "set")) for r in rets) and bool(rets)
            check.decide(ok, "C01-R5", "_deserialize_container[dict] returns the mapping", text, mod.line(test))
        elif vals == {"list", "tuple"}:
            # some expression must distinguish the two kinds by the tag: list for "list", tuple(...) otherwise
            selectors = []
            guarded_returns: set[int] = set()
            for n in ast.walk(fake):
                if isinstance(n, ast.IfExp) and isinstance(n.test, ast.Compare) and len(n.test.ops) == 1:
                    l, op, r = n.test.left, n.test.ops[0], n.test.comparators[0]
                    if isinstance(l, ast.Name) and l.id == R.ctype_var and isinstance(r, ast.Constant):
                        t_is_tuple = isinstance(n.body, ast.Call) and call_name(n.body) == "tuple"
                        f_is_tuple = isinstance(n.orelse, ast.Call) and call_name(n.orelse) == "tuple"
                        eq = isinstance(op, ast.Eq)
                        if r.value == "list" and ((eq and f_is_tuple and not t_is_tuple) or (not eq and t_is_tuple and not f_is_tuple)):
                            selectors.append(n)
                        if r.value == "tuple" and ((eq and t_is_tuple and not f_is_tuple) or (not eq and f_is_tuple and not t_is_tuple)):
                            selectors.append(n)
                if isinstance(n, ast.If) and isinstance(n.test, ast.Compare) and len(n.test.ops) == 1:
                    l, op, r = n.test.left, n.test.ops[0], n.test.comparators[0]
                    if (isinstance(l, ast.Name) and l.id == R.ctype_var and isinstance(r, ast.Constant)
                            and r.value in ("list", "tuple") and isinstance(op, (ast.Eq, ast.NotEq))):
                        tuple_side = n.body if (r.value == "tuple") == isinstance(op, ast.Eq) else n.orelse
                        list_side = n.orelse if tuple_side is n.body else n.body
                        t_rets = [x for x in ast.walk(ast.Module(body=tuple_side, type_ignores=[])) if isinstance(x, ast.Return)]
                        l_rets = [x for x in ast.walk(ast.Module(body=list_side, type_ignores=[])) if isinstance(x, ast.Return)]
                        if t_rets and all(isinstance(x.value, ast.Call) and call_name(x.value) == "tuple" for x in t_rets) and \
                                all(not (isinstance(x.value, ast.Call) and call_name(x.value) == "tuple") for x in l_rets):
                            guarded_returns |= {id(x) for x in t_rets + l_rets}
            from ..core.repo import definitions

            def derives_from_selector(e: ast.AST) -> bool:
                seen: set[str] = set()
                work = [e]
                while work:
                    x = work.pop()
                    for sub in ast.walk(x):
                        if any(sub is sel for sel in selectors):
                            return True
                        if isinstance(sub, ast.Name) and sub.id not in seen:
                            seen.add(sub.id)
                            for d in definitions(fake, sub.id):
                                if isinstance(d, ast.AST):
                                    work.append(d)
                return False

            all_rets = [n for n in ast.walk(fake) if isinstance(n, ast.Return) and n.value is not None]
            if not all_rets:
                raise AnalysisError("_deserialize_container[list|tuple]: no return found")
            for i, rn in enumerate(all_rets):
                ok = id(rn) in guarded_returns or derives_from_selector(rn.value)
                check.decide(ok, "C01-R5",
                             f"_deserialize_container[list|tuple] return #{i + 1} rebuilds the tagged kind",
                             f"returns `{unparse(rn.value)[:80]}`", mod.line(rn),
                             fail_detail=f"`return {unparse(rn.value)[:100]}` does not select list vs tuple by the "
                                         f"stored tag: on this path tuples come back as lists (or vice versa)")
    # fast path coverage: every container kind whose items go through the list/tuple writer
    # (list, tuple, and set — the set arm hands a list to _serialize_container) may meet the
    # 'values' encoding, so its reader arm must understand it
    via_list_writer = {"list", "tuple"}
    for arm in W.arms:
        if arm.role.startswith("container:"):
            for cname, call in W.arm_calls_with_subgroup(arm):
                if cname == "_serialize_container" and call.args:
                    a0 = call.args[0]
                    srcs = [a0]
                    if isinstance(a0, ast.Name):
                        from ..core.repo import definitions
                        srcs = [d for d in definitions(ast.Module(body=arm.body, type_ignores=[]), a0.id)
                                if isinstance(d, ast.AST)]
                    if any(isinstance(s, ast.Call) and call_name(s) in ("list", "tuple", "sorted") for s in srcs) \
                            or any(isinstance(s, (ast.List, ast.ListComp)) for s in srcs):
                        via_list_writer.add(arm.role.split(":", 1)[1])
    for vals, body, test in R.ctype_arms:
        if not (vals & via_list_writer):
            continue
        fake = ast.Module(body=body, type_ignores=[])
        reads_tag = any(
            isinstance(n, ast.Call) and (call_name(n) or "").endswith("attrs.get") and n.args
            and is_const(n.args[0], "_sequence_encoding") for n in ast.walk(fake))
        reads_values = any(
            isinstance(n, ast.Call) and (call_name(n) or "").endswith(("_read_array_np", "_get_array"))
            and len(n.args) >= 2 and is_const(n.args[1], "values") for n in ast.walk(fake))
        label = "|".join(sorted(vals))
        check.decide(
            reads_tag and reads_values, "C01-R5",
            f"_deserialize_container[{label}] understands the numeric fast path",
            "", mod.line(test),
            fail_detail=f"items of a {label} are written through the list writer, which stores all-numeric "
                        f"sequences as one 'values' array tagged _sequence_encoding='ndarray'; this reader arm "
                        f"never reads it, so numeric {label} containers lose their contents")
    # fast path: _sequence_encoding read only with the value written, dataset name agrees
    w_enc = [(unparse(st.value), st) for st in stmts_in_order(fn) if isinstance(st, ast.Assign)
             for t in st.targets if (attrs_store_key(t) or (None, None))[1] is not None
             and isinstance(attrs_store_key(t)[1], ast.Constant) and attrs_store_key(t)[1].value == "_sequence_encoding"]
    w_ds = [c.args[1].value for c in calls_in(fn) if (call_name(c) or "").endswith("_write_ndarray")
            and len(c.args) >= 2 and isinstance(c.args[1], ast.Constant)]
    r_enc, r_ds = [], []
    for n in ast.walk(R.cont_fn):
        if isinstance(n, ast.Compare) and isinstance(n.left, ast.Call) and (call_name(n.left) or "").endswith("attrs.get"):
            if n.left.args and is_const(n.left.args[0], "_sequence_encoding") and isinstance(n.comparators[0], ast.Constant):
                r_enc.append(repr(n.comparators[0].value))
        if isinstance(n, ast.Call) and (call_name(n) or "").endswith("_read_array_np") and len(n.args) >= 2:
            if isinstance(n.args[1], ast.Constant) and dotted(n.args[0]) == "group":
                r_ds.append(n.args[1].value)
    ok = bool(w_enc) and bool(r_enc) and {w for w, _ in w_enc} == set(r_enc) and set(w_ds) <= set(r_ds) and bool(w_ds)
    check.decide(ok, "C01-R5", "numeric fast path: encoding tag and dataset name agree",
                 f"writer tag {[w for w, _ in w_enc]} dataset {w_ds}; reader tag {r_enc} dataset {r_ds}",
                 mod.line(fn),
                 fail_detail=f"writer tag {[w for w, _ in w_enc]} / dataset {w_ds} vs reader tag {r_enc} / dataset {r_ds}")


def _rule_array_classes(check, repo: Repo) -> None:
    mod, wfn = repo.func(f"{SER}:AutoSerialize._write_ndarray")
    _, rfn = repo.func(f"{SER}:AutoSerialize._array_to_np")
    wparams = [a.arg for a in wfn.args.args]
    arrp = wparams[2] if len(wparams) >= 3 else None
    grpp = wparams[0]
    if arrp is None:
        raise AnalysisError("_write_ndarray: unexpected signature")
    rarr = rfn.args.args[0].arg
    # the value that is classified and written is the caller's array: every rebinding of the parameter is a shape- and dtype-preserving conversion
    PRESERVING = {"np.asarray", "np.asanyarray", "np.array", "np.copy", "np.require", f"{arrp}.copy", f"{arrp}.view"}
    RESHAPING = {"np.ascontiguousarray": "returns at least one dimension: a 0-d array becomes shape (1,)", "np.asfortranarray": "returns at least one dimension: a 0-d array becomes shape (1,)",
                 "np.atleast_1d": "adds a dimension to a 0-d array", "np.atleast_2d": "adds dimensions", "np.atleast_3d": "adds dimensions", "np.ravel": "flattens", "np.squeeze": "drops unit axes",
                 f"{arrp}.ravel": "flattens", f"{arrp}.flatten": "flattens", f"{arrp}.squeeze": "drops unit axes", f"{arrp}.reshape": "changes the shape", "np.reshape": "changes the shape"}
    n_rebind = 0
    for st in walk_no_nested_defs(wfn):
        if isinstance(st, ast.Assign) and any(isinstance(t, ast.Name) and t.id == arrp for t in st.targets):
            n_rebind += 1
            v = st.value
            cn = call_name(v) if isinstance(v, ast.Call) else None
            extra = [k.arg for k in v.keywords if k.arg in ("dtype", "ndmin") and not (k.arg == "dtype" and unparse(k.value) == f"{arrp}.dtype")] if isinstance(v, ast.Call) else []
            if cn in RESHAPING:
                check.violated("C01-R6", f"_write_ndarray: `{arrp}` is rebound by a shape-preserving conversion", f"`{unparse(st)[:70]}`: {cn} {RESHAPING[cn]} — the array is stored (and loaded) "
                               f"with a different shape than it was given", mod.line(st), definite=True)
            elif cn in PRESERVING and not extra and v.args and unparse(v.args[0]) == arrp or (cn in (f"{arrp}.copy", f"{arrp}.view") and not v.args):
                check.holds("C01-R6", f"_write_ndarray: `{arrp}` is rebound by a shape-preserving conversion", cn or "", mod.line(st))
            else:
                raise AnalysisError(f"_write_ndarray: rebinding `{unparse(st)[:70]}` of the array parameter is not in the conversion tables")
    check.floor("_write_ndarray: rebindings of the array parameter", n_rebind, 1)
    classes = {
        "0-d": {"name": "0-d", "ndim0": True, "anyzero": False},
        "zero-extent": {"name": "zero-extent", "ndim0": False, "anyzero": True},
        "regular": {"name": "regular", "ndim0": False, "anyzero": False},
    }
    for cname, facts in classes.items():
        p = _Path()
        _walk_paths(wfn.body, arrp, facts, p, "_write_ndarray")
        created_shape = None
        data_stored = False
        orig_shape = False
        dtype_ok = False
        ds_vars = set()
        for kind, st in p.effects:
            if kind != "stmt":
                continue
            for c in calls_in(st):
                if (call_name(c) or "").endswith("create_array"):
                    from ..core.repo import kwarg
                    sh = kwarg(c, "shape")
                    created_shape = unparse(sh) if sh is not None else None
                    dt = kwarg(c, "dtype")
                    dtype_ok = dt is not None and unparse(dt) == f"{arrp}.dtype"
                    if isinstance(st, ast.Assign):
                        ds_vars |= {t.id for t in st.targets if isinstance(t, ast.Name)}
            if isinstance(st, ast.Assign):
                for t in st.targets:
                    if isinstance(t, ast.Subscript) and isinstance(t.value, ast.Name) and t.value.id in ds_vars:
                        if arrp in names_in(st.value):
                            data_stored = True
                    sk = attrs_store_key(t)
                    if sk and isinstance(sk[1], ast.Constant) and sk[1].value == "_original_shape":
                        orig_shape = unparse(st.value) == f"{arrp}.shape"
        if created_shape is None:
            check.violated("C01-R6", f"_write_ndarray[class={cname}]: no array is created", "", mod.line(wfn))
            continue
        check.decide(dtype_ok, "C01-R6", f"_write_ndarray[class={cname}]: dtype preserved",
                     "create_array(dtype=array.dtype)", mod.line(wfn),
                     fail_detail="the zarr array is not created with the source array's dtype")
        z_ndim0 = created_shape == "()"
        if not z_ndim0 and created_shape != f"{arrp}.shape":
            raise AnalysisError(f"_write_ndarray[{cname}]: created shape {created_shape} not understood")
        zfacts = {"name": f"zarr({cname})", "ndim0": z_ndim0,
                  "anyzero": (facts["anyzero"] and not z_ndim0),
                  "attrs": {"_original_shape": orig_shape},
                  "isinstance_true": set()}
        # reader
        rp = _Path()
        # local names bound to attrs["_original_shape"] are JSON lists
        for n in ast.walk(rfn):
            if isinstance(n, ast.Assign) and isinstance(n.value, ast.Subscript) and dotted(n.value.value) == f"{rarr}.attrs":
                for t in n.targets:
                    if isinstance(t, ast.Name):
                        zfacts["isinstance_true"].add(t.id)
        _walk_paths(rfn.body, rarr, zfacts, rp, "_array_to_np")
        if rp.ret is None:
            check.violated("C01-R6", f"_array_to_np[class={cname}]: no value returned", "", mod.line(rfn))
            continue
        local_defs = {}
        for kind, st in rp.effects:
            if kind == "stmt" and isinstance(st, ast.Assign) and len(st.targets) == 1 and isinstance(st.targets[0], ast.Name):
                local_defs.setdefault(st.targets[0].id, []).append(st.value)
        reads = _contains_data_read(rp.ret, rarr, local_defs)
        ret_txt = unparse(rp.ret)
        if cname in ("0-d", "regular"):
            check.decide(
                data_stored, "C01-R6", f"_write_ndarray[class={cname}]: data written",
                "", mod.line(wfn), fail_detail=f"no data store for a {cname} array")
            check.decide(
                reads, "C01-R6", f"_array_to_np[class={cname}]: stored data is read back",
                f"returns `{ret_txt}`", mod.line(rp.ret),
                fail_detail=f"the writer stores the contents of a {cname} array, but the reader path selected "
                            f"for it returns `{ret_txt}` without reading the zarr array: contents are lost")
        else:
            check.decide(orig_shape, "C01-R6", "_write_ndarray[class=zero-extent]: original shape recorded",
                         "_original_shape = array.shape", mod.line(wfn),
                         fail_detail="an empty array is stored as a 0-d placeholder without its original shape")
            # the reader must rebuild from the recorded shape with the stored dtype
            uses_orig = False
            seen = set()

            def dep(e):
                nonlocal uses_orig
                for n in ast.walk(e):
                    if isinstance(n, ast.Constant) and n.value == "_original_shape":
                        uses_orig = True
                    if isinstance(n, ast.Name) and n.id in local_defs and n.id not in seen:
                        seen.add(n.id)
                        for d in local_defs[n.id]:
                            dep(d)
            dep(rp.ret)
            dtype_kw = None
            if isinstance(rp.ret, ast.Call):
                from ..core.repo import kwarg
                dtype_kw = kwarg(rp.ret, "dtype")
            ok = uses_orig and dtype_kw is not None and unparse(dtype_kw) == f"{rarr}.dtype"
            check.decide(ok, "C01-R6", "_array_to_np[class=zero-extent]: rebuilt with recorded shape and dtype",
                         f"returns `{ret_txt}`", mod.line(rp.ret),
                         fail_detail=f"empty arrays come back as `{ret_txt}` (shape or dtype not restored)")


def _rule_path_flag(check, repo: Repo, W: WriterModel, R: ReaderModel) -> None:
    mod = W.mod
    _, helper = repo.func(f"{SER}:AutoSerialize._convert_string_to_path_if_needed")
    hp = [a.arg for a in helper.args.args]
    # key pattern read by the helper
    read_pat = None
    for c in calls_in(helper):
        if (call_name(c) or "").endswith("attrs.get") and c.args:
            kp = key_pattern(c.args[0], {hp[2]} if len(hp) >= 3 else set())
            if kp is not None:
                read_pat = kp.text
    write_pats = {k.text for a in W.arms for k, _, _ in a.parent_keys if k.text.endswith(".is_path")}
    check.decide(read_pat is not None and write_pats == {read_pat}, "C01-R8",
                 "path flag key: written pattern = pattern read by the helper",
                 f"written {sorted(write_pats)} read {read_pat}", mod.line(helper),
                 fail_detail=f"writer flags paths with {sorted(write_pats)}, helper reads {read_pat}")
    # helper returns Path(val)
    returns_path = any(isinstance(n, ast.Return) and isinstance(n.value, ast.Call) and call_name(n.value) == "Path"
                       for n in ast.walk(helper))
    check.decide(returns_path, "C01-R8", "path helper rebuilds a Path", "", mod.line(helper),
                 fail_detail="the helper never returns Path(val)")
    # every context that restores values from attrs routes them through the helper
    sites = []

    def scan(fn, label):
        for n in walk_no_nested_defs(fn):
            # val = group.attrs[key]  or loop over attrs.items()
            if isinstance(n, ast.Assign) and isinstance(n.value, ast.Subscript) and (dotted(n.value.value) or "").endswith(".attrs"):
                if not isinstance(n.value.slice, ast.Constant):
                    sites.append((label, n, n.targets[0].id if isinstance(n.targets[0], ast.Name) else None))
            if isinstance(n, ast.For) and isinstance(n.iter, ast.Call) and (call_name(n.iter) or "").endswith(".attrs.items"):
                if isinstance(n.target, ast.Tuple) and len(n.target.elts) == 2 and isinstance(n.target.elts[1], ast.Name):
                    sites.append((label, n, n.target.elts[1].id))

    scan(R.load_fn, "_recursive_load")
    scan(R.cont_fn, "_deserialize_container")
    check.floor("attr-value restoration sites", len(sites), 4)
    from ..core.repo import enclosing, parent
    for i, (label, n, var) in enumerate(sites):
        # find a later `var = cls._convert_string_to_path_if_needed(var, <grp>, <key>)` in the same block
        blk_owner = parent(n) if not isinstance(n, ast.For) else n
        body = n.body if isinstance(n, ast.For) else _block_of(n)
        ok = False
        for st in body:
            if isinstance(st, ast.Assign) and isinstance(st.value, ast.Call):
                if (call_name(st.value) or "").endswith("_convert_string_to_path_if_needed"):
                    a = st.value.args
                    if a and isinstance(a[0], ast.Name) and a[0].id == var and any(
                            isinstance(t, ast.Name) and t.id == var for t in st.targets):
                        ok = True
        ctxname = _site_context(R, n)
        check.decide(ok, "C01-R8", f"{label}[{ctxname}]: attr values pass through the path helper",
                     "", mod.line(n),
                     fail_detail="a value restored from attrs here is not passed through "
                                 "_convert_string_to_path_if_needed: Paths come back as str")


def _block_of(st: ast.stmt) -> list[ast.stmt]:
    from ..core.repo import parent
    p = parent(st)
    for fld in ("body", "orelse", "finalbody"):
        blk = getattr(p, fld, None)
        if isinstance(blk, list) and st in blk:
            return blk
    return []


def _site_context(R: ReaderModel, n: ast.AST) -> str:
    for vals, body, test in R.ctype_arms:
        fake = ast.Module(body=body, type_ignores=[])
        if any(x is n for x in ast.walk(fake)):
            return "ctx=" + "|".join(sorted(vals))
    return "ctx=attribute"


def _rule_sequence_order(check, repo: Repo) -> None:
    """R10: the element-wise decoder of list/tuple groups visits the stored indices in NUMERIC order
    (keys are the decimal strings "0", "1", …, "10", …; any string ordering permutes sequences of more
    than ten elements)."""
    mod, dc = repo.func(f"{SER}:AutoSerialize._deserialize_container")
    arm = None
    for n in walk_no_nested_defs(dc):
        if isinstance(n, ast.If):
            consts = {c.value for c in ast.walk(n.test) if isinstance(c, ast.Constant)}
            if {"list", "tuple"} <= consts:
                arm = n
                break
    if arm is None:
        raise AnalysisError("_deserialize_container: list/tuple arm not found")
    loops = []
    for n in ast.walk(ast.Module(body=arm.body, type_ignores=[])):
        if isinstance(n, ast.For) and any(isinstance(c, ast.Call) and isinstance(c.func, ast.Attribute) and c.func.attr == "append" for c in ast.walk(n)):
            loops.append(n)
    # only outermost appending loops
    loops = [l for l in loops if not any(l is not o and any(x is l for x in ast.walk(o)) for o in loops)]
    check.floor("element-wise sequence decode loops", len(loops), 1)
    for lp in loops:
        it = lp.iter
        dfn = dc  # function in which `it` is resolved
        # an ordering helper of the same class: look at what it returns
        if isinstance(it, ast.Call) and isinstance(it.func, ast.Attribute) and isinstance(it.func.value, ast.Name) and it.func.value.id in ("cls", "self", "AutoSerialize") \
                and repo.has(f"{SER}:AutoSerialize.{it.func.attr}"):
            _, helper = repo.func(f"{SER}:AutoSerialize.{it.func.attr}")
            rets = [n.value for n in walk_no_nested_defs(helper) if isinstance(n, ast.Return) and n.value is not None]
            if len(rets) == 1:
                it, dfn = rets[0], helper
        cn = (call_name(it) or "") if isinstance(it, ast.Call) else ""
        var = lp.target.id if isinstance(lp.target, ast.Name) else None
        verdict, why = None, unparse(it)[:80]
        if cn == "range":
            verdict = True
            why = f"range(…): ascending integers; key = str(index)"
        elif cn == "sorted":
            key = kwarg(it, "key")
            inner = it.args[0] if it.args else None
            ints = inner is not None and any(isinstance(c, ast.Call) and call_name(c) == "int" for c in ast.walk(inner)) \
                and not any(isinstance(c, ast.Call) and call_name(c) == "str" for c in ast.walk(inner))
            if (key is not None and unparse(key) == "int") or ints:
                verdict = True
                why = "sorted numerically"
            else:
                # resolve a named iterable
                verdict = False
                why = f"`{unparse(it)[:70]}` orders the decimal index strings lexicographically ('10' < '2')"
        elif isinstance(it, ast.Name):
            dd = [d for d in definitions(dfn, it.id) if isinstance(d, ast.AST)]
            if len(dd) == 1 and isinstance(dd[0], ast.Call) and call_name(dd[0]) == "sorted":
                key = kwarg(dd[0], "key")
                inner = dd[0].args[0] if dd[0].args else None
                ints = inner is not None and any(isinstance(c, ast.Call) and call_name(c) == "int" for c in ast.walk(inner)) \
                    and not any(isinstance(c, ast.Call) and call_name(c) == "str" for c in ast.walk(inner))
                verdict = (key is not None and unparse(key) == "int") or ints
                why = "sorted numerically" if verdict else f"`{it.id} = {unparse(dd[0])[:70]}` orders the decimal index strings lexicographically ('10' < '2')"
        if verdict is None:
            raise AnalysisError(f"_deserialize_container: iteration source `{unparse(it)[:60]}` of the sequence decode loop is not a recognised ordering idiom")
        check.decide(verdict, "C01-R10", "_deserialize_container[list|tuple]: elements are read back in numeric index order", why, mod.line(lp), definite=True,
                     fail_detail=f"{why}: sequences with more than ten element-wise encoded entries come back permuted")


def _rule_numeric_key_order(check, repo: Repo) -> None:
    """R13: sequence elements are stored under the keys '0', '1', … — strings.  Every order-sensitive aggregate over those keys (max / min /
    sorted / .sort) must compare integers: '9' > '10' as strings, so a length taken from the lexicographic maximum truncates every sequence of
    more than ten elements."""
    n = 0
    for q in (f"{SER}:AutoSerialize._deserialize_container", f"{SER}:AutoSerialize._recursive_load"):
        mod, fn = repo.func(q)
        for c in ast.walk(fn):
            if not (isinstance(c, ast.Call) and (call_name(c) or "") in ("max", "min", "sorted") and c.args):
                continue
            it = c.args[0]
            if not isinstance(it, (ast.GeneratorExp, ast.ListComp, ast.SetComp)) or len(it.generators) != 1:
                continue
            g = it.generators[0]
            if isinstance(g.iter, ast.Name) and not g.ifs:
                # the filter may live in its own comprehension: index_keys = [k for k in … if k.isdigit()]; max(int(k) for k in index_keys)
                all_ = [d for d in definitions(fn, g.iter.id)]
                ds_ = [d for d in all_ if isinstance(d, (ast.ListComp, ast.GeneratorExp, ast.SetComp)) and len(d.generators) == 1
                       and isinstance(d.elt, ast.Name) and isinstance(d.generators[0].target, ast.Name) and d.elt.id == d.generators[0].target.id]
                if ds_ and len(ds_) == len(all_) and len({unparse(d) for d in ds_}) == 1:
                    g = ast.comprehension(target=g.target, iter=ds_[0].generators[0].iter, is_async=0,
                                          ifs=[ast.parse(unparse(f_).replace(ds_[0].generators[0].target.id, g.target.id if isinstance(g.target, ast.Name) else "k"), mode="eval").body
                                               for f_ in ds_[0].generators[0].ifs])
            digit_filtered = any(isinstance(x, ast.Call) and isinstance(x.func, ast.Attribute) and x.func.attr in ("isdigit", "isdecimal", "isnumeric") for f_ in g.ifs for x in ast.walk(f_))
            def _keyish(e_, depth=0):
                if any(isinstance(x, ast.Call) and isinstance(x.func, ast.Attribute) and x.func.attr in ("array_keys", "group_keys", "keys") for x in ast.walk(e_)) \
                        or any(isinstance(x, ast.Attribute) and x.attr == "attrs" for x in ast.walk(e_)):
                    return True
                if depth < 2:
                    for x in ast.walk(e_):
                        if isinstance(x, ast.Name):
                            for d_ in definitions(fn, x.id):
                                if isinstance(d_, ast.AST) and _keyish(d_, depth + 1):
                                    return True
                return False
            over_keys = _keyish(g.iter)
            if not (digit_filtered and over_keys and isinstance(g.target, ast.Name)):
                continue
            n += 1
            keyf = next((k.value for k in c.keywords if k.arg == "key"), None)
            numeric = (isinstance(it.elt, ast.Call) and call_name(it.elt) == "int") or (keyf is not None and unparse(keyf) == "int")
            bare = isinstance(it.elt, ast.Name) and it.elt.id == g.target.id and keyf is None
            check.decide(numeric, "C01-R13", f"{q.split('.')[-1]}: `{call_name(c)}` over the digit keys compares integers", unparse(it.elt), mod.line(c), definite=bare,
                         fail_detail=f"`{call_name(c)}(… {unparse(it.elt)} for {g.target.id} in <keys> if {g.target.id}.isdigit() …)` orders the key STRINGS: '9' > '10', so a list / tuple / set "
                                     f"of more than ten elements is read back truncated to ten (or 100, …) without any error")
    check.floor("order-sensitive aggregates over digit keys", n, 2)


def _rule_probe_handlers(check, repo: Repo) -> None:
    """R11: `dill.loads(gzip.decompress(raw array bytes))` is a *probe* — plain arrays are expected to
    fail it, and arbitrary bytes can make gzip/pickle raise any exception class (EOFError on empty input,
    zlib.error, UnpicklingError, AttributeError, …).  The fallback handler must therefore catch Exception."""
    n_sites = 0
    for q in (f"{SER}:AutoSerialize._recursive_load", f"{SER}:AutoSerialize._deserialize_container"):
        mod, fn = repo.func(q)
        for t in ast.walk(fn):
            if not isinstance(t, ast.Try):
                continue
            body_calls = {call_name(c) or "" for st in t.body for c in ast.walk(st) if isinstance(c, ast.Call)}
            if not (body_calls & {"dill.loads", "pickle.loads"}):
                continue
            # a probe = the payload comes from array bytes read in the same function and the handler substitutes the array
            if not any("tobytes" in (call_name(c) or "") or (isinstance(c.func, ast.Attribute) and c.func.attr == "tobytes") for st in t.body for c in ast.walk(st) if isinstance(c, ast.Call)):
                continue
            n_sites += 1
            broad = False
            for h in t.handlers:
                names = [] if h.type is None else [dotted(x) or unparse(x) for x in (h.type.elts if isinstance(h.type, ast.Tuple) else [h.type])]
                if h.type is None or any(nm in ("Exception", "BaseException") for nm in names):
                    broad = True
            caught = [unparse(h.type) if h.type is not None else "<bare>" for h in t.handlers]
            check.decide(broad, "C01-R11", f"{q.split('.')[-1]}: the gzip+dill probe on raw array bytes falls back to the plain array on every failure", str(caught), mod.line(t),
                         fail_detail=f"handlers catch only {caught}: bytes of a plain array can raise other classes (e.g. EOFError for an empty array → "
                                     f"gzip.decompress(b'') == b'' → dill.loads(b'')), and load() aborts instead of returning the array")
    check.floor("raw-array probes", n_sites, 1)
    # sibling agreement: the writer's fallback arm (dill + gzip → byte array) is taken for the same value kinds inside containers as at object level,
    # so EVERY reader of plain array keys must apply the same probe; a container reader that returns the raw array hands back the gzip bytes
    # (e.g. {"k": 1j} or [np.complex64(2j)] come back as uint8 arrays)
    mod, dc = repo.func(f"{SER}:AutoSerialize._deserialize_container")
    readers = [c for c in ast.walk(dc) if isinstance(c, ast.Call) and (call_name(c) or "").endswith("_read_array_np")]
    n_r = 0
    for c in readers:
        # the enclosing function (the container reader itself or a nested helper such as maybe_tensor)
        encl = dc
        for f in ast.walk(dc):
            if isinstance(f, ast.FunctionDef) and f is not dc and f.lineno <= c.lineno <= (f.end_lineno or f.lineno):
                encl = f
        # element reads only: the ndarray fast path ("values") and tensor payloads are typed by their markers
        if c.args and len(c.args) > 1 and isinstance(c.args[1], ast.Constant):
            continue
        n_r += 1
        probed = any(isinstance(x, ast.Call) and (call_name(x) or "") in ("dill.loads", "pickle.loads") for x in ast.walk(encl))
        check.decide(probed, "C01-R11", f"_deserialize_container.{encl.name if encl is not dc else '<body>'}: plain array elements pass the same gzip+dill probe as object-level arrays", "",
                     mod.line(c), fail_detail="array elements of containers are returned without the probe: a value the writer sent through the dill fallback (Python/NumPy complex scalars, "
                                              "bytes, any unsupported kind) comes back as the raw gzip byte array when it sits inside a list, tuple, set or dict")
    check.floor("container array-element readers", n_r, 1)


def _rule_config(check, repo: Repo) -> None:
    """R9: store kind / compression only select *where* and *how compressed* bytes go; both
    store arms of save make the same serialisation calls."""
    mod, save_fn = repo.func(f"{SER}:AutoSerialize.save")
    # locate the store dispatch
    chain = None
    for st in save_fn.body:
        if isinstance(st, ast.If) and isinstance(st.test, ast.Compare) and dotted(st.test.left) == "store":
            c = st.test.comparators[0]
            if isinstance(c, ast.Constant) and c.value in ("zip", "dir") and isinstance(st.test.ops[0], ast.Eq):
                chain = st
    if chain is None:
        raise AnalysisError("save: store dispatch chain not found")
    arms, else_body = flatten_if_chain(chain)
    sigs = {}
    for test, body in arms:
        label = test.comparators[0].value
        fake = ast.Module(body=body, type_ignores=[])
        calls = []
        for c in calls_in(fake):
            cn = call_name(c) or ""
            if cn in ("self._recursive_save", "write_skip_metadata"):
                # arguments bound to parameter names (positional and keyword spellings of the same call are the same call)
                pnames = []
                if cn == "self._recursive_save":
                    pnames = [a.arg for a in repo.func(f"{SER}:AutoSerialize._recursive_save")[1].args.args if a.arg not in ("self", "cls")]
                bound = {}
                for i_, a in enumerate(c.args):
                    bound[pnames[i_] if i_ < len(pnames) else f"#{i_}"] = unparse(a)
                for k in c.keywords:
                    if k.arg:
                        bound[k.arg] = unparse(k.value)
                calls.append(cn + "(" + ", ".join(f"{k}={v}" for k, v in sorted(bound.items())) + ")")
        sigs[label] = calls
    ok = len(sigs) == 2 and sigs.get("zip") == sigs.get("dir") and len(sigs.get("zip", [])) == 2
    check.decide(ok, "C01-R9", "save: zip and dir arms make the same serialisation calls",
                 str(sigs), mod.line(chain),
                 fail_detail=f"the two store arms differ in their serialisation calls: {sigs}")
    # compressors is only forwarded, never tested, inside the codec functions
    bad = []
    for q in ("_serialize_value", "_serialize_container", "_recursive_save", "_write_ndarray", "_write_bytes"):
        _, fn = repo.func(f"{SER}:AutoSerialize.{q}")
        for n in ast.walk(fn):
            if isinstance(n, (ast.If, ast.IfExp, ast.While)) and "compressors" in names_in(n.test):
                bad.append(f"{q}: `{unparse(n.test)}`")
    check.decide(not bad, "C01-R9", "codec functions never branch on the compression setting",
                 "", mod.line(save_fn), fail_detail=f"codec behaviour depends on compression: {bad}")


def _rule_fresh_root(check, repo: Repo) -> None:
    """C01-R13 — an overwriting save starts from an empty store.  Two guarantees exist: the root group is created with `overwrite=True`, and the `mode == 'o'` arm
    removes an existing directory.  Either suffices; with neither, a second save(mode='o') onto an existing directory store re-opens the old group and load() returns a
    mixture of the two objects (stale arrays, attributes and dict keys survive)."""
    smod, save = repo.func(f"{SER}:AutoSerialize.save")
    roots = [c for c in calls_in(save) if (call_name(c) or "").split(".")[-1] in ("group", "open_group", "create_group") and (call_name(c) or "").startswith("zarr")]
    helper_roots = []
    for c in calls_in(save):
        cn = call_name(c) or ""
        if cn.startswith(("self.", "cls.", "AutoSerialize.")) and repo.has(f"{SER}:AutoSerialize.{cn.split('.')[-1]}"):
            _m, h = repo.func(f"{SER}:AutoSerialize.{cn.split('.')[-1]}")
            hr = [x for x in calls_in(h) if (call_name(x) or "").split(".")[-1] in ("group", "open_group") and (call_name(x) or "").startswith("zarr")]
            if hr and any(isinstance(r, ast.Return) for r in ast.walk(h)):
                helper_roots += hr
    roots += helper_roots
    if not roots:
        raise AnalysisError("save: creation of the root group not found")
    # the directory-store root: the call whose store argument is built from the target path (not the temporary directory of the zip branch)
    dir_arm = [n for n in ast.walk(save) if isinstance(n, ast.If) and unparse(n.test) in ("store == 'zip'", "store == 'dir'")]
    ov_all = all(is_const(kwarg(c, "overwrite"), True) for c in roots)
    mode_o = [n for n in ast.walk(save) if isinstance(n, ast.If) and "mode == 'o'" in unparse(n.test)]
    if not mode_o:
        raise AnalysisError("save: the mode == 'o' arm not found")
    rm_dir = []
    for n in ast.walk(mode_o[0]):
        if isinstance(n, ast.Call) and (call_name(n) or "").endswith("rmtree"):
            # guards between the mode arm and the call: a guard that excludes the directory store (`store != 'dir'`) voids the guarantee for it
            cur, excl = n, False
            while cur is not mode_o[0] and cur is not None:
                par = parent(cur)
                if isinstance(par, ast.If) and cur in par.body and any(isinstance(x, ast.Compare) and unparse(x) in ("store != 'dir'", "store == 'zip'") for x in ast.walk(par.test)):
                    excl = True
                cur = par
            if not excl:
                rm_dir.append(n)
    key_ = "save[dir, mode='o']: the store is empty when the object is written (root group created with overwrite=True, or the existing directory removed first)"
    check.decide(ov_all or bool(rm_dir), "C01-R13", key_, f"overwrite=True on every root: {ov_all}; directory removed under mode 'o': {bool(rm_dir)}", smod.line(roots[0]), definite=True,
                 fail_detail="neither guarantee holds: the root group is (re)opened without overwrite=True and the mode='o' arm no longer removes an existing directory store — saving a second "
                             "object over a directory store keeps the first one's arrays, attributes and dict keys; load() returns a mixture")


def _rule_tensor_flag(check, repo: Repo) -> None:
    """C01-R14 — the recorded `_tensor_requires_grad` flag.  Harmless while nothing reads it; once a reader restores requires_grad from it, it must be the tensor's own
    `requires_grad` (for every dtype — complex tensors require grad too)."""
    smod, sv = repo.func(f"{SER}:AutoSerialize._serialize_value")
    stores = [n for n in ast.walk(sv) if isinstance(n, ast.Assign) and isinstance(n.targets[0], ast.Subscript) and is_const(n.targets[0].slice, "_tensor_requires_grad")]
    if not stores:
        raise AnalysisError("_serialize_value: `_tensor_requires_grad` is not recorded")
    readers = []
    for q_ in (f"{SER}:AutoSerialize._recursive_load", f"{SER}:AutoSerialize._deserialize_container"):
        _m, f_ = repo.func(q_)
        for c in calls_in(f_):
            if isinstance(c.func, ast.Attribute) and c.func.attr == "get" and c.args and is_const(c.args[0], "_tensor_requires_grad"):
                readers.append((q_.split(".")[-1], c))
        for x in ast.walk(f_):
            if isinstance(x, ast.Subscript) and isinstance(x.ctx, ast.Load) and is_const(x.slice, "_tensor_requires_grad"):
                readers.append((q_.split(".")[-1], x))
    for st in stores:
        v = st.value
        while isinstance(v, ast.Call) and call_name(v) == "bool" and v.args:
            v = v.args[0]
        exact = isinstance(v, ast.Attribute) and v.attr == "requires_grad" and isinstance(v.value, ast.Name)
        key_ = "_serialize_value[tensor]: the recorded requires_grad flag is the tensor's own flag wherever a reader restores from it"
        if exact or not readers:
            check.holds("C01-R14", key_, "exact flag" if exact else "narrowed flag, but no reader consumes it", smod.line(st))
        else:
            check.violated("C01-R14", key_, f"`{unparse(st.value)[:60]}` is not the tensor's requires_grad, and {readers[0][0]} restores requires_grad from it: tensors for which the "
                           f"expression differs (e.g. complex tensors under an `is_floating_point()` conjunct) silently load with requires_grad=False", smod.line(st), definite=True)


MANIFEST = {
    "text": "Decides the structural part of the round trip: writer and reader of the zarr codec agree for every "
            "value kind and every container context — marker coverage in all four reader contexts, payload "
            "names, reserved-key filtering (attribute-set equality / fixed point), no overwritten tags, "
            "container-kind and fast-path tables, array storage classes (0-d / empty / regular), first-match "
            "dispatch order on a table of 28 value kinds, path-flag routing, store/compression "
            "non-interference. One obligation speaks for every object graph that flows through the construct.",
    "note": "Not decided: fidelity of zarr/torch/dill encodings themselves, int64 range, JSON float round trip "
            "(third-party behaviour, trusted); a wrong but self-consistent encoding inside one arm pair. "
            "Trusted: the value-kind fact table (Appendix B of DESIGN.md) and CPython's ast.",
    "technique": "codec-schema extraction + writer/reader set agreement + first-match dispatch evaluation (AST)",
}
MANIFEST["text"] += ' Also: element-wise encoded sequences are decoded in numeric index order (R10); the gzip+dill probe on raw array bytes falls back on every exception (R11).'
MANIFEST["text"] += " R13: order-sensitive aggregates (max/min/sorted) over the digit-string element keys compare integers ('9' > '10' as strings). R6 also requires every rebinding of the array parameter in _write_ndarray to be a shape-preserving conversion (np.ascontiguousarray / atleast_nd / ravel … change the rank of a 0-d array)."
MANIFEST["text"] += ' R12 skips private helpers nothing references (dead code decides nothing).'
MANIFEST["text"] += " R13/R14 are coupled rules: an overwriting directory save starts from an empty store (overwrite=True on the root group, or the mode-'o' arm removes the directory); the recorded tensor requires_grad flag is exact wherever a reader restores from it."
