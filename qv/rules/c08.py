"""C08 — failed saves leave no loadable partial object; write-once (E3 on a CFG with
exception edges)."""
from __future__ import annotations

import ast
from typing import Optional

from ..core.repo import (AnalysisError, Repo, call_name, calls_in, dotted, func_params, is_const, names_in,
                         unparse)
from ..domains.codec import SER
from ..domains.effects import EffectAnalysis, Effect

EXPLANATION = (
    "filesystem-effect analysis of AutoSerialize.save on a CFG with exception edges: every effect "
    "on the target is dominated by the existence test and allowed on the exists-path only under "
    "mode 'o'; the target variable is not rebound after the test; effect paths derive only from "
    "the target or a tempfile staging area; every non-atomic target write reaches the exceptional "
    "exit only through removal of the target; publication is unreachable after a failed staging step"
)


def _exists_tests(ea: EffectAnalysis, include_handlers: bool = False) -> list[int]:
    """Test nodes of the accepted form: os.path.exists(<target>) (possibly widened by `or`)."""
    out = []
    from ..core.repo import enclosing
    for n in ea.cfg.nodes:
        if n.kind != "test":
            continue
        if not include_handlers and enclosing(n.stmt, (ast.ExceptHandler,)) is not None:
            continue  # a test inside an except clause is cleanup logic, not the write-once guard
        t = n.expr
        neg = isinstance(t, ast.UnaryOp) and isinstance(t.op, ast.Not)   # `if not os.path.exists(target): …` — the False branch is "exists"
        if neg:
            t = t.operand
            ea.__dict__.setdefault("negated_tests", set()).add(n.id)
        disj = t.values if isinstance(t, ast.BoolOp) and isinstance(t.op, ast.Or) and not neg else [t]
        for d in disj:
            if isinstance(d, ast.Call):
                cn = call_name(d) or ""
                if cn in ("os.path.exists", "os.path.lexists") and d.args and isinstance(d.args[0], ast.Name) \
                        and d.args[0].id in ea.targets:
                    out.append(n.id)
                    break
                if isinstance(d.func, ast.Attribute) and d.func.attr == "exists" and not d.args:
                    inner = d.func.value
                    if isinstance(inner, ast.Call) and call_name(inner) in ("Path", "pathlib.Path") and inner.args \
                            and isinstance(inner.args[0], ast.Name) and inner.args[0].id in ea.targets:
                        out.append(n.id)
                        break
    return out


def _mode_o_branches(ea: EffectAnalysis) -> list[int]:
    """Branch pseudo-nodes on which mode == 'o' holds."""
    out = []
    for n in ea.cfg.nodes:
        if n.kind != "branch":
            continue
        t = ea.cfg.nodes[n.test]
        if t.kind != "test" or not isinstance(t.expr, ast.Compare) or len(t.expr.ops) != 1:
            continue
        l, op, r = t.expr.left, t.expr.ops[0], t.expr.comparators[0]
        if isinstance(l, ast.Name) and l.id == "mode":
            if isinstance(r, ast.Constant) and r.value == "o":
                if (isinstance(op, ast.Eq) and n.polarity) or (isinstance(op, ast.NotEq) and not n.polarity):
                    out.append(n.id)
            elif isinstance(r, (ast.Tuple, ast.List, ast.Set)) and isinstance(op, ast.In) and n.polarity:
                vals = [e.value for e in r.elts if isinstance(e, ast.Constant)]
                if vals == ["o"]:
                    out.append(n.id)
    return out


def _resolve_helper(repo: Repo, mod, cls: Optional[ast.ClassDef], fn: ast.AST, call: ast.Call):
    """A callee of `save` that we can analyse: nested function, method of the class, module function."""
    cn = call_name(call) or ""
    parts = cn.split(".")
    if len(parts) == 1:
        for n in ast.walk(fn):
            if isinstance(n, (ast.FunctionDef, ast.AsyncFunctionDef)) and n.name == parts[0] and n is not fn:
                return n, 0
        for n in mod.tree.body:
            if isinstance(n, ast.FunctionDef) and n.name == parts[0]:
                return n, 0
    if len(parts) == 2 and parts[0] in ("self", "cls", "AutoSerialize") and cls is not None:
        for n in cls.body:
            if isinstance(n, (ast.FunctionDef, ast.AsyncFunctionDef)) and n.name == parts[1]:
                is_static = any(dotted(d) == "staticmethod" for d in n.decorator_list)
                return n, (0 if is_static or parts[0] == "AutoSerialize" and is_static else 1)
    return None, 0


def _key(e: Effect) -> str:
    return f"{e.name}({unparse(e.path_arg) if e.path_arg is not None else '…'})"


# Calls that no effect table lists but that today's save() makes on the target / the staging area: read and confirmed, one reason each.
CONFIRMED_CALLS = {
    "zarr.group": "creates the root group inside the store object it is given",
    "self._recursive_save": "writes attributes / arrays / sub-groups below the group it is given",
    "write_skip_metadata": "closure of save(): stores the skip lists in the root group's attributes",
    "zf.write": "adds one staged file to the open archive",
    "super().save": "the base-class implementation (analysed itself)",
}


def _closed(a: EffectAnalysis, resolved: set[str]) -> bool:
    """Closed vocabulary: every effect of the analysed function is classified by a table, is one of the hand-confirmed calls above, or is
    a helper that was resolved and analysed itself.  Then a path verdict does not rest on the conservative 'unknown call = write' fallback
    and does not depend on how the function is laid out — it is reported as definite."""
    return all(e.known or e.kind == "yield" or e.name.startswith("store:") or e.name in CONFIRMED_CALLS or e.name.split(".")[-1] in resolved
               for e in a.effects)


def run(check, repo: Repo) -> None:
    mod, save_fn = repo.func(f"{SER}:AutoSerialize.save")
    _, cls = repo.cls(f"{SER}:AutoSerialize")
    _, load_fn = repo.func(f"{SER}:load")
    check.analysed(f"{SER}:AutoSerialize.save", f"{SER}:load")
    params = [a.arg for a in save_fn.args.args]
    if len(params) < 2:
        raise AnalysisError("save: unexpected signature")
    target = params[1]
    ea = EffectAnalysis(save_fn, {target}, mod)
    cfg = ea.cfg
    tef = ea.target_effects()
    check.floor("save: effects on the target", len(tef), 8)
    check.extra["effect_sites"] = [
        {"call": e.text, "kind": e.kind, "tags": sorted(e.tags), "line": cfg.nodes[e.node].lineno} for e in ea.effects]
    check.assume("effect tables for os/shutil/zipfile/zarr/tempfile are complete for the calls present; "
                 "an unknown call receiving a target-derived value is treated as a target write")
    check.assume("exception edges: every statement containing a call may raise")

    # helpers that receive the target: analysed with their parameter as the target
    helper_eas: list[tuple[str, EffectAnalysis]] = []
    for e in list(tef):
        if isinstance(e.call, ast.Call):
            h, skip = _resolve_helper(repo, mod, cls, save_fn, e.call)
            if h is not None:
                hparams = [a.arg for a in h.args.args][skip:]
                tparams = set()
                st = ea.state_in.get(e.node, {})
                for i, a in enumerate(e.call.args):
                    if i < len(hparams) and ({"T", "T'"} & set(ea._expr_tags(a, st))):
                        tparams.add(hparams[i])
                for k in e.call.keywords:
                    if k.arg and ({"T", "T'"} & set(ea._expr_tags(k.value, st))):
                        tparams.add(k.arg)
                if tparams:
                    helper_eas.append((h.name, EffectAnalysis(h, tparams, mod)))
                    check.analysed(f"{SER}:…{h.name}")

    resolved = {h for h, _ in helper_eas}
    closed = {id(a): _closed(a, resolved) for a in [ea] + [x for _, x in helper_eas]}
    check.extra["closed_vocabulary"] = {lbl: closed[id(a)] for lbl, a in [("save", ea)] + helper_eas}
    # ---- R1 write-once --------------------------------------------------------------------
    tests = _exists_tests(ea)
    if not tests:
        check.violated("C08-R1", "save: existence test on the target",
                       "no test of the form os.path.exists(<target>) guards the effects: an existing target "
                       "can be modified in write-once mode (a narrower test, e.g. on a file inside the target, "
                       "does not protect every existing target)", mod.line(save_fn))
    else:
        T = tests[0]
        t_true = [n.id for n in cfg.nodes if n.kind == "branch" and n.test == T and bool(n.polarity) != (T in getattr(ea, "negated_tests", ()))][0]
        mode_o = _mode_o_branches(ea)
        for e in tef:
            dom = cfg.dominates(T, e.node)
            check.decide(dom, "C08-R1", f"save: {_key(e)} is preceded by the existence test on every path",
                         e.text, mod.line(cfg.nodes[e.node].stmt),
                         fail_detail=f"`{e.text}` touches the target on a path that has not tested "
                                     f"os.path.exists({target})", definite=closed[id(ea)] and e.known)
            guarded = e.node not in cfg.reachable_from(t_true, avoid=mode_o)
            check.decide(guarded, "C08-R1", f"save: {_key(e)} on an existing target only under mode 'o'",
                         e.text, mod.line(cfg.nodes[e.node].stmt),
                         fail_detail=f"`{e.text}` is reachable when the target exists and mode is not 'o': "
                                     f"write-once mode can modify an existing target", definite=closed[id(ea)] and e.known)
        # the target variable must not be rebound after the test
        reach = cfg.reachable_from(T)
        late = [s for s in ea.target_stores if s in reach and s != T]

        # a late re-normalisation that an identical, dominating one has already made a no-op (`if not p.endswith(X): p += X` twice) tests and writes the same path
        def _conj(n_):
            out = set()
            for t_, pol in cfg.guards_of(n_):
                parts = t_.values if (pol and isinstance(t_, ast.BoolOp) and isinstance(t_.op, ast.And)) else [t_]
                for p_ in parts:
                    out.add((unparse(p_), bool(pol)))
            return out
        early = [s for s in ea.target_stores if s not in reach and cfg.dominates(s, T) is False and s != T]
        early = [s for s in ea.target_stores if s != T and s not in late]

        def _idempotent(ls):
            lst, lg = cfg.nodes[ls].stmt, _conj(ls)
            suffix_guard = {g for g in lg if g[1] and g[0].startswith(f"not {target}.endswith(")}
            if not suffix_guard or not isinstance(lst, ast.AugAssign) or not isinstance(lst.value, ast.Constant):
                return False
            if unparse(ast.parse(next(iter(suffix_guard))[0][4:], mode="eval").body.args[0]) != unparse(lst.value):
                return False
            for es in early:
                est_ = cfg.nodes[es].stmt
                if unparse(est_) == unparse(lst) and _conj(es) <= lg and suffix_guard <= _conj(es) and T in cfg.reachable_from(es):
                    # every path into the late site satisfies the early guard's other conjuncts, so the early append ran whenever it was needed
                    other = {n_.id for n_ in cfg.nodes if n_.kind == "stmt" and n_.id not in (es, ls) and n_.id in ea.target_stores}
                    return not (other & cfg.reachable_from(es))
            return False
        late = [s for s in late if not _idempotent(s)]
        check.decide(not late, "C08-R1", f"save: '{target}' is not rebound after the existence test",
                     "", mod.line(cfg.nodes[T].stmt),
                     fail_detail=f"'{target}' is reassigned at line(s) {[cfg.nodes[s].lineno for s in late]} after "
                                 f"the existence test: the path that was tested is not the path that is written")
        # the complement raises
        t_true_reach_exit = cfg.exit in cfg.reachable_from(t_true, avoid=mode_o)
        check.decide(not t_true_reach_exit, "C08-R1", "save: existing target and mode ≠ 'o' never returns normally",
                     "", mod.line(cfg.nodes[T].stmt),
                     fail_detail="save can return normally when the target exists and mode is not 'o'", definite=closed[id(ea)])

    # ---- R2 confinement -------------------------------------------------------------------
    n_conf = 0
    for label, a in [("save", ea)] + helper_eas:
        for e in a.effects:
            if e.path_arg is None or e.kind == "yield":
                continue
            if e.name.split(".")[-1] not in ("remove", "unlink", "rmtree", "rmdir", "makedirs", "mkdir", "open",
                                             "ZipFile", "LocalStore", "replace", "rename", "move", "copy",
                                             "copy2", "copytree", "copyfile", "removedirs"):
                continue
            n_conf += 1
            ptags = set(e.path_tags)
            ok = bool(ptags) and ptags <= {"T", "S"}
            why = ("sibling/derived path of the target" if "T'" in ptags else
                   "path not derived from the target or a tempfile staging area" if not ptags else "")
            check.decide(ok, "C08-R2", f"{label}: {e.name} path ∈ {{target, staging}}",
                         f"{e.text} tags={sorted(ptags)}", mod.line(a.cfg.nodes[e.node].stmt),
                         fail_detail=f"`{e.text}` acts on `{unparse(e.path_arg)}` ({why}): a save may only alter its "
                                     f"target (and its private temporary directory)", definite="T'" in ptags)
    check.floor("filesystem mutator sites", n_conf, 6)

    # ---- R3 no partial publication ---------------------------------------------------------
    marker_keys = _load_required_keys(load_fn)
    for label, a in [("save", ea)] + helper_eas:
        c = a.cfg
        if a is not ea and not any(e.kind == "yield" for e in a.effects):
            # an ordinary helper propagates its exceptions to the call site in save(), which is
            # itself a write effect checked above; only generator helpers (context managers, whose
            # body's exceptions are thrown in at `yield`) decide cleanup themselves
            continue
        absent = set()
        # `if os.path.exists(target): remove(target)` — on the False branch the target is absent
        for t in _exists_tests(a, include_handlers=True):
            absent |= {n.id for n in c.nodes if n.kind == "branch" and n.test == t and bool(n.polarity) == (t in getattr(a, "negated_tests", ()))}
        writes = [e for e in a.effects if e.kind == "write"]
        openers = [e for e in a.effects if e.kind in ("write", "creator") and "T" in e.path_tags and e.name.split(".")[-1] in TARGET_KIND]
        for e in writes:
            # what the target is while this write runs: a file (zip archive) or a directory (zarr LocalStore) — decided by the opener that dominates it
            kinds = {TARGET_KIND[o.name.split(".")[-1]] for o in openers if o.node == e.node or c.dominates(o.node, e.node)}
            if len(kinds) > 1:
                raise AnalysisError(f"{label}: target of `{e.text}` is opened both as file and as directory")
            kind = next(iter(kinds), None)
            removals = set(absent)
            mismatched = []
            for r in a.effects:
                if r.kind != "remove":
                    continue
                rk = None if "|" in r.name else REMOVER_KIND.get(r.name.split(".")[-1])   # a|b: file or directory chosen at run time
                if kind is None or rk is None or rk == kind:
                    removals.add(r.node)
                else:
                    mismatched.append(r)
            # every way of leaving exceptionally after (or during) this write passes a removal
            leaks = c.raise_exit in _reach_noraise(a, e.node, removals)
            if leaks and mismatched and c.raise_exit not in _reach_noraise(a, e.node, removals | {r.node for r in mismatched}):
                check.violated("C08-R3", f"{label}: failure at or after `{e.name}` removes the partial target",
                               f"the only cleanup on the failure path of `{e.text}` is `{mismatched[0].text}`, which removes a "
                               f"{REMOVER_KIND[mismatched[0].name.split('.')[-1]]} — but the target is a {kind} here: the call fails (silently with ignore_errors) and the partial "
                               f"{kind} stays on disk", mod.line(c.nodes[mismatched[0].node].stmt), definite=closed[id(a)])
                continue
            exempt = _completeness_marker_protects(a, e, marker_keys)
            check.decide(
                (not leaks) or exempt, "C08-R3",
                f"{label}: failure at or after `{e.name}` removes the partial target",
                e.text, mod.line(c.nodes[e.node].stmt),
                fail_detail=f"`{e.text}` writes to the target; if it (or a later step) raises, the exception "
                            f"leaves save() without the target being removed, renamed atomically or protected "
                            f"by a completeness marker: a partial but loadable object stays on disk", definite=closed[id(a)])
    # ---- R5 overrides delegate --------------------------------------------------------------
    _rule_overrides(check, repo)
    # ---- R4 staging precedes publication ---------------------------------------------------
    n_pairs = 0
    for label, a in [("save", ea)] + helper_eas:
        c = a.cfg
        stag = [e for e in a.effects if e.kind in ("staging", "yield")]
        pubs = [e for e in a.effects if e.kind in ("write", "atomic", "creator")]
        for s in stag:
            after_fail = c.reachable_after_failure_of(s.node)
            for p in pubs:
                related = p.node in c.reachable_from(s.node) or s.node in c.reachable_from(p.node)
                if not related or p.node == s.node:
                    continue
                n_pairs += 1
                bad_fail = p.node in after_fail
                check.decide(
                    not bad_fail, "C08-R4",
                    f"{label}: `{p.name}` unreachable after a failed `{s.name}`",
                    f"{s.text} ↛ {p.text}", mod.line(c.nodes[p.node].stmt),
                    fail_detail=f"when `{s.text}` raises, control can still reach `{p.text}`: an incomplete "
                                f"staging area is published to the target", definite=closed[id(a)])
                if s.kind == "staging" and s.name.split(".")[-1] in ("_recursive_save", "write_skip_metadata"):
                    dom = c.dominates(s.node, p.node)
                    check.decide(
                        dom, "C08-R4", f"{label}: `{s.name}` completes before `{p.name}`",
                        "", mod.line(c.nodes[p.node].stmt),
                        fail_detail=f"`{p.text}` touches the target on a path where `{s.text}` has not run: "
                                    f"an unserialisable attribute can leave something at the target", definite=closed[id(a)])
    check.floor("staging/publication pairs", n_pairs, 4)


TARGET_KIND = {"ZipFile": "file", "open": "file", "makedirs": "directory", "mkdir": "directory", "LocalStore": "directory", "copytree": "directory"}
REMOVER_KIND = {"remove": "file", "unlink": "file", "rmtree": "directory", "rmdir": "directory", "removedirs": "directory"}
def _rule_overrides(check, repo: Repo) -> None:
    """R5: a subclass that overrides save() delegates every effect on the target to AutoSerialize.save: the override itself never
    removes, renames or creates the target path (an `except: remove(path)` around super().save() deletes the existing complete
    object exactly when the base class refuses to overwrite it)."""
    bmod, bcls = repo.cls(f"{SER}:AutoSerialize")
    n = 0
    for m, c in repo.subclasses(bmod, bcls):
        for f in c.body:
            if not (isinstance(f, ast.FunctionDef) and f.name == "save"):
                continue
            ps = func_params(f)
            if len(ps) < 2:
                continue
            n += 1
            check.analysed(f"{m.name}:{c.name}.save")
            a = EffectAnalysis(f, {ps[1]}, m)
            bad = [e for e in a.effects if e.kind in ("remove", "creator", "atomic") and "T" in e.path_tags]
            # pathlib spellings on the target: Path(path).unlink() / .rmdir() / .rename() / .replace()
            for x in ast.walk(f):
                if isinstance(x, ast.Call) and isinstance(x.func, ast.Attribute) and x.func.attr in ("unlink", "rmdir", "rename", "replace", "mkdir", "touch", "write_bytes", "write_text") \
                        and ps[1] in names_in(x.func.value) and not any(e.node in a.cfg.node_containing(x) for e in bad):
                    bad.append(type("E", (), {"text": unparse(x)[:60], "node": (a.cfg.node_containing(x) or [a.cfg.entry])[0]})())
            delegates = any(isinstance(x, ast.Call) and isinstance(x.func, ast.Attribute) and x.func.attr == "save" and isinstance(x.func.value, ast.Call)
                            and call_name(x.func.value) == "super" for x in ast.walk(f))
            check.decide(not bad and delegates, "C08-R5", f"{c.name}.save delegates all effects on the target to AutoSerialize.save", "", m.line(f),
                         fail_detail=(f"`{bad[0].text}` acts on the target path inside the override" if bad else "the override does not call super().save()") +
                                     ": write-once protection and failure cleanup are decided by the base class alone — a caller-side cleanup also fires when the base class raised "
                                     "FileExistsError and deletes the existing, complete object", definite=bool(bad))
    check.floor("save() overrides of AutoSerialize subclasses", n, 1)


NORAISE = {"os.path.exists", "os.path.lexists", "os.path.isdir", "os.path.isfile"}  # return False on error


def _success_flags(a: EffectAnalysis) -> dict:
    """Success flags: locals that are only ever assigned the constants True / False.  → {name: {cfg node id of each assignment: value}}"""
    fn = a.fn
    vals: dict = {}
    bad = set()
    for n in ast.walk(fn):
        if isinstance(n, (ast.Assign, ast.AnnAssign, ast.AugAssign, ast.NamedExpr, ast.For, ast.comprehension, ast.With)):
            tg = n.targets if isinstance(n, ast.Assign) else ([n.target] if hasattr(n, "target") else [i.optional_vars for i in getattr(n, "items", []) if i.optional_vars is not None])
            for t in tg:
                for x in ast.walk(t):
                    if isinstance(x, ast.Name):
                        v = getattr(n, "value", None)
                        if isinstance(n, ast.Assign) and isinstance(t, ast.Name) and isinstance(v, ast.Constant) and isinstance(v.value, bool):
                            vals.setdefault(x.id, []).append((n, v.value))
                        else:
                            bad.add(x.id)
    bad |= {p_.arg for p_ in ast.walk(fn) if isinstance(p_, ast.arg)}
    out = {}
    for nm, lst in vals.items():
        if nm in bad:
            continue
        d = {}
        for st, v in lst:
            for nid in a.cfg.node_containing(st):
                d[nid] = v
        out[nm] = d
    return out


def _reach_noraise(a: EffectAnalysis, start: int, avoid: set[int]) -> set[int]:
    """Reachability that ignores the exceptional edges of nodes whose only calls cannot raise, and that is sensitive to SUCCESS FLAGS: a local that is only ever
    assigned True / False (`complete = False … complete = True` after the last write … `finally: if not complete: remove(target)`).  The value of each flag is
    carried along the path (it starts as the value whose assignment dominates `start`, is updated at every assignment passed) and the infeasible side of a test
    on it is not followed; `if not flag and os.path.exists(target)` that comes out False with the flag False means the target is absent."""
    c = a.cfg
    flags = getattr(a, "_qv_flags", None)
    if flags is None:
        flags = a._qv_flags = _success_flags(a)
    init = {}
    for nm, assigns in flags.items():
        doms = [nid for nid in assigns if nid != start and c.dominates(nid, start)]
        if doms:
            # the dominating assignment closest to start (the one dominated by all the others)
            last = [d for d in doms if all(c.dominates(o, d) for o in doms)]
            # another assignment of the flag that can also reach start makes the value unknown
            others = [nid for nid in assigns if nid not in doms and start in c.reachable_from(nid)]
            if last and not others:
                init[nm] = assigns[last[0]]
    seen, stack = set(), [(start, tuple(sorted(init.items())))]
    reached = set()
    while stack:
        n, st = stack.pop()
        if (n, st) in seen or n in avoid:
            continue
        seen.add((n, st))
        reached.add(n)
        env = dict(st)
        node = c.nodes[n]
        for nm, assigns in flags.items():
            if n in assigns and n != start:
                env[nm] = assigns[n]
        succ = set(c.succ[n])
        exprs = a._own_exprs(node)
        calls = [x for r in exprs for x in ast.walk(r) if isinstance(x, ast.Call)]
        if n != start and node.kind == "test" and all((call_name(x) or "") in NORAISE for x in calls) and \
                (calls or all(isinstance(x, (ast.Name, ast.UnaryOp, ast.BoolOp, ast.Constant, ast.Not, ast.And, ast.Or, ast.Load)) for r in exprs for x in ast.walk(r))):
            succ -= (c.exc_succ[n] - c.normal_succ(n))          # a test on plain names (`if not completed:`) cannot raise either
        if node.kind == "stmt" and isinstance(node.stmt, ast.Assign) and isinstance(node.stmt.value, ast.Constant) and all(isinstance(t_, ast.Name) for t_ in node.stmt.targets):
            succ -= (c.exc_succ[n] - c.normal_succ(n))          # `flag = True` cannot raise
        if node.kind == "test" and node.expr is not None and env:
            conj = node.expr.values if isinstance(node.expr, ast.BoolOp) and isinstance(node.expr.op, ast.And) else [node.expr]

            def val(e_):
                if isinstance(e_, ast.Name) and e_.id in env:
                    return env[e_.id]
                if isinstance(e_, ast.UnaryOp) and isinstance(e_.op, ast.Not):
                    v_ = val(e_.operand)
                    return None if v_ is None else (not v_)
                return None
            vs = [val(e_) for e_ in conj]
            branches = {b: c.nodes[b].polarity for b in c.succ[n] if c.nodes[b].kind == "branch" and c.nodes[b].test == n}
            if any(v_ is False for v_ in vs):
                succ -= {b for b, pol in branches.items() if pol}            # the test is False
            elif all(v_ is True for v_ in vs):
                succ -= {b for b, pol in branches.items() if not pol}        # the test is True
            elif all(v_ is True or (v_ is None and isinstance(e_, ast.Call) and (call_name(e_) or "") in ("os.path.exists", "os.path.lexists", "os.path.isfile", "os.path.isdir"))
                     for v_, e_ in zip(vs, conj)) and any(v_ is True for v_ in vs):
                # flag part True, the rest is an existence test of the target: False means "nothing there" — as good as removed
                succ -= {b for b, pol in branches.items() if not pol}
        st2 = tuple(sorted(env.items()))
        stack.extend((m_, st2) for m_ in succ)
    return reached


def _load_required_keys(load_fn: ast.AST) -> set[str]:
    """Keys K such that load raises when K is absent from the root attrs."""
    keys = set()
    for n in ast.walk(load_fn):
        if isinstance(n, ast.If) and isinstance(n.test, ast.Compare) and len(n.test.ops) == 1:
            if isinstance(n.test.ops[0], ast.NotIn) and isinstance(n.test.left, ast.Constant):
                if (dotted(n.test.comparators[0]) or "").endswith(".attrs") and any(isinstance(x, ast.Raise) for x in n.body):
                    keys.add(n.test.left.value)
    return keys


def _completeness_marker_protects(a: EffectAnalysis, e: Effect, marker_keys: set[str]) -> bool:
    """Idiom (c): the last target write on the success path stores a key that load() insists on,
    and that key is stored nowhere earlier.  Only meaningful for in-place (directory) writes."""
    # conservative: recognised only when a *later* write effect (a helper call) stores such a key
    # and `e` itself does not; today no such key exists besides '_autoserialize' (written first).
    return False


MANIFEST = {
    "text": "Decides, on the CFG of save() with exception edges and a path-provenance dataflow, the structural "
            "conditions for write-once and no-partial-publication: existence test dominates every effect on the "
            "target and the exists-path reaches effects only under mode 'o'; the tested path is the written path; "
            "mutator paths are exactly the target or tempfile staging; every non-atomic target write can leave "
            "save() exceptionally only through removal of the target; publication is unreachable after a failed "
            "staging step. Crash points are modelled as an exception at any statement containing a call.",
    "note": "Not decided: what zarr/zipfile leave on disk internally, OS-level crash consistency (power loss), "
            "faults inside the removal calls themselves. Trusted: effect tables (os, shutil, zipfile, zarr, tempfile).",
    "technique": "CFG dominance/reachability with exception edges + path-provenance dataflow (effect analysis)",
}
MANIFEST["text"] += " Cleanup must use a remover of the target's kind (file ↔ os.remove/unlink, directory ↔ rmtree/rmdir)."
MANIFEST["text"] += ' Verdicts are definite under a closed vocabulary: every effect of the analysed function is classified by a table, is one of five hand-confirmed calls (zarr.group, _recursive_save, write_skip_metadata, zf.write, super().save) or is a helper that was resolved and analysed itself. `if not exists(target)` guards and local aliases of removers (`remove = rmtree if isdir else os.remove`) are resolved.'
MANIFEST["text"] += ' R1 tolerates a late path re-normalisation that an identical dominating one has made a no-op.'
