"""C14 — serializer skip lists: guards, forwarding, persisted keys (E2 + E3)."""
from __future__ import annotations

import ast

from ..core.cfg import CFG
from ..core.repo import (AnalysisError, Repo, call_name, calls_in, definitions, dotted, func_params, is_const,
                         kwarg, names_in, parent, unparse, walk_no_nested_defs)
from ..domains.codec import SER, ReaderModel, WriterModel, attrs_store_key
from .c01 import _rule_reserved_keys

EXPLANATION = (
    "skip-list discipline of the serializer decided on the source: the save-time filter dominates "
    "the only serialisation call, skip lists are forwarded unchanged along every writer call edge, "
    "every restoration loop of the loader guards its setattr with the name filter, persisted skip "
    "keys written = keys read, load merges file and user lists, skip metadata never reaches the object"
)

WRITERS = ("_serialize_value", "_serialize_container", "_recursive_save")
PTY = "quantem.diffractive_imaging.ptychography"


def _disjuncts(test: ast.AST) -> list[ast.AST]:
    if isinstance(test, ast.BoolOp) and isinstance(test.op, ast.Or):
        out = []
        for v in test.values:
            out += _disjuncts(v)
        return out
    return [test]


def _is_name_filter(t: ast.AST, keyvars: set[str], listname: str) -> bool:
    return (isinstance(t, ast.Compare) and len(t.ops) == 1 and isinstance(t.ops[0], ast.In)
            and isinstance(t.left, ast.Name) and t.left.id in keyvars
            and dotted(t.comparators[0]) == listname)


def _is_type_filter(t: ast.AST, valvars: set[str], listname: str, strict: bool = False) -> bool:
    """strict: only isinstance() counts (the property skips every *instance* of a listed type at save
    time; an exact-type test misses subclass instances)."""
    if isinstance(t, ast.Call) and call_name(t) == "isinstance" and len(t.args) == 2:
        return dotted(t.args[0]) in valvars and dotted(t.args[1]) == listname
    if not strict and isinstance(t, ast.Compare) and len(t.ops) == 1 and isinstance(t.ops[0], ast.In):
        # type(v) in skip_types
        l = t.left
        if isinstance(l, ast.Call) and call_name(l) == "type" and l.args and dotted(l.args[0]) in valvars:
            return dotted(t.comparators[0]) == listname
    return False


def run(check, repo: Repo) -> None:
    W = WriterModel(repo)
    R = ReaderModel(repo)
    mod = W.mod
    check.analysed(*(f"{SER}:AutoSerialize.{w}" for w in WRITERS),
                   f"{SER}:AutoSerialize._recursive_load", f"{SER}:AutoSerialize.save", f"{SER}:load",
                   f"{PTY}:Ptychography.save")

    # ---- R1: save-time filter dominates the serialisation call ----------------------------
    fn = W.object_fn
    cfg = CFG(fn)
    ser_calls = [c for c in calls_in(fn, nested=False) if (call_name(c) or "").endswith("._serialize_value")]
    check.floor("_recursive_save: serialisation calls", len(ser_calls), 1)
    for c in ser_calls:
        valname = dotted(c.args[0]) if c.args else None
        keyname = dotted(c.args[2]) if len(c.args) > 2 else None
        nodes = cfg.node_containing(c)
        if not nodes or valname is None or keyname is None:
            raise AnalysisError("_recursive_save: serialisation call not understood")
        name_ok = type_ok = False
        for test, pol in cfg.guards_of(nodes[0]):
            if pol:
                continue
            for d in _disjuncts(test):
                if _is_name_filter(d, {keyname}, "skip_names"):
                    name_ok = True
                if _is_type_filter(d, {valname}, "skip_types", strict=True):
                    type_ok = True
        check.decide(name_ok, "C14-R1", "_recursive_save: name filter dominates _serialize_value",
                     f"`{keyname} in skip_names` → skip", mod.line(c),
                     fail_detail="an attribute reaches _serialize_value on a path where its name was not "
                                 "tested against skip_names")
        check.decide(type_ok, "C14-R1", "_recursive_save: type filter dominates _serialize_value",
                     f"`isinstance({valname}, skip_types)` → skip", mod.line(c),
                     fail_detail="an attribute reaches _serialize_value on a path where its value was not "
                                 "tested against skip_types")
    # save-time type skipping is subclass-aware ("instances of the listed types"): an exact-type membership test `type(v) in skip_types` anywhere in the save
    # routine misses nn.Parameter under skip=[torch.Tensor], nn.Linear under skip=[nn.Module] — a positively identified test, whatever the layout
    exact = [n for n in ast.walk(fn) if isinstance(n, ast.Compare) and len(n.ops) == 1 and isinstance(n.ops[0], (ast.In, ast.NotIn)) and isinstance(n.left, ast.Call)
             and call_name(n.left) == "type" and "skip_types" in unparse(n.comparators[0])]
    check.decide(not exact, "C14-R1", "_recursive_save: skipping by type uses isinstance (subclass instances are skipped too)", "", mod.line(exact[0]) if exact else mod.line(fn),
                 definite=True, fail_detail=f"`{unparse(exact[0])[:60]}` tests the exact type: instances of a SUBCLASS of a listed type are written to the file and come back on load" if exact else "")
    # no other route writes attributes of obj: every writer effect in _recursive_save other than
    # the class-identity tag goes through that call
    other = [c for c in calls_in(fn, nested=False)
             if (call_name(c) or "").split(".")[-1] in ("_write_ndarray", "_write_bytes", "_serialize_container", "_recursive_save")]
    check.decide(not other, "C14-R1", "_recursive_save: no write path bypasses the filtered call",
                 "", mod.line(fn), fail_detail=f"direct writer calls outside the filter: {[unparse(c) for c in other]}")

    # ---- R2: skip lists forwarded unchanged along every writer call edge -------------------
    n_edges = 0
    for w in WRITERS:
        _, wf = repo.func(f"{SER}:AutoSerialize.{w}")
        params = [a.arg for a in wf.args.args]
        if "skip_names" not in params or "skip_types" not in params:
            check.violated("C14-R2", f"{w}: signature lacks skip_names/skip_types", "", mod.line(wf))
            continue
        # the parameters must not be rebound inside the function
        for pname in ("skip_names", "skip_types"):
            rebinds = definitions(wf, pname)
            check.decide(not rebinds, "C14-R2", f"{w}: parameter {pname} is never rebound", "",
                         mod.line(wf), fail_detail=f"{pname} is reassigned inside {w}: {rebinds}")
        for c in calls_in(wf, nested=False):
            callee = (call_name(c) or "").split(".")[-1]
            if callee not in WRITERS or not (call_name(c) or "").startswith(("self.", "cls.", "AutoSerialize.")):
                continue
            n_edges += 1
            _, cf = repo.func(f"{SER}:AutoSerialize.{callee}")
            cparams = [a.arg for a in cf.args.args][1:]  # drop self
            bound = {}
            for i, a in enumerate(c.args):
                if i < len(cparams):
                    bound[cparams[i]] = a
            for k in c.keywords:
                if k.arg:
                    bound[k.arg] = k.value
            for pname in ("skip_names", "skip_types"):
                a = bound.get(pname)
                ok = isinstance(a, ast.Name) and a.id == pname
                check.decide(ok, "C14-R2", f"{w} → {callee}: forwards {pname}",
                             unparse(c)[:120], mod.line(c),
                             fail_detail=f"call passes {unparse(a) if a is not None else 'nothing (default: empty)'} "
                                         f"for {pname}: skipping stops at this nesting level")
    check.floor("writer call edges", n_edges, 6)

    # ---- R3: loader guards ------------------------------------------------------------------
    lf = R.load_fn
    loops = [n for n in walk_no_nested_defs(lf) if isinstance(n, ast.For) and parent(n) is lf]
    restore_loops = []
    for lp in loops:
        fake = ast.Module(body=lp.body, type_ignores=[])
        sets = [c for c in calls_in(fake) if call_name(c) == "setattr" and c.args and dotted(c.args[0]) == "obj"]
        if sets:
            restore_loops.append((lp, sets))
    check.floor("_recursive_load: restoration loops", len(restore_loops), 3)
    lcfg = CFG(lf)
    # two defences: the per-loop name filter before each setattr, and the final `for name in skip_names: delattr(…)` sweep.  The sweep alone removes whatever a loop
    # restored by mistake, the filters alone never restore it; a name survives only when a loop lacks its filter AND the sweep does not range over all of skip_names
    full_sweep = any(dotted(l_.iter) == "skip_names" and any(call_name(c_) == "delattr" for c_ in calls_in(ast.Module(body=l_.body, type_ignores=[]))) for l_ in loops)
    partial_sweep = [l_ for l_ in loops if not dotted(l_.iter) == "skip_names" and "skip_names" in unparse(l_.iter)
                     and any(call_name(c_) == "delattr" for c_ in calls_in(ast.Module(body=l_.body, type_ignores=[])))]
    unfiltered = []
    for lp, sets in restore_loops:
        tgt = lp.target
        keyvars = {e.id for e in (tgt.elts if isinstance(tgt, ast.Tuple) else [tgt]) if isinstance(e, ast.Name)}
        label = unparse(lp.iter)
        for c in sets:
            nodes = lcfg.node_containing(c)
            ok = False
            for test, pol in lcfg.guards_of(nodes[0]) if nodes else []:
                if not pol and any(_is_name_filter(d, keyvars, "skip_names") for d in _disjuncts(test)):
                    ok = True
            if not ok:
                unfiltered.append(label)
            check.decide(ok or full_sweep, "C14-R3", f"_recursive_load[loop over {label}]: setattr guarded by the name filter",
                         "" if ok else "no filter in this loop, but the final sweep deletes every name in skip_names", mod.line(c), definite=not ok and not full_sweep,
                         fail_detail="a setattr in this loop is reachable without the key having been tested "
                                     "against skip_names: load-time skipping leaks this kind of attribute")
    # nested objects receive the skip lists
    nested = [c for c in calls_in(lf, nested=False) if (call_name(c) or "").endswith("._recursive_load")]
    check.floor("_recursive_load: nested loads", len(nested), 1)
    for c in nested:
        args = [unparse(a) for a in c.args] + [f"{k.arg}={unparse(k.value)}" for k in c.keywords]
        ok = any(a in ("skip_names", "skip_names=skip_names") for a in args) and \
            any(a in ("skip_types", "skip_types=skip_types") for a in args)
        check.decide(ok, "C14-R3", "_recursive_load: nested objects receive (skip_names, skip_types)",
                     unparse(c), mod.line(c),
                     fail_detail=f"nested load `{unparse(c)}` does not forward both skip lists: names are not "
                                 f"skipped below the first level")
    # final sweep
    sweep = None
    for lp in loops:
        if dotted(lp.iter) == "skip_names":
            fake = ast.Module(body=lp.body, type_ignores=[])
            if any(call_name(c) == "delattr" for c in calls_in(fake)):
                sweep = lp
    if sweep is None and partial_sweep and not unfiltered:
        # a sweep over a subset of the names (e.g. `skip_names - set_attrs`) is an exact no-op reduction while every restoration loop filters: what it leaves out was never set
        check.holds("C14-R3", "_recursive_load: final delattr sweep over skip_names", f"sweep over `{unparse(partial_sweep[0].iter)[:40]}`; every restoration loop filters by name", mod.line(lf))
        sweep = partial_sweep[0]
    else:
        check.decide(sweep is not None, "C14-R3", "_recursive_load: final delattr sweep over skip_names", "", mod.line(lf), definite=bool(partial_sweep and unfiltered),
                     fail_detail="attributes named in skip that were set by other means are not removed" + (f" — the sweep ranges over `{unparse(partial_sweep[0].iter)[:40]}` only while the loop(s) "
                                 f"over {unfiltered} restore without a name filter: a name skipped at load time comes back" if partial_sweep and unfiltered else ""))
    if sweep is not None:
        # "final": no restoration loop can run after the sweep — torch modules restore registered parameters / buffers / sub-modules
        # wholesale through the unfiltered _parameters/_buffers/_modules dicts, and only a sweep that comes afterwards removes them
        sn = min(lcfg.nodes_of(sweep))
        after = [unparse(lp.iter) for lp, _ in restore_loops if min(lcfg.nodes_of(lp)) in lcfg.reachable_from(sn)]
        check.decide(not after, "C14-R3", "_recursive_load: the delattr sweep runs after every restoration loop", "", mod.line(sweep),
                     fail_detail=f"restoration loop(s) over {after} run after the sweep: names restored indirectly (registered parameters, buffers and sub-modules of an "
                                 f"nn.Module/AutoSerialize hybrid come back through `_parameters`/`_buffers`/`_modules`) survive although they are skipped")

    # ---- R4: persisted keys written = keys read; load passes the union ----------------------
    _, save_fn = repo.func(f"{SER}:AutoSerialize.save")
    _, load_fn = repo.func(f"{SER}:load")
    written = {}
    for n in ast.walk(save_fn):
        if isinstance(n, ast.Assign):
            for t in n.targets:
                sk = attrs_store_key(t)
                if sk and isinstance(sk[1], ast.Constant):
                    written[sk[1].value] = n.value
    read = {}
    for c in calls_in(load_fn):
        if (call_name(c) or "").endswith("attrs.get") and c.args and isinstance(c.args[0], ast.Constant):
            if str(c.args[0].value).startswith("_autoserialize_skip"):
                read[c.args[0].value] = c
    for n in ast.walk(load_fn):
        if isinstance(n, ast.Subscript) and (dotted(n.value) or "").endswith(".attrs") and isinstance(n.slice, ast.Constant):
            if str(n.slice.value).startswith("_autoserialize_skip"):
                read[n.slice.value] = n
    check.floor("persisted skip keys", len(written), 2)
    check.decide(set(written) == set(read), "C14-R4", "skip metadata: keys written by save = keys read by load",
                 f"written {sorted(written)} read {sorted(read)}", mod.line(load_fn),
                 fail_detail=f"save writes {sorted(written)}, load reads {sorted(read)}")
    # values written derive from the normalised skip lists
    # the normalised lists are the values handed to _recursive_save in the skip_names / skip_types positions
    rs_calls = [c for c in calls_in(save_fn) if (call_name(c) or "").endswith("._recursive_save")]
    role_names = {"skip_names": set(), "skip_types": set()}
    for c in rs_calls:
        if len(c.args) >= 4:
            role_names["skip_names"].add(unparse(c.args[2]))
            role_names["skip_types"].add(unparse(c.args[3]))
    for key, val in written.items():
        src = "skip_names" if "names" in key else "skip_types"
        check.decide(bool(role_names[src] & names_in(val)), "C14-R4", f"save: '{key}' is computed from {src}",
                     unparse(val)[:100], mod.line(val),
                     fail_detail=f"'{key}' is written as `{unparse(val)}`, not from {src}")
    # load: the skip_names handed to _recursive_load derive from BOTH the user's skip and the file's
    final = [c for c in calls_in(load_fn, nested=False) if (call_name(c) or "").endswith("._recursive_load")]
    if len(final) != 1:
        raise AnalysisError("load: expected exactly one _recursive_load call")
    bound = {k.arg: k.value for k in final[0].keywords if k.arg}
    for i, a in enumerate(final[0].args):
        bound[["group", "skip_names", "skip_types"][i]] = a
    for pname, key in (("skip_names", "_autoserialize_skip_names"), ("skip_types", "_autoserialize_skip_types")):
        a = bound.get(pname)
        if a is None:
            check.violated("C14-R4", f"load: passes {pname} to _recursive_load", "argument missing", mod.line(final[0]))
            continue
        closure_names, closure_consts = _closure(load_fn, a)
        ok = "skip" in closure_names and key in closure_consts
        check.decide(ok, "C14-R4", f"load: {pname} = user list ∪ list stored in the file",
                     f"derives from names {sorted(closure_names)[:8]}", mod.line(final[0]),
                     fail_detail=f"the {pname} handed to _recursive_load do not derive from both the `skip` "
                                 f"argument and root.attrs['{key}'] (sources: {sorted(closure_names)}, keys {sorted(closure_consts)})")

    # the merged NAME set is a pure union: nothing narrows the user's names before the recursion (a name that only occurs in nested objects is
    # absent from the root group — intersecting with the root's keys drops it for every depth)
    a = bound.get("skip_names")
    e = a
    seen_ = 0
    while isinstance(e, ast.Name) and seen_ < 4:
        dd = [d for d in definitions(load_fn, e.id) if isinstance(d, ast.AST)]
        if len(dd) != 1:
            break
        e, seen_ = dd[0], seen_ + 1
    narrowing = [unparse(x)[:60] for x in ast.walk(e) if (isinstance(x, ast.BinOp) and isinstance(x.op, (ast.BitAnd, ast.Sub)))
                 or (isinstance(x, ast.Call) and isinstance(x.func, ast.Attribute) and x.func.attr in ("intersection", "difference", "intersection_update", "difference_update"))
                 or (isinstance(x, (ast.SetComp, ast.ListComp, ast.GeneratorExp)) and any(g.ifs for g in x.generators))] if e is not None else []
    check.decide(e is not None and not narrowing, "C14-R4", "load: the merged skip names are a plain union (no intersection / difference / filter narrows the user's names)",
                 unparse(e)[:80] if e is not None else "", mod.line(e) if e is not None else mod.line(final[0]),
                 fail_detail=f"`{unparse(e)[:90] if e is not None else '?'}` narrows the names with {narrowing}: a load-time name that exists only below the root survives in the nested objects — "
                             f"load-time skipping no longer matches save-time skipping")

    # ---- R8: the skip collections are shared by the whole traversal (one set per save()/load(), passed down unchanged and written to the
    # file metadata): inside the traversal functions they are read-only.  A name added while visiting one object becomes a name-skip for every
    # object visited later and for every later load — "exactly the named attributes" no longer holds.
    MUT = {"add", "update", "discard", "remove", "pop", "clear", "append", "extend", "insert", "intersection_update", "difference_update", "symmetric_difference_update"}
    n_ro = 0
    for q_ in (f"{SER}:AutoSerialize._recursive_save", f"{SER}:AutoSerialize._serialize_value", f"{SER}:AutoSerialize._serialize_container",
               f"{SER}:AutoSerialize._recursive_load", f"{SER}:AutoSerialize._deserialize_container"):
        if not repo.has(q_):
            continue
        m_, f_ = repo.func(q_)
        shared = [p_ for p_ in func_params(f_) if p_ in ("skip_names", "skip_types")]
        for p_ in shared:
            if [d for d in definitions(f_, p_) if d is not None and not (isinstance(d, str))]:
                continue  # re-bound locally (a private copy): mutation of the copy is the business of R7-style rules
            n_ro += 1
            muts = [c for c in calls_in(f_) if isinstance(c.func, ast.Attribute) and c.func.attr in MUT and dotted(c.func.value) == p_]
            muts += [n for n in ast.walk(f_) if isinstance(n, ast.AugAssign) and dotted(n.target) == p_]
            muts += [n for n in ast.walk(f_) if isinstance(n, (ast.Assign, ast.Delete)) and any(isinstance(t, ast.Subscript) and dotted(t.value) == p_ for t in getattr(n, "targets", []))]
            check.decide(not muts, "C14-R8", f"{q_.split(':')[1]}: the shared `{p_}` collection is only read during the traversal", "", m_.line(muts[0] if muts else f_), definite=True,
                         fail_detail=f"`{unparse(muts[0])[:60] if muts else ''}` modifies the `{p_}` object that save()/load() created once and hands to every nested call (and, on save, "
                                     f"writes into the file's skip metadata): whatever is added while visiting one object is skipped BY NAME in every object visited afterwards "
                                     f"and at every later load")
    check.floor("shared skip collections (traversal parameters)", n_ro, 6)

    # ---- R5: skip metadata must not reach the loaded object ---------------------------------
    _rule_reserved_keys(check, repo, W, R, rule="C14-R5", only=lambda k: k.startswith("_autoserialize_skip"))

    # ---- R6: Ptychography.save forwards the extended skip list ------------------------------
    pmod, psave = repo.func(f"{PTY}:Ptychography.save")
    sup = [c for c in calls_in(psave, nested=False)
           if isinstance(c.func, ast.Attribute) and c.func.attr == "save"
           and isinstance(c.func.value, ast.Call) and call_name(c.func.value) == "super"]
    if len(sup) != 1:
        raise AnalysisError("Ptychography.save: super().save call not found")
    sk = kwarg(sup[0], "skip") or (sup[0].args[3] if len(sup[0].args) > 3 else None)
    if sk is None:
        check.violated("C14-R6", "Ptychography.save → super().save: skip forwarded",
                       "super().save is called without a skip argument: raw data is always written", pmod.line(sup[0]))
    else:
        # the forwarded list must alias/derive from the list that was extended with the dataset names
        names, consts = _closure(psave, sk)
        ext = []
        for c in calls_in(psave, nested=False):
            if isinstance(c.func, ast.Attribute) and c.func.attr in ("extend", "append") and dotted(c.func.value) in names | {dotted(sk)}:
                for n in ast.walk(c):
                    if isinstance(n, ast.Constant) and isinstance(n.value, str):
                        ext.append(n.value)
        ok = "skip" in names and {"_dset", "dset"} <= set(ext)
        check.decide(ok, "C14-R6", "Ptychography.save → super().save: forwards the user's skip list extended with the dataset names",
                     f"skip={unparse(sk)}; extended with {ext}", pmod.line(sup[0]),
                     fail_detail=f"super().save(skip={unparse(sk)}) does not carry the user's skip list plus "
                                 f"'_dset'/'dset' (extended with {ext}; sources {sorted(names)})")
        # the dataset names are added only when raw data is not requested
    # ---- R7: skip argument normalisation ------------------------------------------------------
    _rule_skip_normalisation(check, repo)


def _rule_skip_normalisation(check, repo: Repo) -> None:
    """R7: wherever the public `skip` argument is iterated, a bare str and a bare type have been
    wrapped into a list first (a bare string would otherwise be split into characters)."""
    from ..core.cfg import CFG
    n = 0
    n_mut = 0
    for q in (f"{SER}:AutoSerialize.save", f"{SER}:load", f"{PTY}:Ptychography.save"):
        m, fn = repo.func(q)
        if "skip" not in [a.arg for a in fn.args.args + fn.args.kwonlyargs]:
            raise AnalysisError(f"{q}: no 'skip' parameter")
        cfg = CFG(fn)
        # the caller's skip list is not modified: every in-place extension of `skip` is preceded, on every path, by a rebinding to a fresh list
        # (a caller who reuses one list for several saves / loads would otherwise accumulate names that were never asked for)
        fresh = []
        for nd in cfg.nodes:
            if nd.kind == "stmt" and isinstance(nd.stmt, ast.Assign) and any(dotted(t) == "skip" for t in nd.stmt.targets):
                v = nd.stmt.value
                if (isinstance(v, ast.Call) and call_name(v) in ("list", "sorted")) or isinstance(v, (ast.List, ast.ListComp)) or \
                        (isinstance(v, ast.BinOp) and isinstance(v.op, ast.Add)):
                    fresh.append(nd.id)
        for nd in cfg.nodes:
            if nd.kind != "stmt":
                continue
            mut = None
            if isinstance(nd.stmt, ast.Expr) and isinstance(nd.stmt.value, ast.Call) and isinstance(nd.stmt.value.func, ast.Attribute) \
                    and dotted(nd.stmt.value.func.value) == "skip" and nd.stmt.value.func.attr in ("extend", "append", "insert", "remove", "pop", "clear", "sort", "reverse"):
                mut = unparse(nd.stmt.value)[:50]
            elif isinstance(nd.stmt, ast.AugAssign) and dotted(nd.stmt.target) == "skip":
                mut = unparse(nd.stmt)[:50]
            if mut is None:
                continue
            n_mut += 1
            ok = cfg.all_paths_pass_through(cfg.entry, nd.id, fresh)
            check.decide(ok, "C14-R7", f"{q.split(':')[1]}: `{mut}` acts on a private copy of the skip argument on every path", "", m.line(nd.stmt), definite=True,
                         fail_detail=f"`{mut}` is reachable without `skip` having been rebound to a fresh list: the caller's own list object is extended, and a list reused for a "
                                     f"later save or load silently skips the added names as well")
        # "is it a collection?" asked with an ABC a str satisfies: isinstance('count', Sequence / Iterable / Collection / Sized / Container) is True, so the bare-name
        # form skip='count' is NOT wrapped and is iterated character by character — unless the same test excludes str
        for t_ in [n_ for n_ in ast.walk(fn) if isinstance(n_, ast.Call) and call_name(n_) == "isinstance" and len(n_.args) == 2 and dotted(n_.args[0]) == "skip"]:
            tys = unparse(t_.args[1])
            if any(k in tys for k in ("Sequence", "Iterable", "Collection", "Sized", "Container", "Reversible")):
                par_ = getattr(t_, "_parent", None)
                guarded = "str" in tys and False
                while isinstance(par_, (ast.BoolOp, ast.UnaryOp)):
                    if isinstance(par_, ast.BoolOp) and any("str" in unparse(v_) and v_ is not t_ for v_ in par_.values):
                        guarded = True
                    par_ = getattr(par_, "_parent", None)
                # an earlier `if isinstance(skip, str): skip = [skip]` also protects it
                earlier = any(isinstance(n_, ast.If) and "isinstance(skip, str" in unparse(n_.test).replace("(str, type)", "str, type") and n_.lineno < t_.lineno for n_ in ast.walk(fn)) \
                    or any(isinstance(n_, ast.If) and "isinstance(skip, (str" in unparse(n_.test) and n_.lineno < t_.lineno for n_ in ast.walk(fn))
                check.decide(guarded or earlier, "C14-R7", f"{q.split(':')[1]}: `{unparse(t_)[:50]}` does not take a bare string for a collection of names", "", m.line(t_), definite=True,
                             fail_detail=f"`{unparse(t_)[:60]}` is True for a str: skip='count' is iterated as the names 'c', 'o', 'u', 'n', 't' — the attribute `count` survives at every depth")
        # iteration sites of skip: comprehension over skip, list(skip)/tuple(skip)/set(skip), for-loops
        sites = []
        for node in walk_no_nested_defs(fn):
            if isinstance(node, ast.comprehension) and dotted(node.iter) == "skip":
                sites.append(node.iter)
            elif isinstance(node, ast.For) and dotted(node.iter) == "skip":
                sites.append(node.iter)
            elif isinstance(node, ast.Call) and call_name(node) in ("list", "tuple", "set", "sorted") and node.args \
                    and dotted(node.args[0]) == "skip":
                sites.append(node)
        if not sites:
            continue  # the argument is only forwarded
        # normalising tests: isinstance(skip, (str, type)) [or two separate tests] whose true branch wraps
        wrapped: dict[str, list[int]] = {"str": [], "type": []}
        for nd in cfg.nodes:
            if nd.kind == "test" and isinstance(nd.expr, ast.Call) and call_name(nd.expr) == "isinstance" \
                    and len(nd.expr.args) == 2 and dotted(nd.expr.args[0]) == "skip":
                tys = nd.expr.args[1]
                names = [dotted(e) for e in (tys.elts if isinstance(tys, (ast.Tuple, ast.List)) else [tys])]
                body = nd.stmt.body if isinstance(nd.stmt, ast.If) else []
                wraps = any(isinstance(st, ast.Assign) and any(dotted(t) == "skip" for t in st.targets)
                            and isinstance(st.value, (ast.List, ast.Tuple)) and len(st.value.elts) == 1
                            and dotted(st.value.elts[0]) == "skip" for st in body)
                if wraps:
                    for nm in names:
                        if nm in wrapped:
                            wrapped[nm].append(nd.id)
            if nd.kind == "stmt" and isinstance(nd.stmt, ast.Assign) and any(dotted(t) == "skip" for t in nd.stmt.targets) \
                    and isinstance(nd.stmt.value, ast.IfExp):
                ie = nd.stmt.value
                if isinstance(ie.test, ast.Call) and call_name(ie.test) == "isinstance" and dotted(ie.test.args[0]) == "skip" \
                        and isinstance(ie.body, (ast.List, ast.Tuple)):
                    tys = ie.test.args[1]
                    for nm in [dotted(e) for e in (tys.elts if isinstance(tys, (ast.Tuple, ast.List)) else [tys])]:
                        if nm in wrapped:
                            wrapped[nm].append(nd.id)
        for sx in sites:
            nodes = cfg.node_containing(sx)
            if not nodes:
                continue
            n += 1
            for kind in ("str", "type"):
                ok = any(cfg.dominates(w, nodes[0]) for w in wrapped[kind])
                check.decide(ok, "C14-R7", f"{q.split(':')[1]}: a bare {kind} given as skip is wrapped before `{unparse(sx)[:30]}`",
                             "", m.line(sx),
                             fail_detail=f"`skip` is iterated here without a dominating `isinstance(skip, …{kind}…)` → [skip] "
                                         f"normalisation: a bare {kind} is "
                                         + ("split into characters and the named attribute is not skipped" if kind == "str"
                                            else "not iterable"))
    check.floor("skip iteration sites", n, 5)
    check.floor("in-place extensions of the skip argument", n_mut, 1)


def _closure(fn: ast.AST, expr: ast.AST) -> tuple[set[str], set[str]]:
    """Names and string constants in the transitive definition closure of `expr` inside `fn`."""
    names: set[str] = set()
    consts: set[str] = set()
    work = [expr]
    while work:
        e = work.pop()
        for n in ast.walk(e):
            if isinstance(n, ast.Constant) and isinstance(n.value, str):
                consts.add(n.value)
            if isinstance(n, ast.Name) and n.id not in names:
                names.add(n.id)
                for d in definitions(fn, n.id):
                    v = d if isinstance(d, ast.AST) else getattr(d, "value", None) or getattr(d, "iter", None) or getattr(d, "ctx", None)
                    if isinstance(v, ast.AST):
                        work.append(v)
    return names, consts


MANIFEST = {
    "text": "Decides the structural discipline that makes skipping exact at every level: the name/type filter "
            "dominates the single serialisation call of the object writer; both skip lists are forwarded unchanged "
            "along all writer call edges; each of the loader's three restoration loops guards every setattr with the "
            "name filter and nested loads receive both lists; persisted skip keys written = read; load uses the union of "
            "file and user lists; skip metadata is filtered from the loaded object; Ptychography.save forwards the "
            "extended list.",
    "note": "Not decided: that surviving attributes load exactly (C01's domain), behaviour of isinstance for exotic "
            "types. Objects nested inside containers are outside the property's quantifier.",
    "technique": "CFG dominance of guards + call-edge argument forwarding + key-set agreement (AST)",
}
MANIFEST["text"] += ' The delattr sweep over skip_names runs after every restoration loop.'
MANIFEST["text"] += ' R7 also: every in-place extension of the skip argument is preceded on every path by a rebinding to a fresh list (must-pass-through on the CFG).'
MANIFEST["text"] += " Also: an exact-type membership test `type(v) in skip_types` in the save routine is a definite violation (subclass instances must be skipped); an `isinstance(skip, Sequence/Iterable/…)` collection test that a bare str satisfies must be protected by a str test."
MANIFEST["text"] += ' R8: the skip collections created once per save()/load() and handed to every nested call are read-only inside the traversal functions.'
MANIFEST["text"] += ' R3 treats the per-loop name filters and the final delattr sweep as coupled defences.'
