"""C06 — binning, Fourier resampling, padding, cropping: calibration algebra (E8), reduction
structure, linearity inventory and shift pairing."""
from __future__ import annotations

import ast

from ..core.repo import (AnalysisError, Repo, call_name, calls_in, definitions, dotted, func_params, is_const, raw_flow_from,
                         kwarg, names_in, unparse, walk_no_nested_defs)
from ..domains.algnf import NotArithmetic, Rat, from_ast

DS = "quantem.core.datastructures.dataset"

EXPLANATION = (
    "conservation laws of bin / fourier_resample / pad / crop reduced to obligations on the source: "
    "calibration updates are translated to rational normal forms and compared with the laws "
    "(new_sampling = f·s, new_origin = o + s(f−1)/2; N_out·s_out = N_in·s; centre preserved); the "
    "block reduction reshapes each binned axis into (blocks, f) from index 0 and sums exactly the f "
    "positions in the default accumulator; the resampling data path contains only linear operations, "
    "shifts are paired over the same axes around a DC-centred crop/pad; pad widths are (floor, ceil) "
    "halves of one difference; crop maps a zero stop to None"
)

LINEAR_CALLS = {"np.fft.fftn", "np.fft.ifftn", "np.fft.fftshift", "np.fft.ifftshift", "np.pad", "tuple", "slice"}


def _rename(node: ast.AST, mapping: dict[str, str]) -> ast.AST:
    n = ast.parse(unparse(node)).body[0]  # fresh copy without parent links
    for x in ast.walk(n):
        if isinstance(x, ast.Name) and x.id in mapping:
            x.id = mapping[x.id]
    return n


def _sym_exec(stmts: list[ast.stmt], env: dict[str, Rat]) -> dict[str, Rat]:
    """Straight-line symbolic execution of assignments; keys are normalised target texts."""
    env = dict(env)
    for st in stmts:
        if isinstance(st, ast.Assign) and len(st.targets) == 1:
            val = from_ast(st.value, env)
            env[unparse(st.targets[0])] = val
        elif isinstance(st, ast.AugAssign):
            k = unparse(st.target)
            cur = env.get(k, Rat.sym(k))
            v = from_ast(st.value, env)
            op = {ast.Add: cur.__add__, ast.Sub: cur.__sub__, ast.Mult: cur.__mul__, ast.Div: cur.__truediv__}.get(type(st.op))
            if op is None:
                raise NotArithmetic(unparse(st))
            env[k] = op(v)
        else:
            raise NotArithmetic(unparse(st)[:60])
    return env


def run(check, repo: Repo) -> None:
    mod, _ = repo.cls(f"{DS}:Dataset")
    check.analysed(f"{DS}:Dataset.bin", f"{DS}:Dataset.fourier_resample", f"{DS}:Dataset.pad", f"{DS}:Dataset.crop")
    _bin(check, repo, mod)
    _resample(check, repo, mod)
    _pad_crop(check, repo, mod)
    from .c03 import calibration_setter_dtype
    calibration_setter_dtype(check, repo, "C06-R1", "the field of view N·sampling and the physical centre are no longer conserved by bin / fourier_resample")


# ------------------------------------------------------------------------------------- bin
def _bin(check, repo, mod) -> None:
    _, fn = repo.func(f"{DS}:Dataset.bin")
    # calibration loop
    loop = None
    for n in walk_no_nested_defs(fn):
        if isinstance(n, ast.For) and any(isinstance(x, ast.Assign) and unparse(x.targets[0]).startswith("new_sampling[") for x in n.body):
            loop = n
    if loop is None:
        _bin_vector_calibration(check, mod, fn)
        _bin_rest(check, repo, mod, fn)
        return
    if not isinstance(loop.target, ast.Tuple):
        raise AnalysisError("Dataset.bin: calibration loop not found")
    ax, fac = loop.target.elts[0].id, loop.target.elts[1].id
    itr = unparse(loop.iter)
    check.decide(itr.endswith(".items()"), "C06-R1", "Dataset.bin: calibration loop visits every (axis, factor) pair", itr, mod.line(loop),
                 fail_detail=f"the loop iterates `{itr}`")
    body = [_rename(s, {ax: "AX", fac: "F"}) for s in loop.body]
    S, O, F = Rat.sym("S"), Rat.sym("O"), Rat.sym("F")
    try:
        env = _sym_exec(body, {"new_sampling[AX]": S, "new_origin[AX]": O, "F": F})
    except NotArithmetic as exc:
        raise AnalysisError(f"Dataset.bin: calibration statement not arithmetic: {exc}")
    ns, no = env.get("new_sampling[AX]"), env.get("new_origin[AX]")
    check.decide(ns is not None and ns.equals(S * F), "C06-R1", "Dataset.bin: new_sampling = factor · sampling", str(ns), mod.line(loop), definite=ns is not None,
                 fail_detail=f"new_sampling[ax] evaluates to {ns}, the law is F·S")
    want = O + S * (F - Rat.const(1)) / Rat.const(2)
    check.decide(no is not None and no.equals(want), "C06-R1", "Dataset.bin: new_origin = origin + sampling·(factor−1)/2 (mean coordinate of the first block)",
                 str(no), mod.line(loop), fail_detail=f"new_origin[ax] evaluates to {no}, the law is O + S·(F−1)/2")
    # the vectors start as the old calibration
    working_vectors(check, repo, fn, "Dataset.bin", "C06-R1")
    _bin_rest(check, repo, mod, fn)


def _validator_copies(repo) -> tuple:
    """Does validate_ndinfo hand back storage of its own on every path?  (np.array(…) / .flatten() / np.full copy; np.asarray / .reshape / .ravel may return the argument's storage)"""
    _m, vn = repo.func("quantem.core.utils.validators:validate_ndinfo")
    fresh, why = True, []
    for r in [x for x in ast.walk(vn) if isinstance(x, ast.Return) and x.value is not None]:
        e, seen = r.value, 0
        while isinstance(e, ast.Name) and seen < 4:
            dd = [d for d in definitions(vn, e.id) if isinstance(d, ast.AST)]
            if not dd:
                break
            # every definition must be fresh
            bad = [d for d in dd if not _fresh_array_expr(d)]
            if bad:
                fresh = False
                why.append(unparse(bad[0])[:50])
            e, seen = None, 9
        if e is not None and not isinstance(e, ast.Name) and not _fresh_array_expr(e):
            fresh = False
            why.append(unparse(e)[:50])
    return fresh, why


def _fresh_array_expr(e: ast.AST) -> bool:
    """new storage for certain: np.array(…) (copies by default), np.full/zeros/ones, x.copy(), x.astype(…) (copy=True default), x.flatten(), arithmetic"""
    if isinstance(e, ast.BinOp):
        return True
    if isinstance(e, ast.Call):
        last = (call_name(e) or "").split(".")[-1] if call_name(e) else (e.func.attr if isinstance(e.func, ast.Attribute) else "")
        if last in ("copy", "flatten", "full", "zeros", "ones", "deepcopy", "tolist"):
            return True
        if last == "astype":
            return not is_const(kwarg(e, "copy"), False)
        if last == "array":
            return not is_const(kwarg(e, "copy"), False)
        if last in ("asarray", "asanyarray", "reshape", "ravel", "squeeze", "atleast_1d", "view"):
            return False
        if isinstance(e.func, ast.Attribute):  # method chain: fresh if the receiver chain contains a copying step… only the outermost decides for views
            return False
    return False


def working_vectors(check, repo, fn, label: str, rule: str) -> None:
    """The calibration update works on vectors that (a) start as the old calibration and (b) are storage of their own: the per-axis update writes into them in place, so a
    vector that may share storage with `self.sampling` / `self.origin` changes the SOURCE dataset of a copying call.  Two sites cooperate: the initialiser
    (`.astype(float).copy()` — or a validator call) and, when a validator is used, whether that validator copies."""
    vfresh, vwhy = _validator_copies(repo)
    for v, src in (("new_sampling", "self.sampling"), ("new_origin", "self.origin")):
        d = [x for x in definitions(fn, v) if isinstance(x, ast.AST)]
        if len(d) != 1:
            check.violated(rule, f"{label}: {v} starts from {src}", f"{v} is not initialised exactly once", "")
            continue
        e = d[0]
        from_src = any(unparse(x) == src for x in ast.walk(e))
        via_validator = isinstance(e, ast.Call) and (call_name(e) or "").endswith("validate_ndinfo")
        own = _fresh_array_expr(e) or (via_validator and vfresh)
        stored = any(isinstance(x, (ast.Assign, ast.AugAssign)) and any(isinstance(t, ast.Subscript) and dotted(t.value) == v for t in (x.targets if isinstance(x, ast.Assign) else [x.target]))
                     for x in ast.walk(fn))
        check.decide(from_src, rule, f"{label}: {v} starts from {src}", unparse(e)[:60], "", fail_detail=f"{v} = `{unparse(e)[:60]}` is not initialised from {src}")
        if own or not stored:
            check.holds(rule, f"{label}: {v} is storage of its own (the in-place per-axis update cannot reach the source's calibration)",
                        "validator copies" if via_validator else unparse(e)[:50])
        elif via_validator or isinstance(e, ast.Call):
            check.violated(rule, f"{label}: {v} is storage of its own (the in-place per-axis update cannot reach the source's calibration)",
                           f"`{v} = {unparse(e)[:60]}` can be the source's own array ({'validate_ndinfo returns `' + vwhy[0] + '`' if via_validator and vwhy else 'no copying step'}) and the per-axis "
                           f"update stores into it: a copying (modify_in_place=False) call changes the calibration of the dataset it was called on", "", definite=True)
        else:
            raise AnalysisError(f"{label}: freshness of `{v} = {unparse(e)[:50]}` not decided")


def _seq_order(fn, e: ast.AST, depth: int = 0):
    """Order class of a sequence of axes / factors in Dataset.bin:  'pair' = the caller's (axis, factor) order (axes, bin_factors, and the
    keys/values/items of dict(zip(axes, bin_factors))), 'ascending' = increasing axis number, ('of', X) = element-wise image of sequence X; None = unknown."""
    if depth > 6:
        return None
    maps = {}  # mapping name → (keys source, values source)
    for n in walk_no_nested_defs(fn):
        if isinstance(n, ast.Assign) and isinstance(n.targets[0], ast.Name) and isinstance(n.value, ast.Call) and call_name(n.value) == "dict" and len(n.value.args) == 1 \
                and isinstance(n.value.args[0], ast.Call) and call_name(n.value.args[0]) == "zip" and len(n.value.args[0].args) == 2:
            maps[n.targets[0].id] = (unparse(n.value.args[0].args[0]), unparse(n.value.args[0].args[1]))
    t = unparse(e)
    for m, (k, v) in maps.items():
        if t in (k, v, f"{m}.keys()", f"{m}.values()", f"{m}.items()", f"list({m})", f"tuple({m})", f"list({m}.keys())", f"list({m}.values())", f"tuple({m}.keys())", f"tuple({m}.values())"):
            return "pair"
    if isinstance(e, ast.Call):
        cn = call_name(e) or ""
        if cn in ("np.asarray", "np.array", "list", "tuple", "np.fromiter", "np.atleast_1d") and e.args:
            return _seq_order(fn, e.args[0], depth + 1)
        if cn == "sorted":
            return "ascending"
        if isinstance(e.func, ast.Attribute) and e.func.attr in ("astype", "copy", "tolist"):
            return _seq_order(fn, e.func.value, depth + 1)
    if isinstance(e, (ast.ListComp, ast.GeneratorExp)) and len(e.generators) == 1:
        g = e.generators[0]
        if isinstance(g.iter, ast.Call) and call_name(g.iter) == "range":
            return "ascending" if isinstance(e.elt, ast.Name) and isinstance(g.target, ast.Name) and e.elt.id == g.target.id else ("of", "ascending")
        inner = _seq_order(fn, g.iter, depth + 1)
        if g.ifs:
            return None if inner is None else inner  # a filtered sub-sequence keeps the order of its source
        return inner
    if isinstance(e, ast.Name):
        dd = [d for d in definitions(fn, e.id) if isinstance(d, ast.AST)]
        if len(dd) == 1:
            return _seq_order(fn, dd[0], depth + 1)
    return None


def _bin_vector_calibration(check, mod, fn) -> None:
    """Vectorised form of the calibration update: `new_origin[A] += ½(F − 1)·new_sampling[A]; new_sampling[A] *= F`."""
    vecs = {}
    for v, src in (("S", "self.sampling"), ("O", "self.origin")):
        for n in walk_no_nested_defs(fn):
            if isinstance(n, ast.Assign) and isinstance(n.targets[0], ast.Name) and unparse(n.value).startswith(src):
                vecs[n.targets[0].id] = v
    if sorted(vecs.values()) != ["O", "S"]:
        raise AnalysisError("Dataset.bin: calibration vectors (copies of self.sampling / self.origin) not found")
    sts = [n for n in walk_no_nested_defs(fn) if isinstance(n, (ast.Assign, ast.AugAssign)) and isinstance(n.targets[0] if isinstance(n, ast.Assign) else n.target, ast.Subscript)
           and unparse((n.targets[0] if isinstance(n, ast.Assign) else n.target).value) in vecs]
    if not sts:
        raise AnalysisError("Dataset.bin: calibration loop not found")
    idx = {unparse((n.targets[0] if isinstance(n, ast.Assign) else n.target).slice) for n in sts}
    if len(idx) != 1:
        raise AnalysisError(f"Dataset.bin: calibration updates use different index vectors {sorted(idx)}")
    ivec = next(iter(idx))
    inode = (sts[0].targets[0] if isinstance(sts[0], ast.Assign) else sts[0].target).slice
    others = set()
    for n in sts:
        for x in ast.walk(n.value):
            if isinstance(x, ast.Name) and x.id not in vecs and x.id != ivec and not x.id.startswith("np"):
                others.add(x.id)
    if len(others) != 1:
        raise AnalysisError(f"Dataset.bin: factor vector of the vectorised calibration update not identified ({sorted(others)})")
    fvec = next(iter(others))
    oi, of = _seq_order(fn, inode), _seq_order(fn, ast.Name(id=fvec, ctx=ast.Load()))
    if oi is None or of is None:
        raise AnalysisError(f"Dataset.bin: order of `{ivec}` / `{fvec}` not derivable")
    check.decide(oi == of, "C06-R1", "Dataset.bin: the axis vector and the factor vector of the calibration update are paired in the same order", f"{ivec}: {oi}, {fvec}: {of}",
                 mod.line(sts[0]), definite=True, fail_detail=f"`{ivec}` is in {oi} order but `{fvec}` in {of} order: for axes given in non-ascending order the sampling multiplier and the origin shift land on the "
                                               f"wrong axes — extent and block-centre coordinates are no longer preserved")
    names = {v: k for k, v in vecs.items()}
    body = [_rename(n, {fvec: "F"}) for n in sts]
    S, O, F = Rat.sym("S"), Rat.sym("O"), Rat.sym("F")
    try:
        env = _sym_exec(body, {f"{names['S']}[{ivec}]": S, f"{names['O']}[{ivec}]": O, "F": F})
    except NotArithmetic as exc:
        raise AnalysisError(f"Dataset.bin: calibration statement not arithmetic: {exc}")
    ns, no = env.get(f"{names['S']}[{ivec}]"), env.get(f"{names['O']}[{ivec}]")
    check.decide(ns is not None and ns.equals(S * F), "C06-R1", "Dataset.bin: new_sampling = factor · sampling", str(ns), mod.line(sts[0]), definite=ns is not None,
                 fail_detail=f"new_sampling[axes] evaluates to {ns}, the law is F·S")
    want = O + S * (F - Rat.const(1)) / Rat.const(2)
    check.decide(no is not None and no.equals(want), "C06-R1", "Dataset.bin: new_origin = origin + sampling·(factor−1)/2 (mean coordinate of the first block)",
                 str(no), mod.line(sts[0]), fail_detail=f"new_origin[axes] evaluates to {no}, the law is O + S·(F−1)/2")


def _bin_rest(check, repo, mod, fn) -> None:
    # ---- R2 reduction structure
    txt = unparse(fn)
    le = [x for x in definitions(fn, "length_eff") if isinstance(x, ast.AST)]
    ok = len(le) == 1
    if ok:
        a0 = None
        try:
            r = from_ast(le[0], atom=lambda e: ("Q" if isinstance(e, ast.BinOp) and isinstance(e.op, ast.FloorDiv) else None))
            ok = r.equals(Rat.sym("Q") * Rat.sym("fac"))
            fd = next(x for x in ast.walk(le[0]) if isinstance(x, ast.BinOp) and isinstance(x.op, ast.FloorDiv))
            ok = ok and unparse(fd.right) == "fac" and unparse(fd.left).startswith("self.shape[")
        except (NotArithmetic, StopIteration):
            ok = False
    check.decide(ok, "C06-R2", "Dataset.bin: covered length = (n // f)·f", unparse(le[0]) if le else "", mod.line(fn),
                 fail_detail="the effective length is not (self.shape[a] // fac) * fac: blocks are misaligned or the remainder is not dropped")
    sl = [c for c in calls_in(fn) if call_name(c) == "slice" and len(c.args) == 2 and unparse(c.args[1]) == "length_eff"]
    ok = bool(sl) and all(is_const(c.args[0], 0) for c in sl)
    check.decide(ok, "C06-R2", "Dataset.bin: blocks start at index 0 (only the trailing remainder is dropped)", "", mod.line(fn),
                 fail_detail="the cropped region does not start at index 0")
    ext = [c for c in calls_in(fn) if (call_name(c) or "") == "reshape_dims.extend"]
    ok = len(ext) == 1 and isinstance(ext[0].args[0], (ast.List, ast.Tuple)) and [unparse(e) for e in ext[0].args[0].elts] == ["nblocks", "fac"]
    nb = [x for x in definitions(fn, "nblocks") if isinstance(x, ast.AST)]
    ok = ok and len(nb) == 1 and isinstance(nb[0], ast.BinOp) and isinstance(nb[0].op, ast.FloorDiv) and unparse(nb[0].right) == "fac"
    check.decide(ok, "C06-R2", "Dataset.bin: each binned axis is reshaped into (blocks, factor)", "", mod.line(fn),
                 fail_detail="a binned axis does not contribute the pair (nblocks, fac) with nblocks = length // fac")
    ra = [c for c in calls_in(fn) if (call_name(c) or "") == "reduce_axes.append"]
    inc = [x for x in ast.walk(fn) if isinstance(x, ast.AugAssign) and dotted(x.target) == "running_axis"]
    ok = len(ra) == 1 and unparse(ra[0].args[0]) == "running_axis + 1" and sorted(unparse(i.value) for i in inc) == ["1", "2"]
    check.decide(ok, "C06-R2", "Dataset.bin: exactly the factor positions of each pair are reduced", "", mod.line(fn),
                 fail_detail="the reduced axes are not the second member of each (blocks, factor) pair")
    red = [c for c in calls_in(fn) if call_name(c) in ("np.sum", "np.add.reduce", "np.nansum", "np.mean")
           and c.args and unparse(c.args[0]) == "array_view"]
    red += [c for c in calls_in(fn) if isinstance(c.func, ast.Attribute) and c.func.attr in ("sum", "mean", "nansum") and unparse(c.func.value) == "array_view"]
    # ufunc.reduceat reduces the LAST segment to the end of the axis: for block sums the operand must be trimmed to a whole number of blocks first
    for c in calls_in(fn):
        if isinstance(c.func, ast.Attribute) and c.func.attr == "reduceat" and c.args:
            opnd = c.args[0]
            seen_, trimmed, frontier = set(), False, [opnd]
            while frontier:
                e_ = frontier.pop()
                if any(isinstance(x, ast.Subscript) and any(isinstance(y, ast.Slice) and y.upper is not None for y in ast.walk(x.slice)) for x in ast.walk(e_)) \
                        or any(isinstance(x, ast.Call) and (call_name(x) or "").split(".")[-1] in ("take", "narrow", "compress") for x in ast.walk(e_)):
                    trimmed = True
                for x in ast.walk(e_):
                    if isinstance(x, ast.Name) and x.id not in seen_:
                        seen_.add(x.id)
                        frontier.extend(d for d in definitions(fn, x.id) if isinstance(d, ast.AST) and not (isinstance(d, ast.Call) and isinstance(d.func, ast.Attribute) and d.func.attr == "reduceat"))
            check.decide(trimmed, "C06-R2", "Dataset.bin: the operand of ufunc.reduceat is trimmed to a whole number of blocks", unparse(c)[:70], mod.line(c), definite=True,
                         fail_detail=f"`{unparse(c)[:70]}`: reduceat's last segment runs to the END of the axis — the remainder pixels of a non-dividing bin factor are added to "
                                     f"the last block instead of being dropped (sum not conserved block-wise; the mean divides by the nominal block volume)")
    if len(red) != 1:
        raise AnalysisError("Dataset.bin: block reduction call not found")
    r = red[0]
    kws = {k.arg for k in r.keywords}
    narrow = kwarg(r, "dtype")
    is_sum = call_name(r) == "np.sum" or (isinstance(r.func, ast.Attribute) and r.func.attr == "sum" and unparse(r.func.value) == "array_view")
    ok = is_sum and unparse(kwarg(r, "axis") or ast.Constant(None)) == "tuple(reduce_axes)" \
        and (narrow is None or not any(isinstance(x, ast.Attribute) and x.attr == "dtype" for x in ast.walk(narrow)))
    check.decide(ok, "C06-R2", "Dataset.bin: blocks are summed with np.sum over the reduced axes in the default accumulator", unparse(r), mod.line(r),
                 fail_detail=f"`{unparse(r)}`: " + ("accumulating in the input dtype wraps around for narrow integer/bool data — "
                                                   "block sums are no longer exact" if narrow is not None else "not a plain sum over reduce_axes"))
    av = [x for x in definitions(fn, "array_view") if isinstance(x, ast.AST)]
    ok = len(av) == 1 and unparse(av[0]) == "self.array[tuple(slices)].reshape(tuple(reshape_dims))"
    check.decide(ok, "C06-R2", "Dataset.bin: the block view is the cropped source reshaped (no reordering)", "", mod.line(fn),
                 fail_detail=f"array_view = `{unparse(av[0]) if av else '?'}`")
    # mean divisor: product of the same factors
    bv = [x for x in ast.walk(fn) if isinstance(x, ast.AugAssign) and dotted(x.target) == "block_volume"]
    lp = None
    for n in ast.walk(fn):
        if isinstance(n, ast.For) and any(x is y for y in n.body for x in bv):
            lp = n
    ok = len(bv) == 1 and isinstance(bv[0].op, ast.Mult) and lp is not None and unparse(lp.iter) == "axis_to_factor.values()" \
        and unparse(bv[0].value) == unparse(lp.target)
    div = any(isinstance(x, ast.Assign) and unparse(x.value) == "array_binned / block_volume" for x in ast.walk(fn))
    check.decide(ok and div, "C06-R2", "Dataset.bin: the mean divides by the product of the same factors", "", mod.line(fn),
                 fail_detail="the mean divisor is not the product over axis_to_factor.values()")


# ------------------------------------------------------------------------------------- resample
def _resample(check, repo, mod) -> None:
    _, fn = repo.func(f"{DS}:Dataset.fourier_resample")
    # nominal vs realised: with `factors=` the output length is round(length·factor), so the amplitude rescale and the new sampling must be formed from the
    # REALISED lengths.  A scale whose whole definition closure is the caller's `factors` (no length, no rounding anywhere) is the nominal factor.
    def _closure(e_):
        names, exprs, todo = set(), [], [e_]
        while todo:
            x_ = todo.pop()
            exprs.append(x_)
            for y in ast.walk(x_):
                if isinstance(y, ast.Name) and y.id not in names:
                    names.add(y.id)
                    if y.id == "factors":
                        continue            # the caller's nominal factors: what they are normalised from elsewhere is not evidence for THIS use
                    todo.extend(d for d in definitions(fn, y.id) if isinstance(d, ast.AST))
                    todo.extend(d.iter for d in definitions(fn, y.id) if hasattr(d, "iter") and isinstance(getattr(d, "iter"), ast.AST))
                    todo.extend(d.value for d in definitions(fn, y.id) if hasattr(d, "value") and hasattr(d, "index") and isinstance(getattr(d, "value"), ast.AST))
        realised = any((isinstance(y, ast.Attribute) and y.attr == "shape") or (isinstance(y, ast.Call) and (call_name(y) or "") in ("round", "np.round", "np.rint"))
                       for x_ in exprs for y in ast.walk(x_))
        return names, realised
    n_scale = 0
    for st in walk_no_nested_defs(fn):
        e_ = None
        if isinstance(st, ast.AugAssign) and isinstance(st.op, (ast.Mult, ast.Div)) and dotted(st.target) == "array_resampled":
            e_, what = st.value, "the amplitude rescale"
        elif isinstance(st, ast.Assign) and unparse(st.targets[0]).startswith("new_sampling["):
            e_, what = st.value, "the new sampling"
        if e_ is None:
            continue
        n_scale += 1
        names, realised = _closure(e_)
        nominal = "factors" in names and not realised
        check.decide(not nominal, "C06-R3", f"Dataset.fourier_resample: {what} is formed from the realised lengths", unparse(st)[:70], mod.line(st), definite=True,
                     fail_detail=f"`{unparse(st)[:70]}` depends on the caller's `factors` only: the output length is round(length·factor), so for a factor whose product with the "
                                 f"length is not an integer the mean of the array / the field of view (N·sampling) is not conserved")
    check.floor("fourier_resample: rescale / sampling statements", n_scale, 2)
    loops = [n for n in walk_no_nested_defs(fn) if isinstance(n, ast.For)]
    s_loop = next((n for n in loops if any(isinstance(x, ast.Assign) and unparse(x.targets[0]).startswith("new_sampling[") for x in n.body)), None)
    o_loop = next((n for n in loops if any(isinstance(x, ast.Assign) and unparse(x.targets[0]).startswith("new_origin[") for x in n.body)), None)
    if s_loop is None or o_loop is None:
        raise AnalysisError("Dataset.fourier_resample: calibration loops not found")
    S, O, NI, NO = Rat.sym("S"), Rat.sym("O"), Rat.sym("N_in"), Rat.sym("N_out")

    def loop_env(lp):
        if not (isinstance(lp.iter, ast.Call) and call_name(lp.iter) == "zip" and isinstance(lp.target, ast.Tuple)):
            raise AnalysisError("Dataset.fourier_resample: calibration loop header not understood")
        names = [unparse(a) for a in lp.iter.args]
        tv = [e.id for e in lp.target.elts]
        env, ren = {}, {}
        for nm, v in zip(names, tv):
            if nm == "axes":
                ren[v] = "AX"
            elif nm == "out_shape":
                env[v] = NO
            else:
                env[v] = Rat.sym(f"⟨{nm}⟩")  # e.g. the requested factors: NOT N_out/N_in
        return env, ren

    env1, ren1 = loop_env(s_loop)
    try:
        e1 = _sym_exec([_rename(s, ren1) for s in s_loop.body],
                       {**env1, "self.shape[AX]": NI, "new_sampling[AX]": S, "self.sampling[AX]": S})
    except NotArithmetic as exc:
        raise AnalysisError(f"fourier_resample: sampling statement not arithmetic: {exc}")
    s_out = e1.get("new_sampling[AX]")
    ok = s_out is not None and (s_out * NO).equals(S * NI)
    check.decide(ok, "C06-R1", "Dataset.fourier_resample: N_out · new_sampling = N_in · sampling (field of view preserved)", str(s_out), mod.line(s_loop),
                 fail_detail=f"new_sampling[ax] evaluates to {s_out}; the law needs sampling·N_in/N_out with the ACTUAL output length "
                             f"(a requested factor differs from it after rounding)")
    env2, ren2 = loop_env(o_loop)
    try:
        e2 = _sym_exec([_rename(s, ren2) for s in o_loop.body],
                       {**env2, "self.shape[AX]": NI, "self.sampling[AX]": S, "self.origin[AX]": O,
                        "new_origin[AX]": O, "new_sampling[AX]": s_out if s_out is not None else Rat.sym("?")})
    except NotArithmetic as exc:
        raise AnalysisError(f"fourier_resample: origin statement not arithmetic: {exc}")
    o_out = e2.get("new_origin[AX]")
    half = Rat.const(1) / Rat.const(2)
    ok = o_out is not None and s_out is not None and (o_out + s_out * (NO - Rat.const(1)) * half).equals(O + S * (NI - Rat.const(1)) * half)
    check.decide(ok, "C06-R1", "Dataset.fourier_resample: physical centre preserved (o' + s'(N_out−1)/2 = o + s(N_in−1)/2)", str(o_out), mod.line(o_loop),
                 fail_detail=f"new_origin[ax] evaluates to {o_out}: the centre of the field of view moves")
    # ---- R3 data path
    calls = {}
    for n in walk_no_nested_defs(fn):
        if isinstance(n, ast.Assign) and isinstance(n.value, ast.Call) and (call_name(n.value) or "").startswith("np.fft."):
            calls.setdefault(call_name(n.value), []).append(n.value)
    need = ["np.fft.fftn", "np.fft.fftshift", "np.fft.ifftshift", "np.fft.ifftn"]
    if any(len(calls.get(c, [])) != 1 for c in need):
        raise AnalysisError("Dataset.fourier_resample: expected exactly one fftn/fftshift/ifftshift/ifftn")
    axes_args = {c: unparse(kwarg(calls[c][0], "axes") or ast.Constant(None)) for c in need}
    check.decide(len(set(axes_args.values())) == 1 and "None" not in axes_args.values(), "C06-R3",
                 "Dataset.fourier_resample: transforms and shifts act over the same axes", str(axes_args), mod.line(fn),
                 fail_detail=f"axes differ: {axes_args}")
    order = sorted(need, key=lambda c: calls[c][0].lineno)
    check.decide(order == need, "C06-R3", "Dataset.fourier_resample: fftn → fftshift → crop/pad → ifftshift → ifftn", str(order), mod.line(fn),
                 fail_detail=f"the shift pair is not fftshift … ifftshift around the crop/pad: {order}")
    norms = [unparse(kwarg(calls[c][0], "norm") or ast.Constant(None)) for c in ("np.fft.fftn", "np.fft.ifftn")]
    check.decide(norms[0] == norms[1], "C06-R3", "Dataset.fourier_resample: forward and inverse transform use the same normalisation", str(norms), mod.line(fn),
                 fail_detail=f"norms differ: {norms}")
    # DC index helper
    _, sci = repo.func(f"{DS}:Dataset.fourier_resample._shift_center_index")
    rets = [unparse(n.value) for n in ast.walk(sci) if isinstance(n, (ast.Return,)) and n.value is not None]
    exprs = set()
    for n in ast.walk(sci):
        if isinstance(n, ast.IfExp):
            exprs |= {unparse(n.body), unparse(n.orelse)}
    p = sci.args.args[0].arg
    allowed = {f"{p} // 2", f"({p} - 1) // 2"}
    ok = bool(exprs or rets) and (exprs or set(rets)) <= allowed and f"{p} // 2" in (exprs or set(rets))
    even_ok = True
    for n in ast.walk(sci):
        if isinstance(n, ast.IfExp) and unparse(n.test) == f"{p} % 2 == 0":
            even_ok = unparse(n.body) == f"{p} // 2"
    check.decide(ok and even_ok, "C06-R3", "Dataset.fourier_resample: DC index after fftshift is n//2 for both parities", str(exprs or rets), mod.line(sci),
                 fail_detail=f"_shift_center_index returns {exprs or rets}: not where fftshift puts the zero frequency")
    # crop / pad arithmetic
    lp = next((n for n in loops if any(isinstance(x, ast.If) and "new_len" in unparse(x.test) for x in ast.walk(n))), None)
    if lp is None:
        raise AnalysisError("Dataset.fourier_resample: crop/pad loop not found")
    d = {k: [x for x in definitions(lp, k) if isinstance(x, ast.AST)] for k in ("start", "end", "before", "after", "oc", "nc")}
    try:
        atoms = lambda e: None
        st = from_ast(d["start"][0]); en = from_ast(d["end"][0], {"start": st})
        bf = from_ast(d["before"][0]); af = from_ast(d["after"][0], {"before": bf})
        oc, nc, nl, ol = Rat.sym("oc"), Rat.sym("nc"), Rat.sym("new_len"), Rat.sym("old_len")
        ok = st.equals(oc - nc) and (en - st).equals(nl) and bf.equals(nc - oc) and (bf + af).equals(nl - ol)
    except (NotArithmetic, IndexError):
        ok = False
    check.decide(ok, "C06-R3", "Dataset.fourier_resample: crop keeps new_len samples around DC; pad adds new_len − old_len zeros around DC", "", mod.line(lp),
                 fail_detail="start/end/before/after do not satisfy start = oc−nc, end−start = new_len, before = nc−oc, before+after = new_len−old_len")
    ocd, ncd = (unparse(d["oc"][0]) if d["oc"] else ""), (unparse(d["nc"][0]) if d["nc"] else "")
    check.decide(ocd == "_shift_center_index(old_len)" and ncd == "_shift_center_index(new_len)", "C06-R3",
                 "Dataset.fourier_resample: crop/pad offsets are measured from the DC indices of the old and new lengths", f"{ocd}, {ncd}", mod.line(lp),
                 fail_detail=f"oc = {ocd}, nc = {ncd}")
    # identity arm
    eq_arm_ok = False
    for x in ast.walk(lp):
        if isinstance(x, ast.If) and unparse(x.test) == "new_len > old_len" and x.orelse:
            txt = " ".join(unparse(s) for s in x.orelse)
            eq_arm_ok = "slice(None)" in txt and "(0, 0)" in txt
    eq_definite = False
    if not eq_arm_ok:
        # evaluate the arm that an unchanged length takes: its slice must be the whole axis and its padding (0, 0) once new_len = old_len (hence nc = oc) is substituted
        def arm_for_equal(stmts):
            for x in stmts:
                if isinstance(x, ast.If) and isinstance(x.test, ast.Compare) and len(x.test.ops) == 1 and {unparse(x.test.left), unparse(x.test.comparators[0])} == {"new_len", "old_len"}:
                    taken = isinstance(x.test.ops[0], (ast.LtE, ast.GtE, ast.Eq))
                    if isinstance(x.test.ops[0], (ast.Lt, ast.Gt, ast.LtE, ast.GtE, ast.Eq, ast.NotEq)):
                        arm = x.body if taken else x.orelse
                        inner = arm_for_equal(arm)
                        return inner if inner is not None else arm
            return None
        arm = arm_for_equal(lp.body)
        if arm is None:
            for x in ast.walk(lp):  # the dispatch may sit under an axis-selection test
                if isinstance(x, (ast.If, ast.For)) and x is not lp:
                    arm = arm_for_equal(x.body) or arm_for_equal(getattr(x, "orelse", []))
                    if arm is not None:
                        break
        if arm is None:
            raise AnalysisError("Dataset.fourier_resample: the arm taken for an unchanged length was not determined")
        L = Rat.sym("L")
        env_eq = {"new_len": L, "old_len": L, "oc": Rat.sym("c"), "nc": Rat.sym("c")}

        def ev(e):
            if isinstance(e, ast.Name) and e.id not in env_eq:
                dd = [x for x in definitions(lp, e.id) if isinstance(x, ast.AST)]
                if len(dd) == 1:
                    return ev(dd[0])
            if isinstance(e, ast.Name):
                return env_eq[e.id]
            if isinstance(e, ast.Constant) and e.value is None:
                return None
            if isinstance(e, ast.BinOp):
                a, b = ev(e.left), ev(e.right)
                return {ast.Add: lambda: a + b, ast.Sub: lambda: a - b, ast.Mult: lambda: a * b}[type(e.op)]()
            return from_ast(e, env_eq)
        ok_sl = ok_pd = False
        try:
            for st_ in arm:
                for c in ast.walk(st_):
                    if isinstance(c, ast.Call) and isinstance(c.func, ast.Attribute) and c.func.attr == "append" and c.args:
                        a0 = c.args[0]
                        if isinstance(a0, ast.Call) and call_name(a0) == "slice":
                            if len(a0.args) == 1 and is_const(a0.args[0], None):
                                ok_sl = True
                            elif len(a0.args) == 2:
                                lo, hi = ev(a0.args[0]), ev(a0.args[1])
                                ok_sl = (lo is None or lo.equals(Rat.const(0))) and (hi is None or hi.equals(L))
                        elif isinstance(a0, ast.Tuple) and len(a0.elts) == 2:
                            ok_pd = all(ev(x).equals(Rat.const(0)) for x in a0.elts)
        except (NotArithmetic, KeyError, TypeError, AttributeError):
            raise AnalysisError("Dataset.fourier_resample: the equal-length arm is not arithmetic")
        eq_arm_ok, eq_definite = ok_sl and ok_pd, True
    # `slice(None)` doubles as a sentinel for "axis untouched": a later step that tests for it relies on the identity arm emitting exactly that object
    sentinel_users = [x for x in ast.walk(fn) if isinstance(x, ast.Compare) and any(isinstance(c, ast.Call) and call_name(c) == "slice" and len(c.args) == 1 and is_const(c.args[0], None)
                                                                                     for c in [x.left] + list(x.comparators))]
    if sentinel_users:
        literal = not eq_definite  # the textual branch above matched `slice(None)` in the equal-length arm
        check.decide(literal, "C06-R3", "Dataset.fourier_resample: steps that test for the `slice(None)` sentinel see it on every unchanged axis", unparse(sentinel_users[0])[:60],
                     mod.line(sentinel_users[0]), definite=True,
                     fail_detail=f"`{unparse(sentinel_users[0])[:60]}` distinguishes touched from untouched axes by the sentinel, but an unchanged length now yields an explicit "
                                 f"slice(0, n): the step runs on axes that were not resampled — a same-shape resample is no longer the identity")
    check.decide(eq_arm_ok, "C06-R3", "Dataset.fourier_resample: unchanged length ⇒ no crop and no pad (identity)", "", mod.line(lp), definite=eq_definite,
                 fail_detail="the arm an unchanged length takes does not select the whole axis with (0, 0) padding")
    # rescale
    sc = [x for x in ast.walk(fn) if isinstance(x, ast.AugAssign) and dotted(x.target) == "array_resampled"]
    def inl(e, depth=0):
        """text of e with single-definition locals substituted"""
        class T(ast.NodeTransformer):
            def visit_Subscript(self, n):
                if not isinstance(n.value, ast.Name):  # a subscripted name is a table (axis → length): keep its name
                    n.value = self.visit(n.value)
                n.slice = self.visit(n.slice)
                return n

            def visit_Name(self, n):
                if depth < 4:
                    dd = [d for d in definitions(fn, n.id) if isinstance(d, ast.AST)]
                    if len(dd) == 1 and not isinstance(dd[0], (ast.Dict, ast.List)):
                        return ast.parse(inl(dd[0], depth + 1), mode="eval").body
                return n
        return unparse(T().visit(ast.parse(unparse(e), mode="eval").body))
    ok, got = False, "?"
    if len(sc) == 1 and isinstance(sc[0].op, ast.Mult):
        got = inl(sc[0].value)
        q = ast.parse(got, mode="eval").body
        while isinstance(q, ast.Call) and (call_name(q) or "") in ("float", "int") and len(q.args) == 1:
            q = q.args[0]
        if isinstance(q, ast.BinOp) and isinstance(q.op, ast.Div):
            num, den = unparse(q.left), unparse(q.right)
            ok = "np.prod" in num and "axis_to_outlen[" in num and "np.prod" in den and "self.shape[" in den and "axis_to_outlen" not in den and "self.shape" not in num
    check.decide(ok, "C06-R3", "Dataset.fourier_resample: rescale by N_out/N_in with the REALISED lengths (mean preserved under the default FFT normalisation)", got[:90], mod.line(sc[0] if sc else fn),
                 fail_detail=f"the result is multiplied by `{got[:110]}`, not by prod(realised output lengths)/prod(input lengths) over the resampled axes: requested factors differ from the "
                             f"realised ratio whenever shape·factor is not an integer, and the mean is off by that ratio")
    # linearity inventory of the data path self.array → array_resampled
    path_names = {"F", "F_rs", "array_resampled"}
    nonlinear = []
    for n in walk_no_nested_defs(fn):
        if isinstance(n, ast.Assign) and any(isinstance(t, ast.Name) and t.id in path_names for t in n.targets):
            for c in ast.walk(n.value):
                if isinstance(c, ast.Call):
                    cn = call_name(c) or unparse(c.func)
                    if cn not in LINEAR_CALLS:
                        nonlinear.append(cn)
                    if cn == "np.pad":
                        md = kwarg(c, "mode")
                        if md is not None and not is_const(md, "constant"):
                            nonlinear.append(f"np.pad(mode={unparse(md)})")
                        if kwarg(c, "constant_values") is not None:
                            nonlinear.append("np.pad(constant_values=…)")
                if isinstance(c, ast.BinOp) and isinstance(c.op, (ast.Pow,)):
                    nonlinear.append("**")
    check.decide(not nonlinear, "C06-R3", "Dataset.fourier_resample: the data path uses only linear operations", "", mod.line(fn),
                 fail_detail=f"non-linear / affine operations on the data path: {nonlinear}")
    src = [x for x in definitions(fn, "F") if isinstance(x, ast.AST)]
    ok = any(unparse(x).startswith("np.fft.fftn(self.array") for x in src)
    check.decide(ok, "C06-R3", "Dataset.fourier_resample: transforms the dataset's own array", "", mod.line(fn),
                 fail_detail="fftn is not applied to self.array")


# ------------------------------------------------------------------------------------- pad / crop
def _pad_crop(check, repo, mod) -> None:
    _, pad = repo.func(f"{DS}:Dataset.pad")
    comp = None
    for n in ast.walk(pad):
        if isinstance(n, ast.ListComp) and isinstance(n.elt, ast.Tuple) and len(n.elt.elts) == 2:
            comp = n
    if comp is None:
        raise AnalysisError("Dataset.pad: symmetric width comprehension not found")
    g = comp.generators[0]
    iv = g.target.id if isinstance(g.target, ast.Name) else "?"
    lo, hi = comp.elt.elts

    def half(e, fname):
        # max(0, int(np.<fname>(D / 2))) → D text
        if isinstance(e, ast.Call) and call_name(e) == "max" and len(e.args) == 2 and is_const(e.args[0], 0):
            e = e.args[1]
        if isinstance(e, ast.Call) and call_name(e) == "int" and e.args:
            e = e.args[0]
        if isinstance(e, ast.Call) and call_name(e) == f"np.{fname}" and e.args and isinstance(e.args[0], ast.BinOp) \
                and isinstance(e.args[0].op, ast.Div) and is_const(e.args[0].right, 2):
            return unparse(e.args[0].left)
        return None

    d_lo, d_hi = half(lo, "floor"), half(hi, "ceil")
    ok = d_lo is not None and d_lo == d_hi and d_lo == f"output_shape[{iv}] - self.shape[{iv}]" and unparse(g.iter) == "range(self.ndim)"
    check.decide(ok, "C06-R4", "Dataset.pad(output_shape): widths are (⌊D/2⌋, ⌈D/2⌉) of D = output − shape on every axis, in order",
                 f"{d_lo} | {d_hi}", mod.line(comp),
                 fail_detail=f"pad widths are `{unparse(lo)}` / `{unparse(hi)}` over `{unparse(g.iter)}`: before+after ≠ output − shape "
                             f"or axes are mismatched")
    pads = [c for c in calls_in(pad) if call_name(c) == "np.pad"]
    ok = bool(pads) and all(c.args and unparse(c.args[0]) == "self.array" for c in pads)
    check.decide(ok, "C06-R4", "Dataset.pad pads the dataset's own array", "", mod.line(pad), fail_detail="np.pad is not applied to self.array")
    # crop
    _, crop = repo.func(f"{DS}:Dataset.crop")
    sl = [c for c in calls_in(crop) if call_name(c) == "slice" and c.args and not (len(c.args) == 1 and is_const(c.args[0], None))]
    if not sl:
        raise AnalysisError("Dataset.crop: slice construction not found")
    for c in sl:
        ok = False
        why = unparse(c)
        if len(c.args) == 2 and not any(isinstance(a, ast.Starred) for a in c.args):
            stop = c.args[1]
            sdefs = [stop] if not isinstance(stop, ast.Name) else [x for x in definitions(crop, stop.id) if isinstance(x, ast.AST)]
            for sd in sdefs:
                if isinstance(sd, ast.IfExp) and is_const(sd.orelse, None) and isinstance(sd.test, ast.Compare) \
                        and isinstance(sd.test.ops[0], ast.NotEq) and is_const(sd.test.comparators[0], 0) \
                        and unparse(sd.test.left) == unparse(sd.body):
                    ok = True
                if isinstance(sd, ast.BoolOp) and isinstance(sd.op, ast.Or) and is_const(sd.values[-1], None):
                    ok = True
        # definite arm: the stop operand is the caller's crop width, reached through structure-preserving steps only (names,
        # unpacking, dict(zip(…)), subscripts, starring) — no conditional anywhere on the way, so a width of 0 reaches slice() as 0.
        stop_e = c.args[1] if len(c.args) == 2 and not any(isinstance(a, ast.Starred) for a in c.args) else \
            (c.args[0] if len(c.args) == 1 and isinstance(c.args[0], ast.Starred) else None)
        raw = (not ok) and stop_e is not None and raw_flow_from(crop, stop_e, "crop_widths") is True
        check.decide(ok, "C06-R4", "Dataset.crop: a stop of 0 ('remove nothing at the end') is mapped to None", why, mod.line(c), definite=raw,
                     fail_detail=f"`{why}` passes the stop value through unchanged: slice(start, 0) is empty, so cropping pad widths "
                                 f"with a zero trailing width returns an empty axis instead of the original data")
    loop = next((n for n in walk_no_nested_defs(crop) if isinstance(n, ast.For) and "self.shape" in unparse(n.iter)), None)
    comp2 = next((n for n in ast.walk(crop) if isinstance(n, ast.ListComp) and any("self.shape" in unparse(g.iter) or "self.ndim" in unparse(g.iter) for g in n.generators)), None)
    ok = loop is not None or comp2 is not None
    txt = unparse(crop)
    check.decide(ok and "slice(None)" in txt, "C06-R4", "Dataset.crop: one slice per axis in axis order, slice(None) on untouched axes", "", mod.line(crop),
                 fail_detail="crop does not build one slice per axis of self.shape in order")
    idx = [n for n in ast.walk(crop) if isinstance(n, ast.Subscript) and unparse(n.slice) == "tuple(full_slices)"]
    check.decide(len(idx) >= 2, "C06-R4", "Dataset.crop: both arms index with the full slice tuple", "", mod.line(crop),
                 fail_detail="the array is not indexed with tuple(full_slices) on both arms")


MANIFEST = {
    "text": "Decides the conservation laws as obligations on the source, for all shapes and factors: the calibration updates "
            "of bin and fourier_resample are normalised to rational functions and shown identical to the laws (sampling·f; "
            "origin + s(f−1)/2; N_out·s' = N_in·s with the actual output length; centre preserved); the block reduction covers "
            "(n//f)·f samples from index 0, reshapes each binned axis to (blocks, f), sums exactly those positions in the "
            "default accumulator and divides the mean by the product of the same factors; the resampling data path is "
            "fftn→fftshift→DC-centred crop/zero-pad→ifftshift→ifftn over one axes tuple with only linear operations and the "
            "N_out/N_in rescale; pad widths are floor/ceil halves of one difference; crop maps a zero stop to None.",
    "note": "Not decided: floating-point exactness, the band-limited up/down round trip (needs Nyquist reasoning on data), "
            "NumPy's FFT/pad/reshape semantics (trusted). Identities are decided by polynomial normal forms, so any "
            "algebraically equivalent rewrite of the calibration code passes.",
    "technique": "algebraic normal-form obligations (rational functions) + structural role checks on the AST",
}
MANIFEST["text"] += ' The block sum is recognised in function and method form and must not narrow the accumulator dtype.'
MANIFEST["text"] += " For Dataset.crop a definite verdict is given when the slice stop is the caller's crop width reached through structure-preserving steps only (names, unpacking, dict(zip(…)), subscripts, starring): then a width of 0 provably reaches slice() as 0."
MANIFEST["text"] += " Also: the operand of ufunc.reduceat is trimmed to a whole number of blocks (its last segment runs to the end of the axis); in fourier_resample the amplitude rescale and the new sampling must not depend on the caller's nominal `factors` alone (definition closure stopped at the parameter: no length, no rounding = nominal)."
MANIFEST["text"] += ' R1 also: the sampling/origin setters do not truncate computed calibrations to the dtype of the previous calibration (shared instance of the C03 setter rule).'
MANIFEST["text"] += " R1: bin's working vectors are storage of their own (coupled with validate_ndinfo); R3: the equal-length arm is evaluated algebraically and coupled with consumers of the slice(None) sentinel."
