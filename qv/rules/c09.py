"""C09 — mini-batch scheduling: partition idioms, split construction, seeded randomness,
loss scaling (E3, E5, E8)."""
from __future__ import annotations

import ast

from ..core.cfg import CFG
from ..core.repo import (AnalysisError, Repo, inline_self_calls, call_name, calls_in, definitions, dotted, func_params, is_const,
                         kwarg, names_in, unparse, walk_no_nested_defs)
from ..domains.algnf import NotArithmetic, Rat, from_ast

PU = "quantem.diffractive_imaging.ptycho_utils"
UT = "quantem.core.utils.utils"
RNG = "quantem.core.utils.rng"
PB = "quantem.diffractive_imaging.ptychography_base"
PT = "quantem.diffractive_imaging.ptychography"

EXPLANATION = (
    "batch scheduling decided structurally: every batch iterator is the strided-slice partition "
    "idiom over one sequence with step = width; reported length = ceil(len/size) over the same "
    "pair; each generated train/validation split is (subset, exact complement in self.indices) or "
    "(empty, all); all stochastic calls in the reconstruction modules draw from the seeded "
    "generators and the reset path reseeds for every seed incl. 0; the l1/l2 losses are plain sums "
    "divided by (actual batch extent / number of patterns)"
)

STOCHASTIC_TORCH = {"torch.rand", "torch.randn", "torch.randint", "torch.randperm", "torch.normal", "torch.poisson",
                    "torch.bernoulli", "torch.multinomial", "torch.rand_like", "torch.randn_like", "torch.randint_like"}
RECON_MODULES = [
    "quantem.diffractive_imaging.ptychography", "quantem.diffractive_imaging.ptychography_base",
    "quantem.diffractive_imaging.ptychography_opt", "quantem.diffractive_imaging.ptycho_utils",
    "quantem.diffractive_imaging.object_models", "quantem.diffractive_imaging.probe_models",
    "quantem.diffractive_imaging.dataset_models", "quantem.diffractive_imaging.detector_models",
    "quantem.diffractive_imaging.constraints", "quantem.core.ml.optimizer_mixin", "quantem.core.utils.rng",
]


def _partition_idiom(fn: ast.AST):
    """for i in range(0, len(X), S): yield X[i : i + S]  →  (X text, S text) or a reason string."""
    loops = [n for n in ast.walk(fn) if isinstance(n, ast.For)]
    for lp in loops:
        ys = [y for y in ast.walk(lp) if isinstance(y, ast.Yield)]
        if not ys:
            continue
        it = lp.iter
        if not (isinstance(it, ast.Call) and call_name(it) == "range" and len(it.args) == 3 and isinstance(lp.target, ast.Name)):
            return f"loop header `{unparse(it)}` is not range(0, len(X), S)"
        i = lp.target.id
        start, stop, step = it.args
        if not is_const(start, 0):
            return f"range starts at {unparse(start)}"
        if not (isinstance(stop, ast.Call) and call_name(stop) == "len" and stop.args):
            return f"range stop `{unparse(stop)}` is not len(X)"
        X, S = unparse(stop.args[0]), unparse(step)
        y = ys[0].value
        if not (isinstance(y, ast.Subscript) and isinstance(y.slice, ast.Slice)):
            return f"yields `{unparse(y)}`"
        if unparse(y.value) != X:
            return f"slices `{unparse(y.value)}` but counts `{X}`"
        lo, hi = y.slice.lower, y.slice.upper
        if lo is None or unparse(lo) != i or hi is None or y.slice.step is not None:
            return f"slice `{unparse(y.slice)}` does not start at the loop index"
        try:
            w = from_ast(hi) - from_ast(lo)
            if not w.equals(from_ast(step)):
                return f"slice width `{unparse(hi)} - {i}` differs from the stride `{S}`: items are skipped or repeated"
        except NotArithmetic:
            return f"slice bound `{unparse(hi)}` not arithmetic"
        if len(ys) != 1:
            return "more than one yield in the loop"
        return (X, S)
    return None  # no yielding loop here: not this idiom (the caller may follow a delegation)


def _partition_of(repo, cls_q: str, fn: ast.AST, depth: int = 0):
    """_partition_idiom, following `yield from self.h(X)` / `return self.h(X)` into the generator helper h of the same class."""
    r = _partition_idiom(fn)
    if r is not None or depth > 2:
        return r
    for n in walk_no_nested_defs(fn):
        c = None
        if isinstance(n, ast.Expr) and isinstance(n.value, ast.YieldFrom):
            c = n.value.value
        elif isinstance(n, ast.Return) and isinstance(n.value, ast.Call):
            c = n.value
        if isinstance(c, ast.Call) and isinstance(c.func, ast.Attribute) and isinstance(c.func.value, ast.Name) and c.func.value.id == "self" and len(c.args) == 1 \
                and repo.has(f"{cls_q}.{c.func.attr}"):
            _, h = repo.func(f"{cls_q}.{c.func.attr}")
            hp = [a.arg for a in h.args.args if a.arg != "self"]
            inner = _partition_of(repo, cls_q, h, depth + 1)
            if isinstance(inner, tuple) and len(hp) == 1:
                X, S = inner
                return (unparse(c.args[0]) if X == hp[0] else X, S)
            if isinstance(inner, str):
                return inner
    # nested generator returned by the function (def _gen(): …; return _gen())
    for n in ast.walk(fn):
        if isinstance(n, ast.FunctionDef) and n is not fn:
            inner = _partition_idiom(n)
            if inner is not None:
                return inner
    return None


def run(check, repo: Repo) -> None:
    mod = repo.module(PU)
    _, bcls = repo.cls(f"{PU}:SimpleBatcher")
    check.analysed(f"{PU}:SimpleBatcher.__init__", f"{PU}:SimpleBatcher.__iter__", f"{PU}:SimpleBatcher.__len__",
                   f"{PU}:SimpleBatcher.iter_val", f"{PU}:SimpleBatcher.val_len", f"{UT}:subdivide_batches",
                   f"{UT}:generate_batches", f"{RNG}:RNGMixin.*", f"{PB}:PtychographyBase.error_estimate",
                   f"{PB}:PtychographyBase.reset_recon", f"{PT}:Ptychography.reconstruct")

    # ---- R1 partition idiom ---------------------------------------------------------------------
    _, it_fn = repo.func(f"{PU}:SimpleBatcher.__iter__")
    _, iv_fn = repo.func(f"{PU}:SimpleBatcher.iter_val")
    res = {}
    for label, fn in (("__iter__", it_fn), ("iter_val", iv_fn)):
        r = _partition_of(repo, f"{PU}:SimpleBatcher", fn)
        if r is None:
            raise AnalysisError(f"SimpleBatcher.{label}: batch iteration idiom (strided slices of one sequence, directly or through a generator helper) not recognised")
        res[label] = r
        check.decide(isinstance(r, tuple), "C09-R1", f"SimpleBatcher.{label}: strided-slice partition (every item exactly once)",
                     str(r), mod.line(fn), fail_detail=f"SimpleBatcher.{label}: {r}")
    if isinstance(res["__iter__"], tuple):
        X, S = res["__iter__"]
        d = [x for x in definitions(it_fn, X) if isinstance(x, ast.AST)] if X.isidentifier() else []
        ok = False
        if X == "self.train_indices":
            ok = True
        elif len(d) == 1:
            e = d[0]
            arms = [e.body, e.orelse] if isinstance(e, ast.IfExp) else [e]
            ok = all(unparse(a) == "self.train_indices" or (isinstance(a, ast.Call) and (call_name(a) or "").endswith("rng.permutation")
                                                            and a.args and unparse(a.args[0]) == "self.train_indices") for a in arms)
        check.decide(ok and S == "self.batch_size", "C09-R1", "SimpleBatcher.__iter__ partitions train_indices (or a seeded permutation of it) by batch_size",
                     f"X={X} S={S}", mod.line(it_fn),
                     fail_detail=f"the partitioned sequence `{X}` is not train_indices / rng.permutation(train_indices), or the stride is `{S}`")
    if isinstance(res["iter_val"], tuple):
        X, S = res["iter_val"]
        check.decide(X == "self.val_indices" and S == "self.batch_size", "C09-R1", "SimpleBatcher.iter_val partitions val_indices by batch_size",
                     f"X={X} S={S}", mod.line(iv_fn), fail_detail=f"iter_val partitions `{X}` with stride `{S}`")
    # generate_batches / subdivide_batches
    umod, gb = repo.func(f"{UT}:generate_batches")
    lp = next((n for n in ast.walk(gb) if isinstance(n, ast.For)), None)
    ok = False
    if lp is not None and isinstance(lp.target, ast.Name):
        sz = lp.target.id
        ys = [y.value for y in ast.walk(lp) if isinstance(y, ast.Yield)]
        incs = [a for a in ast.walk(lp) if isinstance(a, ast.AugAssign) and isinstance(a.op, ast.Add)]
        if len(ys) == 1 and isinstance(ys[0], ast.Tuple) and len(ys[0].elts) == 2 and len(incs) == 1:
            a, b = ys[0].elts
            cur = dotted(incs[0].target)
            try:
                ok = unparse(a) == cur and (from_ast(b) - from_ast(a)).equals(Rat.sym(sz)) and unparse(incs[0].value) == sz \
                    and lp.body.index(next(s for s in lp.body if incs[0] is s)) > 0
            except (NotArithmetic, StopIteration):
                ok = False
    check.decide(ok, "C09-R1", "generate_batches yields contiguous (idx, idx+size) ranges and advances by size", "", umod.line(gb),
                 fail_detail="generate_batches does not yield (idx, idx + size) followed by idx += size")
    _, sb = repo.func(f"{UT}:subdivide_batches")
    ret = [n.value for n in ast.walk(sb) if isinstance(n, ast.Return) and n.value is not None]
    ok = False
    detail = ""
    if len(ret) == 1 and isinstance(ret[0], ast.BinOp) and isinstance(ret[0].op, ast.Add):
        def list_times(e):
            if isinstance(e, ast.BinOp) and isinstance(e.op, ast.Mult) and isinstance(e.left, ast.List) and len(e.left.elts) == 1:
                return e.left.elts[0], e.right
            return None
        l, r = list_times(ret[0].left), list_times(ret[0].right)
        if l and r:
            env = {}
            for n_ in walk_no_nested_defs(sb):
                # quotient / remainder of the same division, whatever the locals are called
                if isinstance(n_, ast.Assign) and isinstance(n_.targets[0], ast.Name) and isinstance(n_.value, ast.BinOp) \
                        and isinstance(n_.value.op, (ast.FloorDiv, ast.Mod)) and unparse(n_.value.left) == "num_items" and unparse(n_.value.right) == "num_batches":
                    env[n_.targets[0].id] = Rat.sym("Q" if isinstance(n_.value.op, ast.FloorDiv) else "R")
            try:
                total = from_ast(l[0], env) * from_ast(l[1], env) + from_ast(r[0], env) * from_ast(r[1], env)
                want = Rat.sym("Q") * Rat.sym("num_batches") + Rat.sym("R")  # = num_items (div-mod axiom)
                count = from_ast(l[1], env) + from_ast(r[1], env)
                ok = total.equals(want) and count.equals(Rat.sym("num_batches"))
                detail = f"sum = {total}"
            except NotArithmetic:
                ok = False
    check.decide(ok, "C09-R1", "subdivide_batches: sizes sum to num_items (div-mod axiom) over num_batches entries", detail, umod.line(sb),
                 fail_detail=f"the returned sizes do not sum to (n // k)·k + n % k over k entries ({detail})")

    # ---- R2 reported length ---------------------------------------------------------------------
    for label, X in (("__len__", "self.train_indices"), ("val_len", "self.val_indices")):
        _, fn = repo.func(f"{PU}:SimpleBatcher.{label}")
        ok, seen_ceil = False, False
        rets_ = [n.value for n in walk_no_nested_defs(fn) if isinstance(n, ast.Return) and n.value is not None]
        for r_ in rets_:
            r_ = inline_self_calls(repo, f"{PU}:SimpleBatcher", r_)  # look through one-line helpers (self._num_chunks(n))
            for c in [x for x in ast.walk(r_) if isinstance(x, ast.Call)]:
                if call_name(c) in ("ceil", "math.ceil", "np.ceil") and c.args and isinstance(c.args[0], ast.BinOp) and isinstance(c.args[0].op, ast.Div):
                    seen_ceil = True
                    ok = unparse(c.args[0].left) == f"len({X})" and unparse(c.args[0].right) == "self.batch_size"
        if not seen_ceil:
            raise AnalysisError(f"SimpleBatcher.{label}: the reported length is not a recognised ceil(len / size) expression")
        check.decide(ok, "C09-R2", f"SimpleBatcher.{label} = ceil(len({X.split('.')[1]}) / batch_size)", "", mod.line(fn),
                     fail_detail=f"{label} is not ceil(len({X}) / self.batch_size): the reported number of batches differs from the number yielded")

    # ---- R3 split construction --------------------------------------------------------------------
    _, init = repo.func(f"{PU}:SimpleBatcher.__init__")
    cfg = CFG(init)
    stores = {"train_indices": [], "val_indices": []}
    values = {}  # (node id, attr) → stored expression (element-wise for tuple assignments)
    for n in cfg.nodes:
        if n.kind == "stmt" and isinstance(n.stmt, ast.Assign):
            for t in n.stmt.targets:
                elts = [(t, n.stmt.value)]
                if isinstance(t, ast.Tuple) and isinstance(n.stmt.value, ast.Tuple) and len(t.elts) == len(n.stmt.value.elts):
                    elts = list(zip(t.elts, n.stmt.value.elts))
                for te, ve in elts:
                    if isinstance(te, ast.Attribute) and dotted(te.value) == "self" and te.attr in stores:
                        stores[te.attr].append(n)
                        values[(n.id, te.attr)] = ve
    pairs = []
    for tn in stores["train_indices"]:
        for vn in stores["val_indices"]:
            # same straight-line region: same set of dominating branch nodes
            if [d for d in cfg.dominators_of(tn.id) if cfg.nodes[d].kind == "branch"] == [d for d in cfg.dominators_of(vn.id) if cfg.nodes[d].kind == "branch"]:
                pairs.append((tn, vn))
    # one store per attribute and straight-line region: a region that stores an attribute twice (assign the other way round, then swap through a temporary, …)
    # needs the values to be followed through the re-assignments — not done here, so nothing is claimed for it
    from collections import Counter
    per_region = Counter()
    for attr_, nodes_ in stores.items():
        for n_ in nodes_:
            per_region[(attr_, tuple(d for d in cfg.dominators_of(n_.id) if cfg.nodes[d].kind == "branch"))] += 1
    multi = [k_ for k_, v_ in per_region.items() if v_ > 1]
    if multi:
        raise AnalysisError(f"SimpleBatcher.__init__: `self.{multi[0][0]}` is stored more than once in one branch (re-assignment / swap) — the split is not evaluated through it")
    check.floor("train/val store pairs", len(pairs), 4)
    for tn, vn in pairs:
        tv, vv = values[(tn.id, "train_indices")], values[(vn.id, "val_indices")]
        guards = " ∧ ".join(f"{'' if p else '¬'}{unparse(t)[:30]}" for t, p in reversed(cfg.guards_of(tn.id)))
        label = f"SimpleBatcher.__init__[{guards}]"
        user = any("train_indices is not None" in unparse(t) or "val_indices is not None" in unparse(t) for t, p in cfg.guards_of(tn.id) if p)
        if user:
            check.advisory("C09-R3", f"{label}: user-supplied split", "indices supplied by the caller are outside the generated split modes", mod.line(tn.stmt))
            continue
        verdict, why = _complementary(init, tv, vv, later_is_val=cfg.nodes.index(vn) > cfg.nodes.index(tn) if False else vn.stmt.lineno > tn.stmt.lineno)
        if verdict is None:
            raise AnalysisError(f"C09-R3: split construction not recognised in {label}: {why}")
        check.decide(verdict, "C09-R3", f"{label}: train and validation sets are disjoint and cover all patterns", why, mod.line(tn.stmt), definite=True,
                     fail_detail=f"{why}: some patterns are in neither set (never visited) or in both")

    # ---- R4 seeded randomness -------------------------------------------------------------------
    n_sto = 0
    for mname in RECON_MODULES:
        m = repo.module(mname)
        for c in ast.walk(m.tree):
            if not isinstance(c, ast.Call):
                continue
            cn = call_name(c) or ""
            bad = None
            if cn in STOCHASTIC_TORCH:
                n_sto += 1
                g = kwarg(c, "generator")
                if g is None or "_rng_torch" not in unparse(g):
                    bad = f"`{unparse(c)[:60]}` draws from torch's global generator (no generator=…_rng_torch)"
            elif cn.startswith("np.random.") and cn.split(".")[-1] not in ("default_rng", "Generator", "SeedSequence", "PCG64"):
                n_sto += 1
                bad = f"`{cn}` uses NumPy's global random state"
            elif cn.startswith("random.") and m.imports.get("random") == "random":
                n_sto += 1
                bad = f"`{cn}` uses Python's global random state"
            elif cn.endswith((".permutation", ".shuffle", ".integers", ".choice", ".normal", ".uniform", ".random")) and ".rng." in "." + cn:
                n_sto += 1
            if bad:
                check.violated("C09-R4", f"{mname.split('.')[-1]}: unseeded stochastic call `{cn}`", bad +
                               ": two runs from the same seed no longer produce identical loss histories", m.line(c))
    check.floor("stochastic call sites in the reconstruction modules", n_sto, 6)
    check.holds("C09-R4", "reconstruction modules: every stochastic call draws from self.rng / _rng_torch", f"{n_sto} sites")
    # ---- R7 index arrays are the batcher's own ----------------------------------------------------------------------------------------------
    # Two sites cooperate: (a) the index arrays of a batcher come from a call-cached producer (lru_cache / cache: every batcher of that size gets the SAME array object);
    # (b) some method reorders / writes such an array in place (rng.shuffle, .sort(), subscript store).  Either alone is deterministic; together one epoch's shuffle
    # is the next batcher's starting order — same seed, different schedule.
    bm_ = repo.module(PU)
    cached_names = set()
    for st_ in bm_.tree.body:
        if isinstance(st_, ast.Assign) and isinstance(st_.value, ast.Call) and isinstance(st_.value.func, ast.Call) and (call_name(st_.value.func) or "").split(".")[-1] in ("lru_cache", "cache"):
            cached_names |= {t.id for t in st_.targets if isinstance(t, ast.Name)}
        if isinstance(st_, ast.Assign) and isinstance(st_.value, ast.Call) and (call_name(st_.value) or "").split(".")[-1] == "cache":
            cached_names |= {t.id for t in st_.targets if isinstance(t, ast.Name)}
        if isinstance(st_, ast.FunctionDef) and any("cache" in unparse(d_) for d_ in st_.decorator_list):
            cached_names.add(st_.name)
    _, binit = repo.func(f"{PU}:SimpleBatcher.__init__")
    shared_attrs, grew = set(), True
    while grew:
        grew = False
        for n_ in ast.walk(binit):
            if isinstance(n_, ast.Assign):
                v_ = n_.value
                while isinstance(v_, ast.Subscript) and isinstance(v_.slice, ast.Slice):
                    v_ = v_.value  # a basic slice is a view of the same storage
                src_shared = (isinstance(v_, ast.Call) and isinstance(v_.func, ast.Name) and v_.func.id in cached_names) or (dotted(v_) or "") in shared_attrs \
                    or (isinstance(v_, ast.Name) and v_.id in shared_attrs)
                if src_shared:
                    for t_ in n_.targets:
                        k_ = dotted(t_)
                        if k_ and k_ not in shared_attrs:
                            shared_attrs.add(k_)
                            grew = True
    inplace_sites = []
    for f_ in [x for x in bcls.body if isinstance(x, ast.FunctionDef)]:
        for c_ in calls_in(f_):
            cn_ = call_name(c_) or ""
            if cn_.split(".")[-1] == "shuffle" and c_.args and (dotted(c_.args[0]) or "") in shared_attrs:
                inplace_sites.append((f_.name, c_))
            if isinstance(c_.func, ast.Attribute) and c_.func.attr in ("sort", "fill", "put", "partition", "resize") and (dotted(c_.func.value) or "") in shared_attrs:
                inplace_sites.append((f_.name, c_))
        for x_ in ast.walk(f_):
            if isinstance(x_, (ast.Assign, ast.AugAssign)):
                for t_ in (x_.targets if isinstance(x_, ast.Assign) else [x_.target]):
                    if isinstance(t_, ast.Subscript) and (dotted(t_.value) or "") in shared_attrs:
                        inplace_sites.append((f_.name, x_))
    key7 = "SimpleBatcher: index arrays that are reordered in place are the batcher's own (not an object a call cache hands to every batcher of that size)"
    if inplace_sites:
        check.violated("C09-R7", key7, f"`{sorted(shared_attrs)[0]}` comes from the call-cached `{sorted(cached_names)[0]}` and SimpleBatcher.{inplace_sites[0][0]} executes "
                       f"`{unparse(inplace_sites[0][1])[:50]}` on it: the shuffle of one epoch permanently reorders the array the next batcher (after a reset, or in a fresh object "
                       f"with the same seed) starts from — identical seeds no longer give identical schedules", bm_.line(inplace_sites[0][1]), definite=True)
    else:
        check.holds("C09-R7", key7, f"call-cached producers: {sorted(cached_names) or 'none'}; shared attributes: {sorted(shared_attrs) or 'none'}; in-place reorderings of them: none", bm_.line(binit))
    # the batcher is built with the reconstruction's generator
    pmod, rec = repo.func(f"{PT}:Ptychography.reconstruct")
    bc = [c for c in calls_in(rec) if call_name(c) == "SimpleBatcher"]
    if len(bc) != 1:
        raise AnalysisError("Ptychography.reconstruct: SimpleBatcher construction not found")
    g = kwarg(bc[0], "rng")
    check.decide(g is not None and unparse(g) == "self.rng", "C09-R4", "Ptychography.reconstruct: batcher shuffles with self.rng", "", pmod.line(bc[0]),
                 fail_detail="SimpleBatcher is not given rng=self.rng: the shuffle order is not tied to the reconstruction's seed")
    a0 = [unparse(a) for a in bc[0].args[:2]]
    check.decide(a0 == ["self.dset.num_gpts", "self.batch_size"], "C09-R4", "Ptychography.reconstruct: batcher covers all patterns with the configured batch size",
                 str(a0), pmod.line(bc[0]), fail_detail=f"SimpleBatcher({a0})")
    # the generator object handed to the batcher is the one installed by the reset: the reset replaces self.rng, so a batcher built
    # before `if reset: self.reset_recon()` keeps the old, already advanced generator
    reccfg = CFG(rec)
    bn = reccfg.node_containing(bc[0])
    resets = [n for c in calls_in(rec) if (call_name(c) or "") == "self.reset_recon" for n in reccfg.node_containing(c)]
    if not bn or not resets:
        raise AnalysisError("Ptychography.reconstruct: batcher construction / reset_recon call has no CFG node")
    late_reset = [r for r in resets if r in reccfg.reachable_from(bn[0]) and r != bn[0]]
    check.decide(not late_reset, "C09-R4", "Ptychography.reconstruct: the batcher is built after the reset has (re)installed the generator", "", pmod.line(bc[0]),
                 fail_detail=f"self.reset_recon() (line {reccfg.nodes[late_reset[0]].lineno if late_reset else '?'}) runs after SimpleBatcher(rng=self.rng) was built: the batcher keeps the "
                             f"previous, already advanced generator and the shuffle order after a reset no longer restarts from the seed")
    # the batcher iterated in this call is the one built in this call: an object kept on self from an earlier call carries the generator
    # that was current THEN (reset_recon → _reset_rng installs a new Generator object, it does not rewind the old one)
    from ..core.repo import enclosing_stmt as _encl
    bst = _encl(bc[0])
    bname = bst.targets[0].id if isinstance(bst, ast.Assign) and isinstance(bst.targets[0], ast.Name) else None
    if bname is None:
        raise AnalysisError("Ptychography.reconstruct: the SimpleBatcher is not bound to a local name")
    odefs = [d_ for d_ in definitions(rec, bname) if d_ is not bc[0]]
    kept = [d_ for d_ in odefs if isinstance(d_, ast.AST) and any(isinstance(x, ast.Attribute) and dotted(x.value) == "self" for x in ast.walk(d_))
            and not any(call_name(c) == "SimpleBatcher" for c in calls_in(d_))]
    key_ = "Ptychography.reconstruct: the batcher iterated is the one constructed in this call (with the generator current after the reset)"
    if kept:
        check.violated("C09-R4", key_, f"`{bname} = {unparse(kept[0])[:60]}` re-uses an object stored by an earlier call: it holds the Generator that was installed before "
                       f"this call's reset, so a repeated run from the same seed shuffles from an already advanced stream", pmod.line(kept[0]), definite=True)
    elif odefs:
        raise AnalysisError(f"Ptychography.reconstruct: `{bname}` has a second definition that is not recognised")
    else:
        check.holds("C09-R4", key_, "single definition", pmod.line(bc[0]))
    # a reset re-creates the schedulers WITH this call's number of iterations (reset_optimizer() rebuilds them without it, so schedulers whose
    # parameters derive from num_iter — exp with only `factor` — would differ from the first run)
    ss = [c for c in calls_in(rec) if (call_name(c) or "") == "self.set_schedulers"]
    if len(ss) != 1:
        raise AnalysisError("Ptychography.reconstruct: set_schedulers call not found")
    sn = reccfg.node_containing(ss[0])
    guards = [(t, p) for t, p in reccfg.guards_of(sn[0])] if sn else []
    rparam = "reset" if "reset" in func_params(rec) else None
    implied = False
    why = ""
    if not guards:
        implied, why = True, "unconditional"
    else:
        for t, pol in guards:
            if pol and rparam in names_in(t):
                implied, why = True, f"guarded by `{unparse(t)}`"
            elif pol and isinstance(t, ast.Name):
                # a flag: it must be initialised from `reset` (or True) and only ever be raised afterwards
                dd = [d for d in definitions(rec, t.id) if isinstance(d, ast.AST)]
                init = [d for d in dd if rparam in names_in(d) or is_const(d, True)]
                lowered = [unparse(d) for d in dd if is_const(d, False)]
                implied = bool(init) and not lowered
                why = f"flag `{t.id}` defined as {[unparse(d) for d in dd]}"
    nit = kwarg(ss[0], "num_iter") or (ss[0].args[1] if len(ss[0].args) > 1 else None)
    check.decide(implied and nit is not None and unparse(nit) == "num_iters", "C09-R4", "Ptychography.reconstruct: a reset implies set_schedulers(…, num_iter=num_iters) before the epoch loop", why,
                 pmod.line(ss[0]), fail_detail=f"{why}: with reset=True the schedulers are not re-created with this call's num_iters — the learning-rate (and loss) history of the same run after "
                                               f"a reset differs from the first run")
    # reset path
    bmod, rr = repo.func(f"{PB}:PtychographyBase.reset_recon")
    rcfg = CFG(rr)
    rn = [n.id for n in rcfg.nodes if n.kind == "stmt" and any(isinstance(c, ast.Call) and call_name(c) == "self._reset_rng" for c in ast.walk(n.stmt))]
    ok = bool(rn) and rcfg.exit not in rcfg.reachable_from(rcfg.entry, avoid=rn)
    check.decide(ok, "C09-R4", "PtychographyBase.reset_recon reseeds the generators on every path", "", bmod.line(rr),
                 fail_detail="reset_recon can return without calling self._reset_rng()")
    _, prr = repo.func(f"{PT}:Ptychography.reset_recon")
    ok = any(isinstance(c.func, ast.Attribute) and c.func.attr == "reset_recon" and isinstance(c.func.value, ast.Call) and call_name(c.func.value) == "super"
             for c in calls_in(prr))
    check.decide(ok, "C09-R4", "Ptychography.reset_recon chains to the base reset", "", pmod.line(prr), fail_detail="super().reset_recon() is not called")
    rmod, _ = repo.cls(f"{RNG}:RNGMixin")
    n_seed_tests = 0
    for q in ("_reset_rng", "_update_torch_rng", "_rng_to_device"):
        _, fn = repo.func(f"{RNG}:RNGMixin.{q}")
        for n in ast.walk(fn):
            if isinstance(n, (ast.If, ast.IfExp, ast.While)) and "_rng_seed" in unparse(n.test):
                n_seed_tests += 1
                t = n.test
                ok = isinstance(t, ast.Compare) and len(t.ops) == 1 and isinstance(t.ops[0], (ast.Is, ast.IsNot)) and is_const(t.comparators[0], None)
                check.decide(ok, "C09-R4", f"RNGMixin.{q}: the seed is tested with `is (not) None` (seed 0 is a seed)", unparse(t), rmod.line(n),
                             fail_detail=f"`{unparse(t)}` treats seed 0 like 'no seed': with seed 0 a reset does not reseed, so the same run "
                                         f"after a reset produces a different loss history")
    # the stored seed is THE seed: _reset_rng() rebuilds the numpy generator from self._rng_seed, so whatever is stored must be what the first generator was built
    # from.  Reducing it on the way into the attribute (seed % 2**32 is only right for torch's manual_seed, at the point of use) makes the run after a reset differ
    # from the first run for every seed wider than 32 bits — including the entropy of an unseeded default_rng().
    _, rcls = repo.cls(f"{RNG}:RNGMixin")
    n_store = 0
    for n in ast.walk(rcls):
        if isinstance(n, ast.Assign) and any(dotted(t) == "self._rng_seed" for t in n.targets):
            n_store += 1
            reduced = [x for x in ast.walk(n.value) if isinstance(x, ast.BinOp) and isinstance(x.op, (ast.Mod, ast.BitAnd, ast.FloorDiv, ast.RShift, ast.LShift, ast.BitXor))]
            check.decide(not reduced, "C09-R4", f"RNGMixin: `{unparse(n)[:50]}` stores the seed unreduced", "", rmod.line(n), definite=True,
                         fail_detail=f"`{unparse(n)[:60]}` stores a reduced seed while the generator of the first run is built from the full one: after reset_recon the numpy "
                                     f"generator is rebuilt from the reduced value — a different shuffle order and loss history for seeds ≥ 2**32 and for Generator seeds")
    check.floor("stores to _rng_seed", n_store, 4)
    check.floor("seed presence tests", n_seed_tests, 3)
    _, rs = repo.func(f"{RNG}:RNGMixin._reset_rng")
    ok = any(isinstance(n, ast.Assign) and any(dotted(t) == "self.rng" for t in n.targets) and unparse(n.value) == "self._rng_seed" for n in ast.walk(rs))
    check.decide(ok, "C09-R4", "RNGMixin._reset_rng re-installs the stored seed through the rng setter (numpy and torch generators)", "", rmod.line(rs),
                 fail_detail="_reset_rng does not assign self.rng = self._rng_seed")
    _, setter = repo.func(f"{RNG}:RNGMixin.rng@setter")
    ok = any(call_name(c) == "self._update_torch_rng" for c in calls_in(setter))
    check.decide(ok, "C09-R4", "RNGMixin.rng setter refreshes the torch generator", "", rmod.line(setter), fail_detail="the rng setter does not call _update_torch_rng")

    # ---- R6 sibling agreement of the per-model dispatchers ------------------------------------------
    PO = "quantem.diffractive_imaging.ptychography_opt"
    omod_, _ = repo.cls(f"{PO}:PtychographyOpt")
    fam = {"step_optimizers": "step_optimizer", "zero_grad_all": "zero_optimizer_grad", "step_schedulers": "step_scheduler", "set_schedulers": "set_scheduler"}
    models = {}
    resolved = {}
    for meth, callee in fam.items():
        _, f_ = repo.func(f"{PO}:PtychographyOpt.{meth}")
        check.analysed(f"{PO}:PtychographyOpt.{meth}")
        recv = set()
        resolved[meth] = True
        for c in calls_in(f_):
            if isinstance(c.func, ast.Attribute) and c.func.attr == callee:
                r = c.func.value
                if isinstance(r, ast.Name):
                    # `for model in (self.obj_model, self.probe_model): model.<callee>()` — a loop over a literal of attributes
                    from ..core.repo import IterItem
                    ds = definitions(f_, r.id)
                    if ds and all(isinstance(d, IterItem) and d.index is None and isinstance(d.iter, (ast.Tuple, ast.List)) for d in ds):
                        for d in ds:
                            recv |= {unparse(e) for e in d.iter.elts}
                        continue
                    resolved[meth] = False
                recv.add(unparse(r))
        models[meth] = sorted(recv)
        resolved[meth] = resolved[meth] and all(m.startswith("self.") for m in models[meth])
    ref = models["step_optimizers"]
    check.floor("models stepped by step_optimizers", len(ref), 3)
    for meth in ("zero_grad_all", "step_schedulers", "set_schedulers"):
        _, f_ = repo.func(f"{PO}:PtychographyOpt.{meth}")
        check.decide(models[meth] == ref, "C09-R6", f"PtychographyOpt.{meth} dispatches to the same models as step_optimizers", str(models[meth]), omod_.line(f_),
                     fail_detail=f"{meth} reaches {models[meth]}, step_optimizers steps {ref}: " +
                     ("gradients of a stepped model are never cleared and accumulate across batches — the mean of per-batch gradients no longer equals the full-batch gradient"
                      if meth == "zero_grad_all" else "a model's scheduler is not handled like its optimizer"),
                     definite=resolved[meth] and resolved["step_optimizers"] and bool(models[meth]) and set(models[meth]) < set(ref))

    # ---- R5 loss scaling ------------------------------------------------------------------------
    _, ee = repo.func(f"{PB}:PtychographyBase.error_estimate")
    n_arm = 0
    ok_batch = {"diff.shape[0]", "len(batch_indices)", "batch_indices.shape[0]", "preds.shape[0]", "targets.shape[0]",
                "pred_intensities.shape[0]", "diff.size(0)", "len(diff)"}
    for n in ast.walk(ee):
        if isinstance(n, ast.If) and isinstance(n.test, ast.Compare) and isinstance(n.test.ops[0], ast.In) and \
                isinstance(n.test.left, ast.Constant) and n.test.left.value in ("l1", "l2"):
            n_arm += 1
            arm = n.test.left.value
            st = [s for s in n.body if isinstance(s, ast.Assign) and dotted(s.targets[0]) == "error"]
            if len(st) != 1:
                raise AnalysisError(f"error_estimate[{arm}]: error assignment not found")
            sums = [c for c in ast.walk(st[0].value) if isinstance(c, ast.Call) and call_name(c) in ("torch.sum",)]
            means = [c for c in ast.walk(st[0].value) if isinstance(c, ast.Call) and (call_name(c) or "").split(".")[-1] in ("mean", "max", "median", "amax")]
            if len(sums) != 1 or means:
                check.violated("C09-R5", f"error_estimate[{arm}]: plain sum over the batch", f"`{unparse(st[0].value)}` is not a plain torch.sum over the batch "
                               f"(per-batch means/maxima do not add up to the full-batch loss)", bmod.line(st[0]))
                continue
            plain = not sums[0].keywords and len(sums[0].args) == 1
            env_defs = {}
            for nm in names_in(st[0].value):
                dd = [x for x in definitions(ee, nm) if isinstance(x, ast.AST)]
                if len(dd) == 1 and nm not in ("diff", "preds", "targets", "error"):
                    env_defs[nm] = dd[0]
            sum_txt = unparse(sums[0])

            def atom(e, _s=sum_txt):
                t = unparse(e)
                if t == _s:
                    return "SUM"
                if t in ok_batch:
                    return "B_actual"
                if t == "self.dset.num_gpts":
                    return "N"
                if isinstance(e, ast.Name) and e.id in env_defs:
                    return None
                return f"⟨{t}⟩"
            try:
                env = {}
                for nm, dv in env_defs.items():
                    env[nm] = from_ast(dv, env, atom)
                val = from_ast(st[0].value, env, atom)
                want = Rat.sym("SUM") * Rat.sym("N") / Rat.sym("B_actual")
                ok = val.equals(want) and plain
                detail = str(val)
            except NotArithmetic as exc:
                ok, detail = False, f"not arithmetic: {exc}"
            check.decide(ok, "C09-R5", f"error_estimate[{arm}]: Σ over the batch ÷ (actual batch extent / num patterns)", detail, bmod.line(st[0]),
                         definite=not detail.startswith("not arithmetic"),       # the scaling was evaluated to a normal form and differs
                         fail_detail=f"the {arm} loss evaluates to {detail}; it must be SUM·N/B with B the leading extent of the batch tensors "
                                     f"actually summed — a configured batch size differs from it for the last partial batch, for validation "
                                     f"batches and whenever batch_size exceeds the set")
            inner = sums[0].args[0] if sums[0].args else None
            ok2 = inner is not None and "diff" in names_in(inner)
            check.decide(ok2, "C09-R5", f"error_estimate[{arm}]: the summand is elementwise in the prediction/target difference", unparse(inner)[:50] if inner is not None else "", bmod.line(st[0]),
                         fail_detail="the summed quantity does not derive from `diff`")
    check.floor("loss arms", n_arm, 2)
    # epoch loss = mean of per-batch losses over len(batcher)
    # the definition of num_batches that REACHES the division (a second, earlier one that is overwritten before the use is dead)
    nb = [x for x in definitions(rec, "num_batches") if isinstance(x, ast.AST)]
    divs = [n for n in ast.walk(rec) if isinstance(n, ast.Assign) and unparse(n.value) == "total_loss / num_batches"]
    if len(nb) > 1 and divs:
        rc_ = CFG(rec)
        dn_ = rc_.node_containing(divs[0])
        live = []
        for x in nb:
            xn_ = rc_.node_containing(x)
            others_ = [m for y in nb if y is not x for m in rc_.node_containing(y)]
            if xn_ and dn_ and dn_[0] in rc_.reachable_from(xn_[0], avoid=others_):
                live.append(x)
        nb = live
    ok = len(nb) == 1 and unparse(nb[0]) == "len(batcher)" and bool(divs)
    check.decide(ok, "C09-R5", "Ptychography.reconstruct: epoch loss = Σ batch losses / len(batcher)", "", pmod.line(rec),
                 fail_detail="the epoch loss is not divided by len(batcher)")
    loops = [n for n in ast.walk(rec) if isinstance(n, ast.For) and unparse(n.iter) == "batcher"]
    check.decide(len(loops) == 1, "C09-R5", "Ptychography.reconstruct: one pass over the batcher per epoch", "", pmod.line(rec),
                 fail_detail=f"{len(loops)} loops over the batcher per epoch")


def _closure_subset_of_indices(fn, e, depth=0, busy=None) -> bool:
    """e is obtained from self.indices by subscripting / a permutation only."""
    busy = busy if busy is not None else set()
    if depth > 8:
        return False
    if isinstance(e, ast.Name):
        if e.id in busy:
            return True  # x = x[:n] — a sub-selection of itself
        busy = busy | {e.id}
        dd = [x for x in definitions(fn, e.id) if isinstance(x, ast.AST)]
        return bool(dd) and all(_closure_subset_of_indices(fn, x, depth + 1, busy) for x in dd)
    if unparse(e) == "self.indices":
        return True
    if isinstance(e, ast.Subscript):
        return _closure_subset_of_indices(fn, e.value, depth + 1, busy)
    if isinstance(e, ast.Call) and (call_name(e) or "").endswith(".permutation") and e.args:
        return _closure_subset_of_indices(fn, e.args[0], depth + 1, busy)
    if isinstance(e, ast.Attribute) and dotted(e.value) == "self" and e.attr in ("val_indices", "train_indices"):
        return True
    return False


def _complementary(fn, tv, vv, later_is_val):
    """(verdict, reason): is {train, val} = (A, indices \\ A) or (all, empty)?"""
    def is_empty(e):
        return isinstance(e, ast.Call) and call_name(e) in ("np.asarray", "np.array", "np.empty", "np.zeros") and e.args and (
            (isinstance(e.args[0], (ast.List, ast.Tuple)) and not e.args[0].elts) or is_const(e.args[0], 0))
    def def_stmt(name):
        """the single assignment statement binding a local to a setdiff1d(…) call, or None"""
        sts = [n for n in walk_no_nested_defs(fn) if isinstance(n, ast.Assign) and len(n.targets) == 1 and isinstance(n.targets[0], ast.Name) and n.targets[0].id == name]
        if len(sts) == 1 and isinstance(sts[0].value, ast.Call) and call_name(sts[0].value) == "np.setdiff1d":
            return sts[0]
        return None
    for a, b, an, bn in ((tv, vv, "train", "val"), (vv, tv, "val", "train")):
        if is_empty(a) and unparse(b) == "self.indices":
            return True, f"{an} = ∅, {bn} = all indices"
        hoisted = None
        if isinstance(a, ast.Name) and def_stmt(a.id) is not None:
            hoisted = def_stmt(a.id)            # `rest = np.setdiff1d(self.indices, sel)` computed earlier and stored later
            a = hoisted.value
        if isinstance(a, ast.Call) and call_name(a) == "np.setdiff1d" and len(a.args) >= 2:
            if unparse(a.args[0]) != "self.indices":
                return False, f"{an} = setdiff1d({unparse(a.args[0])}, …) is not a complement within self.indices"
            other = unparse(a.args[1])
            same = other == unparse(b) or other == f"self.{bn}_indices"
            if not same:
                return False, f"{an} is the complement of `{other}` but {bn} is `{unparse(b)}`"
            if hoisted is not None and isinstance(a.args[1], ast.Name):
                # the complement was taken of the version of `other` that was live at the hoisted statement: a rebinding between that statement and the
                # stores (a truncation, typically) makes the two sets no longer complementary — the dropped items are in neither
                later = [n for n in walk_no_nested_defs(fn) if isinstance(n, ast.Assign) and any(isinstance(t, ast.Name) and t.id == other for t in n.targets)
                         and n.lineno > hoisted.lineno]
                if later:
                    return False, (f"{an} = `{hoisted.targets[0].id}` is the complement of `{other}` as it was at line {hoisted.lineno}, but `{other}` is rebound afterwards "
                                   f"(`{unparse(later[0])[:50]}`): whatever the rebinding removes is in neither set — those patterns are never visited")
            if not _closure_subset_of_indices(fn, b):
                return None, f"`{unparse(b)}` is not visibly a sub-selection of self.indices"
            return True, f"{an} = indices \\ {bn}; {bn} ⊆ indices"
    # np.delete idiom: `np.delete(self.indices, np.s_[S])` is the complement of `self.indices[S]` — of the FULL selection S.  The other side must be exactly that
    # selection; a side that is additionally truncated / rebound (`sel = sel[:n]`) leaves the removed items in neither set.
    def delete_of(e):
        if isinstance(e, ast.Name):
            dd = [x for x in definitions(fn, e.id) if isinstance(x, ast.AST)]
            return delete_of(dd[0]) if len(dd) == 1 else None
        if isinstance(e, ast.Call) and call_name(e) == "np.delete" and len(e.args) >= 2 and unparse(e.args[0]) == "self.indices":
            sl = e.args[1]
            if isinstance(sl, ast.Subscript) and unparse(sl.value) in ("np.s_", "np.index_exp"):
                return unparse(sl.slice)
            return unparse(sl)
        return None
    for a, b, an, bn in ((tv, vv, "train", "val"), (vv, tv, "val", "train")):
        S = delete_of(a)
        if S is None:
            continue
        bdefs = [x for x in definitions(fn, b.id) if isinstance(x, ast.AST)] if isinstance(b, ast.Name) else [b]
        full = [x for x in bdefs if isinstance(x, ast.Subscript) and unparse(x.value) == "self.indices" and unparse(x.slice) == S]
        narrowed = [x for x in bdefs if isinstance(x, ast.Subscript) and isinstance(b, ast.Name) and unparse(x.value) == b.id]
        if full and narrowed:
            return False, (f"{an} = np.delete(self.indices, [{S}]) is the complement of the FULL selection self.indices[{S}], but {bn} = `{unparse(b)}` is additionally cut down "
                           f"(`{unparse(narrowed[0])[:40]}`): the items that the truncation removes are in neither set — those patterns are never visited")
        if full and len(bdefs) == 1:
            return True, f"{an} = indices without [{S}]; {bn} = indices[{S}]"
        return None, f"{an} = np.delete(self.indices, [{S}]), {bn} = `{unparse(b)}`"
    # mask idiom: indices[m] / indices[~m]
    def mask_of(e):
        if isinstance(e, ast.Name):
            dd = [x for x in definitions(fn, e.id) if isinstance(x, ast.AST)]
            if len(dd) == 1:
                return mask_of(dd[0])
            return None
        if isinstance(e, ast.Subscript) and unparse(e.value) == "self.indices":
            s = e.slice
            if isinstance(s, ast.UnaryOp) and isinstance(s.op, ast.Invert):
                return ("not", unparse(s.operand), False)
            if isinstance(s, ast.Name):
                return ("pos", s.id, False)
        if isinstance(e, ast.Subscript):
            inner = mask_of(e.value)
            if inner:
                return (inner[0], inner[1], True)  # further restricted
        return None
    ma, mb = mask_of(tv), mask_of(vv)
    if ma and mb and ma[1] == mb[1] and {ma[0], mb[0]} == {"pos", "not"}:
        if ma[2] or mb[2]:
            which = "train" if ma[2] else "val"
            return False, (f"the two sets are taken from complementary masks, but the {which} side is restricted further "
                           f"(`{unparse(tv if ma[2] else vv)}` → … truncated): the dropped items are in neither set")
        return True, "complementary boolean masks over self.indices"
    return None, f"train = `{unparse(tv)}`, val = `{unparse(vv)}`"


MANIFEST = {
    "text": "Decides the scheduling structure for every (n, batch size, ratio, mode): both batch iterators are the strided-slice "
            "partition idiom (step = width, same sequence counted and sliced) over train_indices (or a seeded permutation) and "
            "val_indices; reported lengths are ceil(len/size) of the same pair; each generated split arm stores (subset, exact "
            "complement within self.indices) or (∅, all); contiguous batch ranges and sizes summing to n (div-mod axiom); every "
            "stochastic call in the reconstruction modules takes the seeded generator, the batcher gets self.rng, reset reseeds "
            "on every path and seed tests use `is None` (seed 0); l1/l2 losses are plain sums ÷ (actual batch extent / N).",
    "note": "Not decided: equality of gradients and loss histories themselves (runtime), user-supplied index sets. One unseeded "
            "torch.randperm exists in direct_ptycho_utils, outside this property's modules.",
    "technique": "idiom recognition + algebraic normal forms (div-mod axiom, loss scaling) + CFG must-pass-through (AST)",
}
MANIFEST["text"] += ' Also: the batcher is built after the reset has re-installed the generator; zero_grad_all / step_schedulers / set_schedulers dispatch to the same models as step_optimizers (R6).'
MANIFEST["text"] += ' Receivers of the per-model dispatchers are resolved through `for m in (self.a, self.b): m.f()`; a strict subset of the stepped models is a definite verdict.'
MANIFEST["text"] += " Every store to _rng_seed stores the seed unreduced (a `% 2**32` belongs at torch's manual_seed, not in the attribute the numpy generator is rebuilt from)."
MANIFEST["text"] += ' R4 also: every definition of the batcher iterated in reconstruct is the SimpleBatcher built in this call (an object kept on self from an earlier call holds the pre-reset generator).'
MANIFEST["text"] += " R7: index arrays that are reordered in place are the batcher's own (coupled: call-cached producer ∧ in-place shuffle)."
