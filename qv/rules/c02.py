"""C02 — forward pipeline reproduces independently simulated data (narrow): internal
convention agreement (E5, E6 typestate, E7)."""
from __future__ import annotations

import ast

from ..core.cfg import CFG, assigned_on_every_path
from ..core.repo import (AnalysisError, Repo, call_name, calls_in, definitions, dotted, func_params, is_const,
                         kwarg, names_in, unparse, walk_no_nested_defs)
from ..domains.kat import COL, ROW, Comp, Ext, Flat, KAT, Pair
from .c09 import _partition_idiom
from .c13 import classify_index_vector

DM = "quantem.diffractive_imaging.dataset_models"
DET = "quantem.diffractive_imaging.detector_models"
PB = "quantem.diffractive_imaging.ptychography_base"
PT = "quantem.diffractive_imaging.ptychography"
PM = "quantem.diffractive_imaging.probe_models"
OMD = "quantem.diffractive_imaging.object_models"
IMG = {0: ROW, 1: COL}

EXPLANATION = (
    "agreement of the library's own conventions along the forward path (the numerical match with an "
    "independent simulator is runtime): predictions and targets reach the loss with the same centring "
    "typestate (one fftshift each); all detector-plane FFTs share one normalisation; the patch gather "
    "adds FFT-ordered integer offsets of each ROI extent to the rounded position of the same axis, "
    "wraps with the object extent of that axis and forms the row-major flat index the gather flattens; "
    "every scan position is processed (chunk partition); integer patch origin, sub-pixel remainder and "
    "the update test use one rounding function; the forward chain is wired stage to stage"
)


def run(check, repo: Repo) -> None:
    dmod = repo.module(DM)
    _, spi = repo.func(f"{DM}:PtychographyDatasetBase._set_patch_indices")
    _, pinu = repo.func(f"{DM}:PtychographyDatasetBase.patch_indices_need_update")
    _, stg = repo.func(f"{DM}:PtychographyDatasetBase._set_targets")
    _, ndi = repo.func(f"{DM}:PtychographyDatasetRaster._normalize_diffraction_intensities")
    _, dfw = repo.func(f"{DM}:PtychographyDatasetRaster.forward")
    detm, det = repo.func(f"{DET}:DetectorPixelated.forward")
    bmod, ee = repo.func(f"{PB}:PtychographyBase.error_estimate")
    _, fo = repo.func(f"{PB}:PtychographyBase.forward_operator")
    _, op = repo.func(f"{PB}:PtychographyBase.overlap_projection")
    tmod, rec = repo.func(f"{PT}:Ptychography.reconstruct")
    pmod, pfw = repo.func(f"{PM}:ProbePixelated.forward")
    check.analysed(f"{DM}:PtychographyDatasetBase._set_patch_indices", f"{DM}:PtychographyDatasetBase.patch_indices_need_update",
                   f"{DM}:PtychographyDatasetBase._set_targets", f"{DM}:PtychographyDatasetRaster._normalize_diffraction_intensities",
                   f"{DM}:PtychographyDatasetRaster.forward", f"{DET}:DetectorPixelated.forward", f"{PB}:PtychographyBase.error_estimate",
                   f"{PB}:PtychographyBase.forward_operator", f"{PB}:PtychographyBase.overlap_projection", f"{PT}:Ptychography.reconstruct",
                   f"{PM}:ProbePixelated.forward")

    # ---- R1 centring parity --------------------------------------------------------------------------------
    r = [n.value for n in ast.walk(det) if isinstance(n, ast.Return) and n.value is not None]
    shifts_pred = [(call_name(c) or "").split(".")[-1] for c in calls_in(det) if (call_name(c) or "").split(".")[-1] in ("fftshift", "ifftshift")]
    ok = len(r) == 1 and shifts_pred == ["fftshift"] and isinstance(r[0], ast.Call) and (call_name(r[0]) or "").endswith("fftshift") \
        and unparse(kwarg(r[0], "dim") or ast.Constant(None)) in ("(-2, -1)", "(-1, -2)")
    check.decide(ok, "C02-R1", "DetectorPixelated.forward: predictions are detector-centred by exactly one fftshift over the two detector axes", str(shifts_pred), detm.line(det),
                 fail_detail=f"shift calls on the prediction side: {shifts_pred}")
    loop = next((n for n in walk_no_nested_defs(ndi) if isinstance(n, ast.For)), None)
    if loop is None:
        raise AnalysisError("_normalize_diffraction_intensities: pattern loop not found")
    sa = [s for s in loop.body if isinstance(s, ast.Assign) and dotted(s.targets[0]) == "shift_amplitude"]
    seq = []
    for s in sa:
        v = s.value
        cn = (call_name(v) or "") if isinstance(v, ast.Call) else ""
        if cn == "shift_array":
            a = [unparse(x) for x in v.args[1:3]]
            seq.append(("to-corner" if all(x.startswith("-") and "com_fit" in x for x in a) else f"shift_array{a}"))
        elif cn.endswith("fftshift") and not cn.endswith("ifftshift"):
            seq.append("fftshift")
        elif cn.endswith("ifftshift"):
            seq.append("ifftshift")
        elif cn in ("np.maximum",):
            seq.append("clip≥0")
        else:
            seq.append(f"?{unparse(v)[:30]}")
    ok = [x for x in seq if x != "clip≥0"] == ["to-corner", "fftshift"]
    check.decide(ok, "C02-R1", "targets: each pattern is moved so that its fitted origin sits at the corner, then centred by exactly one fftshift", str(seq), dmod.line(loop),
                 fail_detail=f"target-side sequence is {seq}: predictions (one fftshift) and targets no longer share the centring")
    rows = {0: "com_fit[0, Rr, Rc]", 1: "com_fit[1, Rr, Rc]"}
    sh = next((s.value for s in sa if isinstance(s.value, ast.Call) and call_name(s.value) == "shift_array"), None)
    ok = sh is not None and rows[0] in unparse(sh.args[1]) and rows[1] in unparse(sh.args[2])
    check.decide(ok, "C02-R1", "targets: the row shift uses the fitted row origin and the column shift the fitted column origin", "", dmod.line(loop),
                 fail_detail="shift_array is not called with (−com_fit[0], −com_fit[1])")
    st = {unparse(s.targets[0]): unparse(s.value) for s in loop.body if isinstance(s, ast.Assign) and isinstance(s.targets[0], ast.Subscript)}
    ok = st.get("centered_amplitudes[Rr, Rc]") == "shift_amplitude" and st.get("centered_intensities[Rr, Rc]") == "shift_amplitude ** 2" \
        and st.get("amplitudes[Rr, Rc]") == "amplitude" and st.get("intensities[Rr, Rc]") == "intensity"
    check.decide(ok, "C02-R1", "targets: centred amplitudes/intensities are the shifted pattern (intensity = amplitude²), raw ones the unshifted pattern", "", dmod.line(loop),
                 fail_detail=str(st))
    tg = {}
    for n in ast.walk(stg):
        if isinstance(n, ast.If) and "learn_descan" in unparse(n.test):
            a = [unparse(s.value) for s in n.body if isinstance(s, ast.Assign)]
            b = [unparse(s.value) for s in n.orelse if isinstance(s, ast.Assign)]
            tg[(a[0] if a else "?")] = b[0] if b else "?"
    ok = tg == {"self.amplitudes.clone().to(self.device)": "self.centered_amplitudes.clone().to(self.device)",
                "self.intensities.clone().to(self.device)": "self.centered_intensities.clone().to(self.device)"}
    check.decide(ok, "C02-R1", "_set_targets: without learned descan the CENTRED amplitudes/intensities are the loss targets", "", dmod.line(stg),
                 fail_detail=f"target selection is {tg}")
    et = unparse(ee)
    ok = "targets = self.dset.targets[batch_indices]" in et and "diff = preds * self.dset.detector_mask - targets * self.dset.detector_mask" in et
    check.decide(ok, "C02-R1", "error_estimate compares predictions with the targets of the same batch under one detector mask", "", bmod.line(ee),
                 fail_detail="error_estimate does not form preds·mask − targets[batch]·mask")
    pr = [unparse(d) for d in definitions(ee, "preds") if isinstance(d, ast.AST)]
    ok = "torch.sqrt(pred_intensities + 1e-09)" in pr and "pred_intensities" in pr
    check.decide(ok, "C02-R1", "error_estimate: amplitude losses take the square root of the predicted intensities, intensity losses use them directly", str(pr), bmod.line(ee),
                 fail_detail=str(pr))

    # ---- R2 FFT normalisation agreement ------------------------------------------------------------------------------
    norms = {}
    for q in (f"{DET}:DetectorPixelated.forward", f"{PB}:PtychographyBase.estimate_amplitudes", f"{PB}:PtychographyBase.estimate_intensities",
              f"{PT}:Ptychography.fourier_projection", f"{PM}:ProbePixelated._apply_weights"):
        m, fn = repo.func(q)
        for c in calls_in(fn):
            if (call_name(c) or "").split(".")[-1] in ("fft2", "ifft2"):
                nv = kwarg(c, "norm")
                norms[f"{q.split(':')[1]}:{(call_name(c) or '').split('.')[-1]}"] = unparse(nv) if nv is not None else "None"
    check.floor("detector-plane FFT sites", len(norms), 6)
    check.decide(len(set(norms.values())) == 1, "C02-R2", "all FFTs relating real-space waves to detector intensities use one normalisation", str(sorted(set(norms.values()))), detm.line(det),
                 fail_detail=f"normalisations differ: {norms}")

    # ---- R3 / R6 gather convention ---------------------------------------------------------------------------------------
    k = KAT(spi, index_axes={"self.roi_shape": IMG, "obj_shape": {-2: ROW, -1: COL}}, seeds={"self.scan_positions_px": Pair((ROW, COL))}).run()
    check.assume("scan positions are (row, col) pairs in pixels")
    for n, m in k.clashes:
        check.violated("C02-R3", f"_set_patch_indices: axis clash `{unparse(n)[:60]}`", m + " — probes are gathered from the wrong object pixels on non-square grids", dmod.line(n), definite=True)
    if not k.clashes:
        check.holds("C02-R3", "_set_patch_indices: offsets, positions, wraps and strides stay on their own axis", where=dmod.line(spi))
    # wrapping is per axis: a row index modulo the number of rows, a column index modulo the number of columns.  Reducing the FLAT index modulo rows·columns wraps
    # the rows only — a ROI column that leaves the object on the left / right lands in the neighbouring row instead of wrapping inside its own row.
    def _is_area(e_):
        if isinstance(e_, ast.BinOp) and isinstance(e_.op, ast.Mult):
            return all(isinstance(x, (ast.Name, ast.Subscript, ast.Attribute)) for x in (e_.left, e_.right))
        if isinstance(e_, ast.Call) and (call_name(e_) or "").split(".")[-1] in ("numel", "prod", "nelement"):
            return True
        if isinstance(e_, ast.Name):
            ds_ = [d for d in definitions(spi, e_.id) if isinstance(d, ast.AST)]
            return len(ds_) == 1 and _is_area(ds_[0])
        return False
    for n_ in ast.walk(spi):
        area = None
        if isinstance(n_, ast.BinOp) and isinstance(n_.op, ast.Mod) and _is_area(n_.right):
            area = n_.right
        elif isinstance(n_, ast.Call) and (call_name(n_) or "").split(".")[-1] in ("remainder", "fmod", "mod") and len(n_.args) == 2 and _is_area(n_.args[1]):
            area = n_.args[1]
        if area is not None:
            # … unless the flat index was formed from components that were ALREADY wrapped per axis (then the area modulo is redundant, not wrong)
            lhs_ = n_.left if isinstance(n_, ast.BinOp) else n_.args[0]
            seen_, todo_, per_axis = set(), [lhs_], False
            while todo_:
                e_ = todo_.pop()
                for x in ast.walk(e_):
                    if (isinstance(x, ast.BinOp) and isinstance(x.op, ast.Mod) and not _is_area(x.right)) or \
                            (isinstance(x, ast.Call) and (call_name(x) or "").split(".")[-1] in ("remainder", "fmod", "mod") and len(x.args) == 2 and not _is_area(x.args[1])):
                        per_axis = True
                    if isinstance(x, ast.Name) and x.id not in seen_:
                        seen_.add(x.id)
                        todo_.extend(d for d in definitions(spi, x.id) if isinstance(d, ast.AST))
            if per_axis:
                continue
            check.violated("C02-R3", "_set_patch_indices: indices wrap per axis (row mod rows, column mod columns)",
                           f"`{unparse(n_)[:70]}` reduces a flat index modulo the object AREA `{unparse(area)}`: only the rows wrap — a patch that crosses the left / right edge "
                           f"picks up pixels of the neighbouring row, so edge probes gather the wrong object patches", dmod.line(n_), definite=True)
    pic = k.env.get("patch_indices_chunk")
    flat_ok = isinstance(pic, Flat)
    if pic is None:
        # a refactor may store the flat index directly: look for the expression
        cand = [n for n in ast.walk(spi) if isinstance(n, ast.BinOp) and isinstance(n.op, ast.Add) and isinstance(k.ev(n), Flat)]
        flat_ok = bool(cand)
    check.decide(flat_ok, "C02-R3", "_set_patch_indices: flat index = row · (object columns) + col (row-major, matching reshape(S, −1) in the gather)", str(pic), dmod.line(spi),
                 fail_detail=f"the stored index is {pic}, not a row-major flat index")
    for nm, ax in (("x_ind", 0), ("y_ind", 1)):
        d = [x for x in definitions(spi, nm) if isinstance(x, ast.AST)]
        if len(d) != 1:
            raise AnalysisError(f"_set_patch_indices: offset vector {nm} not found")
        e = d[0]
        while isinstance(e, ast.Call) and isinstance(e.func, ast.Attribute) and e.func.attr == "to":
            e = e.func.value
        cls, n_, why = classify_index_vector(e)
        if cls is None:
            raise AnalysisError(f"_set_patch_indices: {nm}: {why}")
        check.decide(cls == "good" and n_ == f"self.roi_shape[{ax}]", "C02-R6", f"_set_patch_indices: `{nm}` = FFT-ordered integer offsets of ROI extent {ax} (probe and patch are both corner-centred)",
                     why, dmod.line(d[0]),
                     fail_detail=f"`{unparse(e)}`: {why} (extent {n_}) — fftfreq(n, d=1) would add cycles to pixel indices; centred offsets would pair the patch with an fftshifted probe")
    # every scan position is processed
    lp = next((n for n in walk_no_nested_defs(spi) if isinstance(n, ast.For)), None)
    if lp is None:
        raise AnalysisError("_set_patch_indices: chunk loop not found")
    it = lp.iter
    ok = False
    why = unparse(it)
    if isinstance(it, ast.Call) and call_name(it) == "range" and len(it.args) == 3 and is_const(it.args[0], 0) and unparse(it.args[1]) == "len(r0)":
        step = unparse(it.args[2])
        ends = [unparse(x) for x in definitions(lp, "end_idx") if isinstance(x, ast.AST)]
        ok = ends in ([f"min({lp.target.id} + {step}, len(r0))"], [f"{lp.target.id} + {step}"])
        why = f"range(0, len(r0), {step}) with end {ends}"
    elif isinstance(it, ast.Call) and call_name(it) == "range" and len(it.args) == 1:
        a = it.args[0]
        if isinstance(a, ast.BinOp) and isinstance(a.op, ast.FloorDiv) and unparse(a.left) == "len(r0)":
            why = f"range({unparse(a)}): floor division — positions beyond the last full chunk keep index 0"
        else:
            raise AnalysisError(f"_set_patch_indices: chunk loop `{unparse(it)}` not recognised")
    else:
        raise AnalysisError(f"_set_patch_indices: chunk loop `{unparse(it)}` not recognised")
    check.decide(ok, "C02-R3", "_set_patch_indices: the chunks partition all scan positions", why, dmod.line(lp), definite="floor division" in why,
                 fail_detail=f"{why}: the forward model gathers a wrong patch for those positions, so the loss at the ground truth is not zero")
    fin = [unparse(n.value) for n in ast.walk(spi) if isinstance(n, ast.Assign) and dotted(n.targets[0]) == "self._patch_indices"]
    check.decide(fin == ["torch.cat(patch_indices_list, dim=0)"] or (len(fin) == 1 and ok), "C02-R3", "_set_patch_indices: chunks are concatenated in scan order", str(fin), dmod.line(spi),
                 fail_detail=str(fin))

    # ---- R11 a potential is turned into a transmission function exactly once (coupled) ---------------------------------------------------------
    # exp(i·V) sites along ObjectPixelated.forward → ObjectBase._get_obj_patches.  A site gated by the array's dtype (`not x.is_complex()`) cannot fire on an already
    # converted (complex) array; a site gated by the object TYPE fires regardless.  Two type-gated sites — or a type-gated producer in front of a consumer whose
    # gate also names the type — exponentiate twice: exp(i·exp(iV)).
    omod_, gop_ = repo.func(f"{OMD}:ObjectBase._get_obj_patches")
    _om2, ofw_ = repo.func(f"{OMD}:ObjectPixelated.forward")
    check.analysed(f"{OMD}:ObjectBase._get_obj_patches", f"{OMD}:ObjectPixelated.forward")

    def _exp_sites(fn_):
        out = []
        for c_ in calls_in(fn_):
            if (call_name(c_) or "").split(".")[-1] == "exp" and c_.args and any(isinstance(x_, ast.Constant) and isinstance(x_.value, complex) for x_ in ast.walk(c_.args[0])):
                from ..core.repo import parent as _parent
                cur, gates = c_, []
                while cur is not fn_ and cur is not None:
                    par = _parent(cur)
                    if isinstance(par, ast.If) and any(cur is b_ or any(cur is y_ for y_ in ast.walk(b_)) for b_ in par.body):
                        gates.append(unparse(par.test))
                    cur = par
                out.append((c_, gates))
        return out
    s_fw, s_gp = _exp_sites(ofw_), _exp_sites(gop_)
    check.floor("exp(i·V) sites on the patch path", len(s_fw) + len(s_gp), 1)
    type_gated = lambda gates: any("obj_type" in g_ and "potential" in g_ for g_ in gates)
    dtype_only = lambda gates: bool(gates) and all("is_complex" in g_ and "obj_type" not in g_ for g_ in gates)
    fw_fires = [c_ for c_, g_ in s_fw if type_gated(g_) or not g_]
    gp_fires_on_complex = [c_ for c_, g_ in s_gp if not dtype_only(g_)]
    key11 = "potential objects: exp(i·V) is applied exactly once between the stored object and the patches"
    if fw_fires and gp_fires_on_complex:
        check.violated("C02-R11", key11, f"ObjectPixelated.forward converts (`{unparse(fw_fires[0])[:40]}`) and ObjectBase._get_obj_patches converts again under "
                       f"`{(s_gp[0][1] or ['no gate'])[0][:60]}`, which is true for a potential whatever its dtype: the patches are exp(i·exp(iV)) — the forward model no longer "
                       f"reproduces data simulated from the potential", omod_.line(gp_fires_on_complex[0]), definite=True)
    elif (s_fw or s_gp) and all(type_gated(g_) or dtype_only(g_) or not g_ for _c, g_ in s_fw + s_gp):
        check.holds("C02-R11", key11, f"forward: {len(s_fw)} site(s), _get_obj_patches: {len(s_gp)} site(s); at most one can fire on a given array", omod_.line(gop_))
    else:
        raise AnalysisError("potential → transmission conversion: gating of an exp(i·V) site not recognised")

    # ---- R5 rounding agreement --------------------------------------------------------------------------------------------
    rounders = []
    for label, fn in (("_set_patch_indices", spi), ("patch_indices_need_update", pinu), ("forward", dfw)):
        for c in calls_in(fn):
            cn = call_name(c) or ""
            short = cn.split(".")[-1] if cn else (c.func.attr if isinstance(c.func, ast.Attribute) else "")
            if short in ("round", "floor", "ceil", "trunc", "fix", "rint") and ("positions_px" in unparse(c)):
                rounders.append((label, short, c))
    check.floor("position rounding sites", len(rounders), 4)
    kinds = {s for _, s, _ in rounders}
    for label, s, c in rounders:
        check.decide(s == "round", "C02-R5", f"{label}: `{unparse(c)[:45]}` uses the common rounding of the scan positions", s, dmod.line(c),
                     fail_detail=f"`{unparse(c)[:50]}` uses {s} while other sites use {sorted(kinds - {s}) or kinds}: patch origin and sub-pixel remainder disagree by up to a pixel")
    # sub-pixel remainder = position − R(position) with the SAME rounding R that places the patch (torch.round, half to even), looked at through
    # subscripts, local names and property getters of the dataset model
    frd = [d for d in definitions(dfw, "positions_px_fractional") if isinstance(d, ast.AST)]
    if len(frd) != 1:
        raise AnalysisError("forward: definition of the sub-pixel remainder not found")
    dcls_q = DM + ":PtychographyDatasetBase"

    def _resolve(e, fn, depth=0):
        """strip subscripts, follow single-definition locals and property getters → (expression, function it lives in)"""
        while depth < 8:
            depth += 1
            if isinstance(e, ast.Subscript):
                e = e.value
                continue
            if isinstance(e, ast.Name):
                dd = [d for d in definitions(fn, e.id) if isinstance(d, ast.AST)]
                if len(dd) == 1:
                    e = dd[0]
                    continue
            if isinstance(e, ast.Attribute) and dotted(e.value) == "self":
                for q_ in (f"{DM}:PtychographyDatasetRaster.{e.attr}", f"{dcls_q}.{e.attr}"):
                    if repo.has(q_):
                        _m, g = repo.func(q_)
                        rets_ = [r.value for r in ast.walk(g) if isinstance(r, ast.Return) and r.value is not None]
                        if any("property" in unparse(d_) for d_ in g.decorator_list) and len(rets_) == 1 and not isinstance(rets_[0], ast.Attribute):
                            e, fn = rets_[0], g
                            break
                else:
                    return e, fn
                continue
            return e, fn
        return e, fn
    rem, rfn = _resolve(frd[0], dfw)
    key_ = "forward: sub-pixel remainder = position − round(position) of the same batch positions"
    if not (isinstance(rem, ast.BinOp) and isinstance(rem.op, ast.Sub) and isinstance(rem.right, ast.Call)):
        raise AnalysisError(f"forward: sub-pixel remainder `{unparse(rem)[:60]}` is not of the form position − R(position)")
    rshort = (call_name(rem.right) or "").split(".")[-1]
    rarg = rem.right.args[0] if rem.right.args else None
    lroot, _ = _resolve(rem.left, rfn)
    aroot, _ = _resolve(rarg, rfn) if rarg is not None else (None, None)
    same = lroot is not None and aroot is not None and unparse(lroot) == unparse(aroot)
    if rshort == "round" and same:
        check.holds("C02-R5", key_, unparse(rem)[:60], dmod.line(dfw))
    elif rshort in ("round", "floor", "ceil", "trunc", "fix", "rint"):
        check.violated("C02-R5", key_, f"remainder is `{unparse(rem)[:70]}`: " + ("the rounded quantity is not the position itself" if rshort == "round" else
                       f"{rshort}(…) is not the rounding that places the patch (torch.round, half to even) — positions on a half pixel get a patch origin and a remainder that "
                       f"belong to different pixels, the probe lands one pixel off"), dmod.line(frd[0]), definite=True)
    else:
        raise AnalysisError(f"forward: rounding `{rshort}` in the sub-pixel remainder not recognised")
    ft = unparse(dfw)
    ok = "if self.patch_indices_need_update():\n        self._set_patch_indices(obj_padding_px)" in ft.replace("    with torch.no_grad():\n    ", "") or \
        ("self.patch_indices_need_update()" in ft and "self._set_patch_indices(obj_padding_px)" in ft)
    check.decide(ok and "patch_indices = self.patch_indices[batch_indices]" in ft, "C02-R5", "forward: patch indices are refreshed when a rounded position changed and read for the same batch", "", dmod.line(dfw),
                 fail_detail="forward does not refresh / read patch indices for the batch")
    lt = unparse(spi)
    check.decide("self._last_patch_positions_px = self.scan_positions_px.clone()" in lt, "C02-R5", "_set_patch_indices records the positions the indices were built from", "", dmod.line(spi),
                 fail_detail="the reference positions for the update test are not recorded")

    # ---- R8 per-call setup dominates the epoch loop ----------------------------------------------------------------------
    rcfg = CFG(rec)
    epoch = next((n for n in walk_no_nested_defs(rec) if isinstance(n, ast.For) and any(isinstance(x, ast.For) for x in ast.walk(ast.Module(body=n.body, type_ignores=[])))), None)
    if epoch is None:
        raise AnalysisError("reconstruct: epoch loop (a for loop containing the batch loop) not found")
    loop_nodes = rcfg.nodes_of(epoch)
    if not loop_nodes:
        raise AnalysisError("reconstruct: epoch loop has no CFG node")
    loop_node = min(loop_nodes)
    lt_param = "loss_type" if "loss_type" in func_params(rec) else None
    for callee, argcheck, why in (
            ("self.dset._set_targets", lt_param, "a continued reconstruction that switches the loss family keeps the stale amplitude/intensity targets"),
            ("self.compute_propagator_arrays", None, "the multislice propagators are not those of the current slice thicknesses / tilt")):
        sites = [c for c in calls_in(rec) if (call_name(c) or "") == callee]
        if not sites:
            check.violated("C02-R8", f"reconstruct: `{callee}(…)` runs on every path to the epoch loop", f"no call of {callee} in reconstruct: {why}", tmod.line(rec))
            continue
        via = [n for c in sites for n in rcfg.node_containing(c)]
        ok = bool(via) and rcfg.all_paths_pass_through(rcfg.entry, loop_node, via)
        if not ok and callee == "self.compute_propagator_arrays" and via:
            # a conditional refresh in reconstruct is sound while every writer of the inputs refreshes by itself: the slice-thickness setter recomputes the propagators
            try:
                _pm, st_set = repo.func(f"{PB}:PtychographyBase.slice_thicknesses@setter")
                ok = any((call_name(c) or "").endswith("compute_propagator_arrays") for c in calls_in(st_set))
                if not ok:
                    check.violated("C02-R8", "reconstruct: `self.compute_propagator_arrays(…)` runs on every path to the epoch loop",
                                   "reconstruct refreshes the propagators only conditionally AND the slice_thicknesses setter no longer recomputes them: after `ptycho.slice_thicknesses = …` "
                                   "the forward model propagates with the thicknesses given at construction", tmod.line(sites[0]), definite=True)
                    continue
            except AnalysisError:
                ok = False
        if ok and argcheck is not None:
            ok = any(c.args and unparse(c.args[0]) == argcheck for c in sites)
        check.decide(ok, "C02-R8", f"reconstruct: `{callee}(…)` runs on every path to the epoch loop" + (f" with this call's `{argcheck}`" if argcheck else ""), "",
                     tmod.line(sites[0]), fail_detail=f"a path from the entry of reconstruct reaches the epoch loop without `{callee}`"
                     + (f" (or it is not given `{argcheck}`)" if argcheck else "") + f": {why}")

    # the targets are re-derived from the CURRENT amplitudes/intensities on every call that returns normally (no "already set" shortcut:
    # the data behind them changes with every preprocess())
    ok, via, _ = assigned_on_every_path(stg, lambda t: dotted(t) in ("self._targets", "self.targets"))
    check.decide(ok, "C02-R8", "_set_targets assigns the targets on every path that returns normally", f"{len(via)} assigning statements", dmod.line(stg),
                 fail_detail="a path through _set_targets returns without (re)assigning self._targets: after a second preprocess() (or a changed dataset) the loss is evaluated against "
                             "the stale targets of the previous data")

    # ---- R7 stage wiring --------------------------------------------------------------------------------------------------------
    rt = unparse(rec)
    chain = ["self.dset.forward(batch_indices, self.obj_padding_px)", "shifted_probes = self.probe_model.forward(positions_px_fractional)",
             "obj_patches = self.obj_model.forward(patch_indices)", "self.forward_operator(obj_patches, shifted_probes, descan_shifts)",
             "pred_intensities = self.detector_model.forward(overlap)", "self.error_estimate(pred_intensities, batch_indices, loss_type=loss_type)"]
    pos = [rt.find(c) for c in chain]
    check.decide(all(p >= 0 for p in pos) and pos == sorted(pos), "C02-R7", "reconstruct: dataset → probe (fractional positions) → object (patch indices) → multislice → detector → loss, in order",
                 "", tmod.line(rec), fail_detail=f"stage calls found at {pos}")
    pf = [unparse(n.value) for n in ast.walk(pfw) if isinstance(n, ast.Return)]
    d = [unparse(x) for x in definitions(pfw, "shifted_probes") if isinstance(x, ast.AST)]
    check.decide(d == ["fourier_shift_expand(self.probe, fract_positions).swapaxes(0, 1)"], "C02-R7", "ProbePixelated.forward: the corner-centred probe is Fourier-shifted by the sub-pixel remainders", str(d), pmod.line(pfw),
                 fail_detail=str(d))
    ot = unparse(op)
    ok = "overlap = obj_patches[0] * input_probe" in ot and "propagated_probe = self._propagate_array(overlap, self._propagators[s - 1])" in ot and "overlap = obj_patches[s] * propagated_probe" in ot \
        and "for s in range(1, self.num_slices)" in ot
    check.decide(ok, "C02-R7", "overlap_projection: transmit through slice 0, then propagate by gap s−1 and transmit through slice s for s = 1…S−1", "", bmod.line(op),
                 fail_detail="the multislice recursion is not T_s · P_{s−1}(…)")

    # ---- R9 / R10 borrowed rule instances: the propagator kernel (C16) and the mixed-state orthogonalisation applied by the probe getter (C10) ----
    from ..core.report import SubCheck
    from .c10 import gram_schmidt_rules
    from .c16 import propagator_rules
    propagator_rules(SubCheck(check, "C02-R9"), repo)
    gram_schmidt_rules(SubCheck(check, "C02-R10"), repo)


MANIFEST = {
    "text": "Narrow claim — the numerical statement (zero loss at an independently simulated ground truth) is runtime. Decided: the "
            "library's own stages use one set of conventions: predictions and targets each carry exactly one fftshift (targets "
            "after the fitted origin was moved to the corner with the row/col components in place), non-descan targets are the "
            "centred ones, all detector-plane FFTs share a normalisation, the patch gather adds FFT-ordered integer ROI offsets "
            "to the rounded position of the same axis, wraps with that axis' object extent and forms the row-major flat index "
            "(kinded-axis analysis), every scan position is covered by the chunk partition, patch origin / sub-pixel remainder / "
            "update test use one rounding function, and the forward chain is wired stage to stage with the multislice recursion "
            "T_s·P_{s−1}.",
    "note": "Not decided: that the conventions are the physically right ones (propagator sign, exp(+iV), aperture, sub-pixel shift "
            "accuracy), zero loss at ground truth, strict increase under perturbation, the learned-descan branch.",
    "technique": "centring typestate + kinded-axis abstract interpretation + sibling agreement of conventions (AST)",
}
MANIFEST["text"] += " Also: per-call setup (targets for this call's loss type, propagator arrays) lies on every path to the epoch loop (R8, must-pass-through); borrowed instances: the propagator kernel's unit modulus / linearity in the slice thickness / per-axis frequency grids (R9 = C16's rules) and the mixed-state orthogonalisation's index alignment (R10 = C10's rules)."
MANIFEST["text"] += " R3 also: patch indices wrap per axis — a flat index reduced modulo the object area (rows·columns) wraps rows only and is reported."
MANIFEST["text"] += ' R5: the sub-pixel remainder is resolved through subscripts, locals and property getters and must be position − torch.round(position).'
MANIFEST["text"] += ' R8 is coupled with the slice_thicknesses setter (a conditional refresh in reconstruct is sound while the setter recomputes).'
MANIFEST["text"] += ' R11 (coupled): a potential is converted to a transmission function exactly once on the forward → _get_obj_patches path (dtype-gated sites are idempotent; two type-gated sites are a violation).'
